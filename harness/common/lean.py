"""Running the Lean side: translator, `lake build`, axiom audit, forbidden-token scan, driver."""
import fcntl
import os
import re
import subprocess
import sys
import time
from contextlib import contextmanager

VERIF = os.path.abspath(os.path.join(os.path.dirname(__file__), "..", ".."))
LEAN_DIR = os.path.join(VERIF, "lean")
REPO = os.environ.get("VERIF_REPO", "/repo")

ALLOWED_AXIOMS = {"propext", "Classical.choice", "Quot.sound"}
FORBIDDEN = re.compile(r"\bsorry\b|\badmit\b|^\s*axiom\s|native_decide|bv_decide|implemented_by|\bunsafe\s|maxHeartbeats\s+0\b|@\[extern")

sys.path.insert(0, os.path.join(VERIF, "tools"))


_lock_depth = 0
_lock_file = None


@contextmanager
def lake_lock():
    """re-entrant, process-wide exclusive lock on the lake project (flock-compatible with `flock lean/.lake/verif.lock`):
    a check holds it across translate + build + audit so that a concurrent check working on another tree
    (VERIF_REPO) cannot regenerate Gen/ in between"""
    global _lock_depth, _lock_file
    if _lock_depth == 0:
        os.makedirs(os.path.join(LEAN_DIR, ".lake"), exist_ok=True)
        _lock_file = open(os.path.join(LEAN_DIR, ".lake", "verif.lock"), "w")
        fcntl.flock(_lock_file, fcntl.LOCK_EX)
    _lock_depth += 1
    try:
        yield
    finally:
        _lock_depth -= 1
        if _lock_depth == 0:
            fcntl.flock(_lock_file, fcntl.LOCK_UN)
            _lock_file.close()
            _lock_file = None


def translate(only=None):
    import extract
    import gen_lean_index
    with lake_lock():
        st = extract.run(REPO, os.path.join(LEAN_DIR, "OptiVerif", "Gen"), only)
        gen_lean_index.main()
        return st


def strip_comments(src: str) -> str:
    # block comments (nested not handled beyond one level; doc comments included), then line comments
    out = []
    i, depth, n = 0, 0, len(src)
    while i < n:
        if src.startswith("/-", i):
            depth += 1
            i += 2
        elif src.startswith("-/", i) and depth > 0:
            depth -= 1
            i += 2
        elif depth > 0:
            if src[i] == "\n":
                out.append("\n")
            i += 1
        else:
            out.append(src[i])
            i += 1
    text = "".join(out)
    return "\n".join(l.split("--", 1)[0] for l in text.split("\n"))


def import_closure(roots):
    """modules of this project reachable by `import` from the given module names"""
    seen, todo = set(), list(roots)
    while todo:
        m = todo.pop()
        if m in seen:
            continue
        p = os.path.join(LEAN_DIR, *m.split(".")) + ".lean"
        if not os.path.exists(p):
            continue
        seen.add(m)
        with open(p, encoding="utf-8") as f:
            for imp in re.findall(r"^import\s+(\S+)", f.read(), re.M):
                if imp.startswith("OptiVerif") or imp.startswith("Driver"):
                    todo.append(imp)
    return seen


def scan_forbidden(roots=None):
    """(file, line_no, line) with forbidden tokens outside comments, in the import closure of `roots`
    (every file of the project when roots is None)"""
    hits = []
    files = []
    if roots is None:
        for root in (os.path.join(LEAN_DIR, "OptiVerif"), os.path.join(LEAN_DIR, "Driver")):
            for d, _, fns in os.walk(root):
                files += [os.path.join(d, fn) for fn in fns if fn.endswith(".lean")]
    else:
        files = [os.path.join(LEAN_DIR, *m.split(".")) + ".lean" for m in sorted(import_closure(roots))]
    for p in files:
        with open(p, encoding="utf-8") as f:
            body = strip_comments(f.read())
        for k, line in enumerate(body.split("\n"), 1):
            if FORBIDDEN.search(line):
                hits.append((os.path.relpath(p, LEAN_DIR), k, line.strip()))
    return hits


def build(targets, timeout=3000):
    """lake build of the given targets. returns (ok, output, seconds)"""
    t0 = time.time()
    with lake_lock():
        p = subprocess.run(["lake", "build"] + list(targets), cwd=LEAN_DIR, stdout=subprocess.PIPE,
                           stderr=subprocess.STDOUT, text=True, timeout=timeout)
    return p.returncode == 0, p.stdout, time.time() - t0


def build_driver_isolating(timeout=3000):
    """Build the driver; when a model that is not ours fails to compile, leave its handlers out and retry, so that one
    broken model (a mutated table of another property, work in progress) cannot take the other checks down.
    returns (ok, excluded_modules, output)"""
    import gen_lean_index
    excluded = set()
    out = ""
    for _ in range(6):
        with lake_lock():
            gen_lean_index.main(exclude=excluded)
        ok, out, _ = build(["driver"], timeout)
        if ok:
            return True, sorted(excluded), out
        failed = set(re.findall(r"^- (OptiVerif\.\S+)", out, re.M)) | set(re.findall(r"Building (OptiVerif\.\S+)", "\n".join(l for l in out.split("\n") if l.startswith("✖"))))
        failed = {m for m in failed if ".Model." in m or ".Gen." in m}
        if not failed or failed <= excluded:
            break
        excluded |= failed
    return False, sorted(excluded), out


def prop_theorems(prop_id):
    """(namespace, [theorem names]) declared in Props/<id>.lean (comments stripped)"""
    p = os.path.join(LEAN_DIR, "OptiVerif", "Props", prop_id + ".lean")
    with open(p, encoding="utf-8") as f:
        body = strip_comments(f.read())
    ns = re.search(r"^namespace\s+(\S+)", body, re.M)
    names = re.findall(r"^\s*(?:private\s+|protected\s+)?theorem\s+([^\s:({\[]+)", body, re.M)
    return (ns.group(1) if ns else ""), names


def audit(prop_id, timeout=1800):
    """`#print axioms` on every theorem of Props/<id>.lean.
    returns dict name -> sorted axioms list, or raises RuntimeError with the lean output"""
    ns, names = prop_theorems(prop_id)
    lines = [f"import OptiVerif.Props.{prop_id}"]
    for n in names:
        full = f"{ns}.{n}" if ns else n
        lines.append(f"#print axioms {full}")
    path = os.path.join(LEAN_DIR, ".lake", f"audit_{prop_id}.lean")
    with open(path, "w") as f:
        f.write("\n".join(lines) + "\n")
    with lake_lock():
        p = subprocess.run(["lake", "env", "lean", path], cwd=LEAN_DIR, stdout=subprocess.PIPE,
                           stderr=subprocess.STDOUT, text=True, timeout=timeout)
    out = p.stdout
    if p.returncode != 0:
        raise RuntimeError(out)
    res = {}
    # "'X' depends on axioms: [a, b]"  or "'X' does not depend on any axioms"
    for m in re.finditer(r"^'([^\n]+?)' depends on axioms: \[([^\]]*)\]", out, re.S | re.M):
        res[m.group(1)] = sorted(a.strip() for a in m.group(2).replace("\n", " ").split(",") if a.strip())
    for m in re.finditer(r"^'([^\n]+?)' does not depend on any axioms", out, re.M):
        res[m.group(1)] = []
    missing = [n for n in names if (f"{ns}.{n}" if ns else n) not in res]
    if missing:
        raise RuntimeError("audit output lacks: " + ", ".join(missing) + "\n" + out)
    return res


DRIVER = os.path.join(LEAN_DIR, ".lake", "build", "bin", "driver")
_private_driver = None


def snapshot_driver():
    """copy the freshly built driver to a private path (call while holding the lock): later rebuilds by other
    processes cannot swap the binary under a running correspondence check"""
    global _private_driver
    import shutil
    d = os.path.join(VERIF, "out", "drivers")
    os.makedirs(d, exist_ok=True)
    dst = os.path.join(d, f"driver_{os.getpid()}")
    shutil.copy2(DRIVER, dst)
    _private_driver = dst
    return dst


def drop_driver_snapshot():
    global _private_driver
    if _private_driver and os.path.exists(_private_driver):
        os.remove(_private_driver)
    _private_driver = None


def run_driver(lines, timeout=1800):
    """send request lines, get reply lines (same count)"""
    if not lines:
        return []
    inp = "\n".join(lines) + "\n"
    p = subprocess.run([_private_driver or DRIVER], input=inp, stdout=subprocess.PIPE, stderr=subprocess.PIPE, text=True,
                       timeout=timeout)
    if p.returncode != 0:
        raise RuntimeError(f"driver exit {p.returncode}: {p.stderr[:2000]}")
    out = p.stdout.split("\n")
    if out and out[-1] == "":
        out.pop()
    if len(out) != len(lines):
        raise RuntimeError(f"driver produced {len(out)} replies for {len(lines)} requests")
    return out
