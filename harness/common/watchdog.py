"""SIGALRM watchdog around calls into /repo code (DESIGN.md §2.5 d)."""
import signal
from contextlib import contextmanager


class Timeout(Exception):
    pass


@contextmanager
def time_limit(seconds: float):
    def handler(signum, frame):
        raise Timeout(f"call exceeded {seconds}s")
    old = signal.signal(signal.SIGALRM, handler)
    signal.setitimer(signal.ITIMER_REAL, seconds)
    try:
        yield
    finally:
        signal.setitimer(signal.ITIMER_REAL, 0)
        signal.signal(signal.SIGALRM, old)
