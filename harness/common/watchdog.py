"""SIGALRM watchdog around calls into /repo code (DESIGN.md §2.5 d).

A change that makes the implementation loop forever on MANY inputs would otherwise cost (limit x cases) of wall time: after
`STRIKES` calls have hit their limit in one process, every later limit is cut to `SHORT` seconds — the non-termination is
already established (and reported with the first cases as replay), the rest of the run only has to finish."""
import signal
from contextlib import contextmanager

STRIKES = 3
SHORT = 5.0
_timeouts = 0


class Timeout(Exception):
    pass


def timeouts_seen():
    return _timeouts


@contextmanager
def time_limit(seconds: float):
    limit = min(seconds, SHORT) if _timeouts >= STRIKES else seconds

    def handler(signum, frame):
        global _timeouts
        _timeouts += 1
        raise Timeout(f"call exceeded {limit}s")
    old = signal.signal(signal.SIGALRM, handler)
    signal.setitimer(signal.ITIMER_REAL, limit)
    try:
        yield
    finally:
        signal.setitimer(signal.ITIMER_REAL, 0)
        signal.signal(signal.SIGALRM, old)
