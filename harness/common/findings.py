"""known_findings.json: genuine defects recorded rather than repaired (status "known") and repaired ones
(status "fixed", which suppress nothing).  Never written at run time."""
import json
import os

VERIF = os.path.abspath(os.path.join(os.path.dirname(__file__), "..", ".."))
PATH = os.path.join(VERIF, "known_findings.json")


def load():
    if not os.path.exists(PATH):
        return []
    with open(PATH, encoding="utf-8") as f:
        return json.load(f).get("findings", [])


def known_for(prop_id):
    return [e for e in load() if e.get("property") == prop_id and e.get("status") == "known"]


def match(prop_id, sig):
    """the known entry a violation signature belongs to, or None"""
    for e in known_for(prop_id):
        if e.get("sig") == sig:
            return e
    return None
