"""Runtime monitors shared by the property harnesses (DESIGN.md §2.5).

    rep = monitored_call(fn, args, kwargs, seed=..., timeout=...)

(a) every ndarray reachable from the arguments (bare arrays, `.signal` / `.noise` / `.data` of the library's objects, items of
    lists / tuples / dicts) is write-protected for the duration of the call and compared bytewise before / after;
(b) `gv.__dict__` is snapshotted before / after (arrays by bytes, other values by pickle);
(c) `np.shares_memory(result_array, argument_array)` for every pair;
(d) the call runs under the SIGALRM watchdog;
(e) the numpy global RNG state is recorded before / after (did the call draw random numbers?).
The monitors decide runtime clauses; they are not theorems.
"""
import inspect
import pickle

import numpy as np

from harness.common.watchdog import time_limit, Timeout
from harness.common.wire import exc_enum

_SKIP_ATTRS = ("execution_time",)


def _plain_object(obj):
    """an instance with attributes (the library's signal objects define __call__, so `callable` is not the test)"""
    return hasattr(obj, "__dict__") and not isinstance(obj, type) and not inspect.isroutine(obj) \
        and not inspect.ismodule(obj) and type(obj).__module__ not in ("builtins", "functools")


def arrays_of(obj, depth=4, _seen=None):
    """every ndarray reachable from obj (containers, attributes of plain objects)"""
    out = []
    if _seen is None:
        _seen = set()
    if id(obj) in _seen or depth < 0:
        return out
    _seen.add(id(obj))
    if isinstance(obj, np.ndarray):
        out.append(obj)
    elif isinstance(obj, (list, tuple, set, frozenset)):
        if len(obj) <= 64:
            for x in obj:
                out += arrays_of(x, depth - 1, _seen)
    elif isinstance(obj, dict):
        for x in obj.values():
            out += arrays_of(x, depth - 1, _seen)
    elif _plain_object(obj):
        for k, x in vars(obj).items():
            if k not in _SKIP_ATTRS:
                out += arrays_of(x, depth - 1, _seen)
    return out


def fingerprint(obj, depth=4):
    """canonical, comparable description of a result: arrays by (dtype, shape, bytes), scalars by repr; timing fields dropped"""
    if isinstance(obj, np.ndarray):
        return ("ndarray", str(obj.dtype), tuple(obj.shape), np.ascontiguousarray(obj).tobytes())
    if isinstance(obj, (np.generic,)):
        return ("npscalar", str(obj.dtype), obj.tobytes())
    if isinstance(obj, (bool, int, float, complex, str, bytes, type(None))):
        return ("py", type(obj).__name__, repr(obj))
    if depth <= 0:
        return ("deep", type(obj).__name__)
    if isinstance(obj, (list, tuple)):
        return (type(obj).__name__,) + tuple(fingerprint(x, depth - 1) for x in obj)
    if isinstance(obj, dict):
        return ("dict",) + tuple((repr(k), fingerprint(v, depth - 1)) for k, v in sorted(obj.items(), key=lambda kv: repr(kv[0])))
    if _plain_object(obj):
        return (type(obj).__name__,) + tuple((k, fingerprint(v, depth - 1)) for k, v in sorted(vars(obj).items())
                                             if k not in _SKIP_ATTRS and not k.startswith("_"))
    return ("obj", type(obj).__name__)


def fp_diff(a, b, path="result"):
    """first difference between two fingerprints, or None"""
    if a == b:
        return None
    if isinstance(a, tuple) and isinstance(b, tuple) and a and b and a[0] == b[0] and a[0] not in ("ndarray", "npscalar", "py"):
        if len(a) != len(b):
            return f"{path}: {len(a) - 1} vs {len(b) - 1} items"
        for i, (x, y) in enumerate(zip(a[1:], b[1:])):
            if x != y:
                if isinstance(x, tuple) and len(x) == 2 and isinstance(x[0], str) and isinstance(y, tuple) and len(y) == 2 \
                        and x[0] == y[0] and isinstance(x[1], tuple):
                    return fp_diff(x[1], y[1], f"{path}.{x[0]}")
                return fp_diff(x, y, f"{path}[{i}]") if isinstance(x, tuple) and isinstance(y, tuple) else f"{path}[{i}] differs"
    if a[0] == "ndarray" and b[0] == "ndarray":
        if a[1:3] != b[1:3]:
            return f"{path}: dtype/shape {a[1:3]} vs {b[1:3]}"
        x = np.frombuffer(a[3], dtype=a[1])
        y = np.frombuffer(b[3], dtype=b[1])
        bad = np.flatnonzero(~((x == y) | ((x != x) & (y != y))))
        if bad.size == 0:
            return f"{path}: bytes differ (sign of zero / NaN payload)"
        i = int(bad[0])
        return f"{path}: {bad.size} of {x.size} samples differ, first at {i}: {x[i]!r} vs {y[i]!r}"
    return f"{path}: {str(a)[:60]} vs {str(b)[:60]}"


def gv_snapshot():
    from opticomlib.typing import gv
    snap = {}
    for k, v in vars(gv).items():
        if isinstance(v, np.ndarray):
            snap[k] = ("ndarray", str(v.dtype), tuple(v.shape), v.tobytes())
        else:
            try:
                snap[k] = ("obj", type(v).__name__, pickle.dumps(v))
            except Exception:
                snap[k] = ("id", type(v).__name__, id(v))
    return snap


def snapshot_diff(a, b):
    """names whose value was added / removed / changed between two gv snapshots"""
    out = []
    for k in sorted(set(a) | set(b)):
        if k not in a:
            out.append(f"+{k}")
        elif k not in b:
            out.append(f"-{k}")
        elif a[k] != b[k]:
            out.append(f"~{k}")
    return out


class Report:
    def __init__(self, label):
        self.label = label
        self.status = "ok"
        self.err = None
        self.detail = None
        self.result = None
        self.violations = []        # (sig, msg)
        self.rng_used = False
        self.n_arg_arrays = 0
        self.n_res_arrays = 0

    def to_json(self):
        return {"label": self.label, "status": self.status, "err": self.err, "detail": self.detail,
                "violations": [list(v) for v in self.violations], "rng_used": self.rng_used,
                "arg_arrays": self.n_arg_arrays, "res_arrays": self.n_res_arrays}


def _rng_state_key():
    st = np.random.get_state()
    return (st[0], st[1].tobytes(), st[2], st[3], st[4])


def monitored_call(fn, args=(), kwargs=None, *, seed=None, timeout=20.0, label=None, prefix="MON"):
    """run fn(*args, **kwargs) under monitors (a)-(e). Never raises for failures of fn."""
    kwargs = kwargs or {}
    label = label or getattr(fn, "__name__", "call")
    rep = Report(label)
    if seed is not None:
        np.random.seed(seed)
    arg_arrays = arrays_of((list(args), kwargs))
    rep.n_arg_arrays = len(arg_arrays)
    before = [a.tobytes() for a in arg_arrays]
    fp_before = fingerprint((list(args), kwargs))       # also sees an attribute re-bound to a new array (x.signal = …)
    flags = [a.flags.writeable for a in arg_arrays]
    for a in arg_arrays:
        try:
            a.flags.writeable = False
        except ValueError:
            pass
    g0 = gv_snapshot()
    r0 = _rng_state_key()
    try:
        with time_limit(timeout):
            rep.result = fn(*args, **kwargs)
    except Timeout as e:
        rep.status, rep.detail = "timeout", str(e)
    except Exception as e:  # noqa
        rep.status, rep.err, rep.detail = "err", exc_enum(e), repr(e)[:200]
        if isinstance(e, ValueError) and "read-only" in str(e):
            rep.violations.append((f"{prefix}:operand-write:{label}", f"{label} tried to write into an argument array: {e}"))
    finally:
        for a, f in zip(arg_arrays, flags):
            try:
                a.flags.writeable = f
            except ValueError:
                pass
    rep.rng_used = _rng_state_key() != r0
    after = [a.tobytes() for a in arg_arrays]
    changed = [i for i, (x, y) in enumerate(zip(before, after)) if x != y]
    if changed:
        rep.violations.append((f"{prefix}:operand-mutated:{label}", f"{label} changed the sample data of {len(changed)} argument array(s)"))
    else:
        d = fp_diff(fp_before, fingerprint((list(args), kwargs)), "arguments")
        if d:
            rep.violations.append((f"{prefix}:operand-mutated:{label}", f"{label} changed its arguments: {d}"))
    d = snapshot_diff(g0, gv_snapshot())
    if d:
        rep.violations.append((f"{prefix}:gv-mutated:{label}", f"{label} modified gv: {' '.join(d)}"))
    if rep.status == "ok":
        # the result (or a member of a returned tuple / list) must not BE one of the argument objects
        members = [rep.result] + (list(rep.result) if isinstance(rep.result, (tuple, list)) else [])
        given = [a for a in list(args) + list(kwargs.values()) if _plain_object(a) or isinstance(a, np.ndarray)]
        if any(r is a for r in members for a in given):
            rep.violations.append((f"{prefix}:alias-identity:{label}", f"{label} returned one of its argument objects itself"))
        res_arrays = arrays_of(rep.result)
        rep.n_res_arrays = len(res_arrays)
        for r in res_arrays:
            if r.size == 0:
                continue
            for a in arg_arrays:
                if a.size and np.may_share_memory(r, a) and np.shares_memory(r, a):
                    rep.violations.append((f"{prefix}:alias:{label}", f"{label}: a result array shares memory with an argument array"))
                    break
            else:
                continue
            break
        g_arrays = arrays_of(list(vars(__import__("opticomlib.typing", fromlist=["gv"]).gv).values()))
        for r in res_arrays:
            if r.size and any(a.size and np.may_share_memory(r, a) and np.shares_memory(r, a) for a in g_arrays):
                rep.violations.append((f"{prefix}:alias-gv:{label}", f"{label}: a result array shares memory with a gv array"))
                break
    return rep


def seeded_rerun(make_call, seed, timeout=20.0, label=None, prefix="MON", between=None):
    """`make_call()` -> (fn, args, kwargs) with FRESH argument objects each time.  Runs it twice after np.random.seed(seed)
    (optionally running `between()` in the middle) and compares the results bit-for-bit.  Returns (reports, violations)."""
    fn, args, kwargs = make_call()
    label = label or getattr(fn, "__name__", "call")
    r1 = monitored_call(fn, args, kwargs, seed=seed, timeout=timeout, label=label, prefix=prefix)
    if between is not None:
        between()
    fn, args, kwargs = make_call()
    r2 = monitored_call(fn, args, kwargs, seed=seed, timeout=timeout, label=label, prefix=prefix)
    v = list(r1.violations) + [x for x in r2.violations if x not in r1.violations]
    if r1.status != r2.status or r1.err != r2.err:
        v.append((f"{prefix}:rerun-status:{label}", f"{label}: first run {r1.status}/{r1.err}, second run {r2.status}/{r2.err}"))
    elif r1.status == "ok":
        d = fp_diff(fingerprint(r1.result), fingerprint(r2.result))
        if d:
            v.append((f"{prefix}:rerun-differs:{label}", f"{label} after np.random.seed({seed}) twice: {d}"))
    return (r1, r2), v
