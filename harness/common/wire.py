"""Encoders/decoders of the line protocol (mirror of lean/OptiVerif/Model/Wire.lean)."""
import struct
from fractions import Fraction


def f2u(x: float) -> int:
    return struct.unpack("<Q", struct.pack("<d", float(x)))[0]


def u2f(n: int) -> float:
    return struct.unpack("<d", struct.pack("<Q", int(n)))[0]


def enc_f(x) -> str:
    return str(f2u(x))


def enc_opt_int(x) -> str:
    return "none" if x is None else str(int(x))


def enc_list(xs, enc=str) -> str:
    xs = list(xs)
    return " ".join([str(len(xs))] + [enc(x) for x in xs])


def enc_flist(xs) -> str:
    return enc_list(xs, enc_f)


def enc_clist(zs) -> str:
    """complex list as 2n floats re,im interleaved, prefixed by n"""
    zs = list(zs)
    out = [str(len(zs))]
    for z in zs:
        z = complex(z)
        out.append(enc_f(z.real))
        out.append(enc_f(z.imag))
    return " ".join(out)


def enc_rat(q) -> str:
    q = Fraction(q)
    return f"{q.numerator}/{q.denominator}"


def enc_bool(b) -> str:
    return "1" if b else "0"


class Toks:
    """reader of a reply `ok t1 t2 ...`"""

    def __init__(self, s: str):
        self.t = s.split()
        self.i = 0

    def tok(self):
        v = self.t[self.i]
        self.i += 1
        return v

    def nat(self):
        return int(self.tok())

    int = nat

    def f(self):
        return u2f(int(self.tok()))

    def flist(self):
        n = self.nat()
        return [self.f() for _ in range(n)]

    def clist(self):
        n = self.nat()
        return [complex(self.f(), self.f()) for _ in range(n)]

    def list(self, rd):
        n = self.nat()
        return [rd() for _ in range(n)]

    def rest(self):
        return self.t[self.i:]

    def done(self):
        return self.i >= len(self.t)


def exc_enum(e: BaseException) -> str:
    """map a Python exception to the small error enum"""
    if isinstance(e, BufferError):
        return "BufferError"
    if isinstance(e, NotImplementedError):
        return "NotImplemented"
    if isinstance(e, ValueError):
        return "ValueError"
    if isinstance(e, TypeError):
        return "TypeError"
    return "Other"
