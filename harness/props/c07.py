"""C07 — linear propagation (DM, FIBER gamma=0) is an exact all-pass, additive in length."""
import warnings

import numpy as np

from harness.common.wire import enc_clist, enc_f, Toks, exc_enum
from harness.common.watchdog import time_limit, Timeout

ID = "C07"
MANIFEST = {
    "text": "Lean 4 theorems (Props/C07.lean) about the generic model of DM and FIBER(gamma=0) built on the proved DFT model: "
            "|H|=1 for every D, exact energy conservation of DM, DM(-D)∘DM(D)=id, DM(D1)∘DM(D2)=DM(D1+D2), "
            "FIBER(L,beta2)=DM(beta2*L) including the unit conversions translated from the source (1e-12, 1e-24), two spans = one "
            "span of the summed length, output energy = exp(-alpha*L/kappa) * input energy per row for any beta2/beta3, retH = "
            "fftshift of the applied response, length/rows preserved, superposition in the field, an unlit polarisation stays exactly dark.  "
            "Tie: constants translated from devices.py on every run; the "
            "same definitions executed at Float against DM()/FIBER() (tolerance 1e-9*scale*n).",
    "note": "numpy FFT trusted to be the DFT; proofs over R/C (no rounding); only .signal is demanded to be filtered (the code passes "
            ".noise through); the code's 4.343 differs from 10/ln10 by 1.3e-5 relative, so the oracle checks the 10^(-alpha L/10) "
            "clause at relative tolerance 2e-5*alpha*L[dB]/4.343 + 1e-9. Axioms: propext, Classical.choice, Quot.sound.",
    "technique": "Lean 4 proof over R/C (Parseval + multiplicative composition of frequency responses) of a generic model executed at Float in a differential run; constants regenerated from source",
    "design": "§5 C07",
}
GEN = ["FiberConst"]
MODELS = ["OptiVerif.Model.Fiber", "OptiVerif.Model.Fourier", "OptiVerif.Gen.FiberConst"]
RULE = ("cases = (device DM|FIBER, n_pol, length odd/even/prime/2^k, D or (alpha,beta2,beta3,L), gv configured through (sps,R) | (R,fs) incl. non-integer fs/R | fs alone | (sps,fs), noise?, dark polarisation x|y|all-zero record) with random "
        "complex fields; non-trivial = length>=3 and non-zero dispersion or loss; distinct by all parameters")
PARTIAL = ["numpy's FFT is trusted to compute the DFT; Float rounding not covered by theorems",
           "power clause 10^(-alpha*L/10) is checked by the oracle at the tolerance implied by the code's constant 4.343"]
ASSUMPTIONS = ["numpy.fft = DFT", "IEEE double arithmetic on both sides"]
THOROUGH_ROUNDS = 6      # the thorough tier draws the whole generator this many times
BUDGET = {"quick": 120, "thorough": 600}


def gen_cases(rng, tier):
    cases = []
    lens = [1, 2, 3, 4, 5, 8, 17, 32, 33, 64, 127] if tier == "quick" else [1, 2, 3, 4, 5, 7, 8, 9, 16, 17, 31, 32, 33, 64, 65, 127, 128, 251, 256]
    reps = 3 if tier == "quick" else 8
    # every way of configuring the sampling grid, integer and NON-integer fs/R included (the filter lives on gv.fs)
    gvs = [{"sps": 16, "R": 10e9}, {"sps": 8, "R": 1e9}, {"sps": 5, "R": 40e9}, {"sps": 33, "R": 2.5e9},
           {"R": 10e9, "fs": 25e9}, {"R": 28e9, "fs": 50e9}, {"fs": 12.4e9}, {"sps": 8, "fs": 80e9},
           # a slot count N in force (gv.t / gv.w / gv.dw exist for N*sps points) while the field has another length
           {"sps": 16, "R": 1e9, "N": 8}, {"R": 10e9, "fs": 25e9, "N": 4}, {"sps": 4, "R": 10e9, "N": 3}]
    for n in lens:
        for npol in (1, 2):
            for _ in range(reps):
                g = rng.choice(gvs)
                fs = _fs_of(g)
                sps, R = g.get("sps"), g.get("R")
                # dark rows: an unlit polarisation ([E,0] / [0,E]) or an all-zero record must stay exactly dark
                dark = rng.choice([None, None, None, "x", "y"]) if npol == 2 else rng.choice([None] * 7 + ["all"])
                # dispersion scaled so that w_max^2*D/2 spans a few radians:  w_max = pi*fs
                Dscale = 2.0 / (np.pi * fs * 1e-12) ** 2
                D = rng.choice([-1, 1]) * rng.uniform(0.05, 4.0) * Dscale
                D2 = rng.choice([-1, 1]) * rng.uniform(0.05, 4.0) * Dscale
                cases.append({"kind": "dm", "n": n, "npol": npol, "sps": sps, "R": R, "gv": g, "dark": dark, "D": D, "D2": D2,
                              "noise": rng.random() < 0.4, "seed": rng.getrandbits(32),
                              "dtype": rng.choice(["complex", "complex", "float", "int", "complex64"])})
                L = rng.uniform(0.5, 100.0)
                L2 = rng.uniform(0.5, 100.0)
                b2 = rng.choice([-1, 1, 1, -1, 0]) * rng.uniform(0.05, 4.0) * Dscale / L
                b3 = rng.choice([-1, 0, 1]) * rng.uniform(0.05, 2.0) * 6.0 / (np.pi * fs * 1e-12) ** 3 / L
                alpha = rng.choice([0.0, rng.uniform(0.0, 0.5), rng.uniform(0.0, 0.5)])
                if b2 == 0 and rng.random() < 0.7:
                    b3 = 0.0          # dispersion-free span (loss only, or nothing at all)
                cases.append({"kind": "fiber", "n": n, "npol": npol, "sps": sps, "R": R, "gv": g, "dark": dark, "alpha": alpha, "b2": b2, "b3": b3,
                              "L": L, "L2": L2, "noise": rng.random() < 0.4, "seed": rng.getrandbits(32),
                              "dtype": rng.choice(["complex", "complex", "float", "int", "complex64"])})
    for n in ([5, 8, 9] if tier == "quick" else lens):
        g = rng.choice(gvs)
        cases.append({"kind": "reth", "n": n, "npol": 1, "sps": g.get("sps"), "R": g.get("R"), "gv": g,
                      "D": rng.uniform(-1, 1) * 2.0 / (np.pi * _fs_of(g) * 1e-12) ** 2,
                      "noise": False, "seed": rng.getrandbits(32)})
    # strong dispersion: tens to hundreds of radians accumulated at the band edge, several radians PER KM, fractional lengths
    # (a per-km operator raised to the length, exp(D_op)**L, wraps its phase to (-pi, pi] and only shows there)
    for n, npol, L in [(64, 1, 12.5), (33, 2, 0.5), (128, 1, 80.25), (17, 2, 37.3)]:
        g = rng.choice(gvs)
        fs = _fs_of(g)
        per_km = rng.choice([-1, 1]) * rng.uniform(4.0, 12.0)                 # radians per km at w_max
        b2 = per_km * 2.0 / (np.pi * fs * 1e-12) ** 2
        cases.append({"kind": "fiber", "n": n, "npol": npol, "sps": g.get("sps"), "R": g.get("R"), "gv": g, "dark": None, "alpha": rng.choice([0.0, 0.2]),
                      "b2": b2, "b3": 0.0, "L": L, "L2": rng.choice([0.75, 3.3]), "noise": False, "seed": rng.getrandbits(32), "dtype": "complex"})
        cases.append({"kind": "dm", "n": n, "npol": npol, "sps": g.get("sps"), "R": g.get("R"), "gv": g, "dark": None, "D": b2 * L, "D2": -b2 * L / 3,
                      "noise": False, "seed": rng.getrandbits(32), "dtype": "complex"})
    # amplitude regimes (the filter is linear: tiny and huge fields alike) and two polarisations that differ only slightly
    for n, amp_, twin in [(32, 1e-9, None), (33, 1e-13, None), (16, 1e7, None), (64, 1.0, 1e-7), (17, 1e-9, 1e-3)]:
        g = rng.choice(gvs)
        fs = _fs_of(g)
        Dscale = 2.0 / (np.pi * fs * 1e-12) ** 2
        cases.append({"kind": "dm", "n": n, "npol": 2, "sps": g.get("sps"), "R": g.get("R"), "gv": g, "dark": None, "D": 2.0 * Dscale, "D2": -0.7 * Dscale,
                      "noise": False, "seed": rng.getrandbits(32), "dtype": "complex", "amp": amp_, "twin": twin})
        cases.append({"kind": "fiber", "n": n, "npol": 2, "sps": g.get("sps"), "R": g.get("R"), "gv": g, "dark": None, "alpha": 0.1, "b2": 1.5 * Dscale / 20.0,
                      "b3": 0.0, "L": 20.0, "L2": 5.0, "noise": False, "seed": rng.getrandbits(32), "dtype": "complex", "amp": amp_, "twin": twin})
    # a transparent medium: D = 0 and D = -0.0 (an exactly compensated link) with retH — still a (signal, H) pair, H = 1
    for n, npol, D in [(8, 1, 0.0), (9, 2, -0.0), (16, 2, 0.0)]:
        g = rng.choice(gvs)
        cases.append({"kind": "reth", "n": n, "npol": npol, "sps": g.get("sps"), "R": g.get("R"), "gv": g, "D": D,
                      "noise": False, "seed": rng.getrandbits(32)})
    # pure third-order dispersion (zero-dispersion wavelength): beta_2 exactly 0, beta_3 not
    for n, npol in [(33, 1), (64, 2)]:
        g = rng.choice(gvs)
        fs = _fs_of(g)
        cases.append({"kind": "fiber", "n": n, "npol": npol, "sps": g.get("sps"), "R": g.get("R"), "gv": g, "dark": None, "alpha": rng.choice([0.0, 0.2]),
                      "b2": 0.0, "b3": rng.choice([-1, 1]) * 1.0 * 6.0 / (np.pi * fs * 1e-12) ** 3 / 20.0, "L": 20.0, "L2": 7.0,
                      "noise": False, "seed": rng.getrandbits(32), "dtype": "complex"})
    cases.append({"kind": "badtype", "n": 4, "npol": 1, "sps": 16, "R": 1e9, "noise": False, "seed": 1})
    rng.shuffle(cases)
    return cases


def _gv_of(case):
    return case.get("gv") or {"sps": case["sps"], "R": case["R"]}


def _fs_of(g):
    """the sampling rate a gv(**g) call configures: the requested fs when given, else R*sps (defaults R=1e9, sps=16)"""
    return g["fs"] if "fs" in g else g.get("R", 1e9) * g.get("sps", 16)


def _single(case):
    """results of a complex64 container are rounded to single precision once per device call: tolerances follow the dtype"""
    return case.get("dtype") == "complex64"


def _field(case):
    r = np.random.default_rng(case["seed"])
    shape = (case["n"],) if case["npol"] == 1 else (2, case["n"])
    s = r.normal(size=shape) + 1j * r.normal(size=shape)
    nz = (r.normal(size=shape) + 1j * r.normal(size=shape)) * 0.1 if case["noise"] else None
    dt = case.get("dtype", "complex")
    if dt == "float":            # real-valued field kept in float64 (optical_signal keeps the dtype it is given)
        s = np.ascontiguousarray(s.real * 1.5)
    elif dt == "int":
        s = np.round(s.real * 20).astype(np.int64)
    elif dt == "complex64":
        s = s.astype(np.complex64)
    if case.get("twin") and case["npol"] == 2:          # y = x up to a small relative perturbation
        s[1] = s[0] * (1.0 + case["twin"] * (r.normal(size=case["n"]) + 1j * r.normal(size=case["n"])))
    if case.get("amp"):
        s = s * case["amp"]
        nz = None if nz is None else nz * case["amp"]
    d = case.get("dark")
    if d == "all":
        s = s * 0
    elif d in ("x", "y"):
        s[0 if d == "x" else 1] = 0
    return s, nz


def _rows(a):
    a = np.asarray(a)
    a = a[None, :] if a.ndim == 1 else a
    return [[[float(z.real), float(z.imag)] for z in row] for row in a]


def run_impl(case):
    from opticomlib.typing import gv, optical_signal, electrical_signal
    from opticomlib.devices import DM, FIBER
    res = {}
    try:
        with warnings.catch_warnings():
            warnings.simplefilter("ignore")
            gv.clean()
            gv(**_gv_of(case))
            res["fs"] = float(gv.fs)
            s, nz = _field(case)
            x = optical_signal(s, nz, n_pol=case["npol"])
            x_before = (x.signal.copy(), None if x.noise is None else x.noise.copy())
            with time_limit(60):
                if case["kind"] == "badtype":
                    try:
                        DM(electrical_signal(s), 1.0)
                        res["dm_type"] = "ok"
                    except Exception as e:  # noqa
                        res["dm_type"] = exc_enum(e)
                    try:
                        FIBER(s, 1.0)
                        res["fiber_type"] = "ok"
                    except Exception as e:  # noqa
                        res["fiber_type"] = exc_enum(e)
                    res["status"] = "ok"
                    return res
                if case["kind"] == "reth":
                    r_ = DM(x, case["D"], retH=True)
                    if not (isinstance(r_, tuple) and len(r_) == 2):
                        res.update(status="ok", reth_not_pair=type(r_).__name__, H=[], inp=_rows(x.signal), out=_rows(getattr(r_, "signal", x.signal)))
                        return res
                    y, H = r_
                    rp = DM(x, case["D"], True)                     # retH passed positionally
                    res["positional_same"] = bool(isinstance(rp, tuple) and len(rp) == 2 and np.array_equal(rp[0].signal, y.signal) and np.array_equal(rp[1], H))
                    res["new_object"] = bool(y is not x and not np.shares_memory(y.signal, x.signal))
                    res.update(status="ok", H=[[float(z.real), float(z.imag)] for z in H], inp=_rows(x.signal), out=_rows(y.signal))
                    return res
                if case["kind"] == "dm":
                    y = DM(x, case["D"])
                    back = DM(y, -case["D"])
                    y12 = DM(DM(x, case["D2"]), case["D"])
                    ysum = DM(x, case["D"] + case["D2"])
                    res.update(inv_err=float(np.max(np.abs(back.signal - x.signal))),
                               add_err=float(np.max(np.abs(y12.signal - ysum.signal))))
                else:
                    kw = dict(alpha=case["alpha"], beta_2=case["b2"], beta_3=case["b3"])
                    y = FIBER(x, case["L"], **kw)
                    # the documented positional order FIBER(input, length, alpha, beta_2, beta_3, gamma) must mean the same
                    yp = FIBER(x, case["L"], case["alpha"], case["b2"], case["b3"], 0.0)
                    res["positional_same"] = bool(np.array_equal(yp.signal, y.signal))
                    y2 = FIBER(y, case["L2"], **kw)
                    ysum = FIBER(x, case["L"] + case["L2"], **kw)
                    res["add_err"] = float(np.max(np.abs(y2.signal - ysum.signal)))
                    yd = FIBER(x, case["L"], beta_2=case["b2"])
                    ydm = DM(x, case["b2"] * case["L"])
                    res["fiber_dm_err"] = float(np.max(np.abs(yd.signal - ydm.signal)))
                res.update(status="ok", cls=type(y).__name__, npol=y.n_pol, shape=list(y.signal.shape),
                           inp=_rows(x.signal), out=_rows(y.signal),
                           e_in=[float(v) for v in np.atleast_1d(np.sum(np.abs(x.signal) ** 2, axis=-1))],
                           e_out=[float(v) for v in np.atleast_1d(np.sum(np.abs(y.signal) ** 2, axis=-1))],
                           noise_same=(y.noise is None and x.noise is None) or
                                      (y.noise is not None and x.noise is not None and bool(np.array_equal(y.noise, x.noise))),
                           in_unchanged=bool(np.array_equal(x.signal, x_before[0]) and
                                             (x.noise is None or np.array_equal(x.noise, x_before[1]))))
    except Timeout as e:
        res.update(status="timeout", detail=str(e))
    except Exception as e:  # noqa
        res.update(status="err", err=exc_enum(e), detail=repr(e)[:200])
    finally:
        try:
            gv.clean()
        except Exception:
            pass
    return res


def _enc_rows(rows):
    return " ".join([str(len(rows))] + [enc_clist([complex(a, b) for a, b in row]) for row in rows])


def model_requests(case, res):
    if res.get("status") != "ok" or case["kind"] == "badtype":
        return []
    fs = res["fs"]
    if case["kind"] == "dm":
        return [f"fiber.dm {enc_f(fs)} {enc_f(case['D'])} {_enc_rows(res['inp'])}"]
    if case["kind"] == "reth":
        return [f"fiber.reth {case['n']} {enc_f(fs)} {enc_f(case['D'])}", f"fiber.dm {enc_f(fs)} {enc_f(case['D'])} {_enc_rows(res['inp'])}"]
    return [f"fiber.lin {enc_f(fs)} {enc_f(case['alpha'])} {enc_f(case['b2'])} {enc_f(case['b3'])} {enc_f(case['L'])} {_enc_rows(res['inp'])}"]


def _cmp_rows(name, reply, rows, n, rel=1e-9):
    if not reply.startswith("ok "):
        return [f"{name}: model reply {reply[:80]}"]
    t = Toks(reply[3:])
    m = [t.clist() for _ in range(t.nat())]
    if len(m) != len(rows):
        return [f"{name}: rows {len(m)} vs {len(rows)}"]
    for r, (mr, ir) in enumerate(zip(m, rows)):
        iv = [complex(a, b) for a, b in ir]
        if len(mr) != len(iv):
            return [f"{name} row {r}: length {len(mr)} vs {len(iv)}"]
        scale = max(abs(z) for z in iv) or 1.0
        for k, (a, b) in enumerate(zip(mr, iv)):
            if not (abs(a - b) <= rel * scale * max(1, n)):
                return [f"{name} row {r} sample {k}: model {a!r} impl {b!r}"]
    return []


def compare(case, res, reqs, replies):
    if not reqs:
        return []
    n = case["n"]
    if case["kind"] == "reth":
        out = []
        if replies[0].startswith("ok "):
            H = Toks(replies[0][3:]).clist()
            iv = [complex(a, b) for a, b in res["H"]]
            if len(H) != len(iv) or any(not (abs(a - b) <= 1e-9) for a, b in zip(H, iv)):
                out.append("retH differs between model and implementation")
        else:
            out.append(f"model reply {replies[0][:60]}")
        return out + _cmp_rows("DM output", replies[1], res["out"], n, 3e-6 if _single(case) else 1e-9)
    return _cmp_rows(case["kind"] + " output", replies[0], res["out"], n, 3e-6 if _single(case) else 1e-9)


def oracle(case, res):
    v = []
    if res.get("status") == "timeout":
        return [("C07:timeout", f"{case['kind']} did not return")]
    if res.get("status") != "ok":
        return [("C07:raises", f"valid request failed: {res}")]
    if case["kind"] == "badtype":
        if res["dm_type"] != "TypeError":
            v.append(("C07:dm-type", f"DM(electrical_signal) -> {res['dm_type']}, TypeError required"))
        if res["fiber_type"] != "TypeError":
            v.append(("C07:fiber-type", f"FIBER(ndarray) -> {res['fiber_type']}, TypeError required"))
        return v
    n = case["n"]
    fs = _fs_of(_gv_of(case))
    if not (abs(res["fs"] - fs) <= 1e-9 * fs):
        v.append(("C07:fs", f"gv.fs={res['fs']} but the configured sampling rate is {fs}"))
    eps = (1.2e-7 if _single(case) else 2.2e-16) * 64 * max(1, n)
    r9 = 3e-6 if _single(case) else 1e-9          # "1e-9 relative" of the double-precision path
    r12 = 3e-6 if _single(case) else 1e-12
    a = np.array([[complex(p, q) for p, q in row] for row in res["inp"]])
    o = np.array([[complex(p, q) for p, q in row] for row in res["out"]])
    scale = float(np.max(np.abs(a))) if np.max(np.abs(a)) > 0 else 1.0          # purely relative to the field
    w = 2 * np.pi * np.fft.fftfreq(n) * fs
    if res.get("positional_same") is False:
        v.append(("C07:positional", f"{case['kind']}: the call with the documented positional argument order differs from the keyword call (n={n})"))
    if case["kind"] == "reth":
        if res.get("reth_not_pair"):
            return v + [("C07:retH", f"DM(x, D={case['D']!r}, retH=True) returned a {res['reth_not_pair']}, not the (signal, H) pair")]
        if res.get("new_object") is False:
            v.append(("C07:retH", f"DM(x, D={case['D']!r}, retH=True) handed back its input object / buffer instead of a new signal"))
        Href = np.fft.fftshift(np.exp(-1j * w ** 2 * case["D"] * 1e-24 / 2))
        H = np.array([complex(p, q) for p, q in res["H"]])
        if H.shape != Href.shape or not (np.max(np.abs(H - Href)) <= 1e-9):
            v.append(("C07:retH", "retH does not match exp(-j w^2 D/2) on the fftshift-ed grid"))
        ref = np.fft.ifft(np.fft.fft(a, axis=-1) * np.fft.ifftshift(H), axis=-1)
        if not (np.max(np.abs(ref - o)) <= r9 * scale * n):
            v.append(("C07:retH-applied", "the response returned by retH is not the filter that was applied"))
        return v
    if case["kind"] == "dm":
        H = np.exp(-1j * w ** 2 * (case["D"] * 1e-24) / 2)
    else:
        ap = case["alpha"] / (10 / np.log(10))
        wp = w * 1e-12
        H = np.exp((-ap / 2 - 1j * case["b2"] * wp ** 2 / 2 - 1j * case["b3"] * wp ** 3 / 6) * case["L"])
    ref = np.fft.ifft(np.fft.fft(a, axis=-1) * H, axis=-1)
    tol = r9 * scale * n + (2e-5 * case.get("alpha", 0) * case.get("L", 0) / 4.343) * scale
    if o.shape != ref.shape or not (np.max(np.abs(o - ref)) <= tol):
        v.append((f"C07:{case['kind']}-filter", f"{case['kind']} output differs from the LTI reference filter by {np.max(np.abs(o - ref)):.3e} (n={n})"))
    if res["cls"] != "optical_signal" or res["npol"] != case["npol"] or res["shape"] != list(a.shape if case["npol"] == 2 else (n,)):
        v.append(("C07:shape", f"layout not preserved: {res['cls']} n_pol={res['npol']} shape={res['shape']}"))
    if not res["in_unchanged"]:
        v.append(("C07:input-modified", "the input object was modified"))
    e_in, e_out = np.array(res["e_in"]), np.array(res["e_out"])
    if case["kind"] == "dm":
        if not np.all(np.abs(e_out - e_in) <= r12 * n * e_in):
            v.append(("C07:dm-energy", f"DM changed the energy: {e_in} -> {e_out}"))
        if not (res["inv_err"] <= eps * scale * 4):
            v.append(("C07:dm-inverse", f"DM(-D)(DM(D)x) differs from x by {res['inv_err']:.3e}"))
        if not (res["add_err"] <= eps * scale * 4):
            v.append(("C07:dm-additive", f"DM(D1)DM(D2) differs from DM(D1+D2) by {res['add_err']:.3e}"))
    else:
        lossdb = case["alpha"] * case["L"]
        want = e_in * 10 ** (-lossdb / 10)
        rtol = 2e-5 * lossdb / 4.343 + r9 * n
        if not np.all(np.abs(e_out - want) <= rtol * np.maximum(want, 1e-300)):
            v.append(("C07:fiber-loss", f"output energy {e_out} != input*10^(-alpha L/10) {want} (alpha L = {lossdb:.3f} dB)"))
        if not (res["add_err"] <= (eps * 4 + r12) * scale):
            v.append(("C07:fiber-span-add", f"two spans differ from one span of summed length by {res['add_err']:.3e}"))
        if not (res["fiber_dm_err"] <= (eps * 4 + r12) * scale):
            v.append(("C07:fiber-eq-dm", f"FIBER(L,beta2) differs from DM(beta2*L) by {res['fiber_dm_err']:.3e}"))
    return v


def features(case, res):
    f = ["kind=" + case["kind"], "status=" + str(res.get("status")), f"npol={case['npol']}",
         "n-odd" if case["n"] % 2 else "n-even", "noise" if case["noise"] else "no-noise",
         "gv=" + "+".join(sorted(_gv_of(case))), "fs/R-" + ("integer" if float(_fs_of(_gv_of(case)) / _gv_of(case).get("R", 1e9)).is_integer() else "non-integer")]
    if case.get("dark"):
        f.append("dark=" + case["dark"])
    f.append("dtype=" + case.get("dtype", "complex"))
    if case["kind"] == "fiber":
        f.append("lossy" if case["alpha"] > 0 else "lossless")
        f.append("beta3" if case["b3"] != 0 else "no-beta3")
    return f


def nontrivial_key(case, res):
    if res.get("status") != "ok" or case["n"] < 3 or case["kind"] == "badtype":
        return None
    return (case["kind"], case["n"], case["npol"], tuple(sorted(_gv_of(case).items())), case.get("D"), case.get("b2"), case.get("L"), case["seed"])
