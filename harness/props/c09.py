"""C09 — PD is a square-law detector with unit DC gain and the documented noise powers."""
import math
import warnings

import numpy as np

from harness.common.wire import enc_f, enc_flist, enc_clist, enc_list, enc_bool, exc_enum, Toks
from harness.common.watchdog import time_limit, Timeout

ID = "C09"
MANIFEST = {
    "text": "Lean 4 theorems (Props/C09.lean) over the generic model Model/Pd.lean of devices.PD up to the call of the output filter "
            "(one definition: read at R:=Real for the proofs, run at R:=Float against the real PD; validation ladder, the three "
            "trigger blocks, the include_noise ladder and the scalar formulas i_sig, i_n_n, i_ase, S_T, S_N are translated from "
            "devices.py on every run into Gen/PdTable.lean and pinned to the documented values): signal part = R_load*r*(|Ex|^2+|Ey|^2) "
            "sample by sample whatever the option/draws (deterministic), CW of power P -> constant r*P*R_load before and after any "
            "DC-preserving filter, whole result (RNG requests, signal, noise) invariant under per-sample phase rotations of each "
            "polarisation and under per-sample unitary mixing [[a,b],[-conj b,conj a]] with |a|^2+|b|^2=1 of the total field, linear in r and "
            "R_load, quadratic in the field amplitude; selection table: each of the seven options (any letter case) asks the RNG "
            "for exactly the selected draws N(0,sigma_th), N(0,sigma_sh) of n samples (thermal first) and sums exactly the selected "
            "terms + dark current, times R_load; sigma_th^2 = 4 kB T 10^(Fn/10) (fs/2)/R_load and sigma_sh^2 = 2 e (r (mean signal power + "
            "mean optical-noise power) + i_dark) (fs/2) are the variances handed to the RNG; unknown option -> ValueError; validation "
            "table (order input, r, T, R_load, include_noise; TypeError / ValueError); output length.  END TO END (Model/PdFull.lean = C11's "
            "Filter.lpf after the pre-filter model): pd_cw_filtered (CW -> constant r*P*R_load at every sample after PD's actual "
            "forward-backward filter, under C11's SteadyState / prod G = 1 hypotheses evaluated on the spied sections, N > pad), "
            "pd_filtered_linear_r_R, pd_filtered_quadratic, pd_filtered_length, noise filtered by the same operator as the signal and "
            "selected terms adding linearly after the filter (pd_filtered_noise_terms); the FINAL output (signal and noise) of the "
            "real PD is compared with the composed model to 1e-12*scale*N.  Tie: Float run of the same "
            "definitions vs PD with opticomlib.devices.LPF spied (value handed to the filter compared sample by sample) and "
            "np.random.normal spied (loc, scale, size compared with the model's requests; recorded draws fed to the model).",
    "note": "The output filter is C11's model: here an abstract operator F (DC-preserving / length-preserving hypotheses); the oracle "
            "applies scipy's own sosfiltfilt(bessel(4,BW,norm='mag')) to the reference pre-filter value for the end-to-end clauses. "
            "Measured variance after the filter = sigma^2 * noise-equivalent bandwidth: statistical oracle (thorough tier, 2^18 "
            "samples, 6-sigma band), not a theorem.  Proofs over the reals (no rounding); kB, e are parameters. R_load = 0 (accepted by "
            "the code, outside the statement's R_load > 0) is refused by the model. Axioms: propext, Classical.choice, Quot.sound.",
    "technique": "Lean 4 proof over a generic numeric model (algebra over R, list induction, kernel-decided string tables translated "
                 "from the source); Float differential run with the RNG arguments and the filter input spied",
    "design": "§5 C09",
}
GEN = ["PdTable"]
MODELS = ["OptiVerif.Model.Pd", "OptiVerif.Model.PdFull", "OptiVerif.Gen.PdTable"]
RULE = ("cases = PD calls on random / CW optical fields (N in {17,18,31,32,33,64,100,127}, 1/2 pol, with/without optical noise, "
        "complex128 / float64 / int64 arrays for signal AND noise) x every "
        "include_noise option in random letter case x r in (0,1] (incl. 1, int 1) x T (incl. 0) x R_load x i_dark x Fn x gv(sps,R) (plus every other form of gv(...): (sps,fs), (R,fs) with non-integer fs/R so that sps*R != fs, fs alone, "
        "with/without N; noise bandwidth must be gv.fs/2) x BW in "
        "(0,fs/2) x numpy seed, each with twin calls (other seed, phase rotation, unitary mixing, scaled r/R_load, scaled amplitude); "
        "histories = the same PD call (same BW, arguments, seed) repeated in one process under 3-4 different gv sampling rates, "
        "each output judged end to end against a filter designed afresh for the rate in force; validation cells (value kinds of r,T,R_load,include_noise,input x boundary values); unknown option strings; thorough: variance "
        "soaks of 2^18 samples. non-trivial = accepted call on a non-zero field; distinct by all parameters")
PARTIAL = [
    "measured variance of the thermal/shot noise after the output filter = sigma^2 x noise-equivalent bandwidth: statistical oracle "
    "(thorough tier, >= 2^18 samples, 6-sigma band); the theorem states the sigma handed to the RNG",
    "the Bessel design (scipy.signal.bessel) and sosfilt_zi are parameters of the composed model (spied); the recursion of "
    "sosfiltfilt itself is C11's model, composed here end to end",
    "zero mean / Gaussianity / independence of the draws: numpy's RNG is trusted (its draws are inputs of the model)",
    "floating-point rounding: theorems over the reals; Float run agrees with numpy to 1e-9 relative",
]
ASSUMPTIONS = [
    "np.random.normal(loc, scale, size) returns independent N(loc, scale^2) samples (numpy RNG trusted; draws are model inputs)",
    "np.abs(z)**2 = re^2+im^2 and numpy mean/sum = exact sums up to rounding",
    "the driver evaluates the same Lean definitions the theorems are about",
]
BUDGET = {"quick": 120, "thorough": 900}

# documented positional order of PD (signature of /repo HEAD 8caea4c, recorded here as a literal: NOT read from the code under test)
PD_POSITIONAL = ["input", "BW", "r", "T", "R_load", "include_noise", "i_dark", "Fn"]
OPTIONS = ["ase-only", "thermal-only", "shot-only", "ase-thermal", "ase-shot", "thermal-shot", "all"]
CONTENT = {  # option -> (sig-noise beating, noise-noise beating, thermal, shot)   [the statement / docstring]
    "ase-only": (1, 1, 0, 0), "thermal-only": (0, 0, 1, 0), "shot-only": (0, 0, 0, 1), "ase-thermal": (1, 1, 1, 0),
    "ase-shot": (1, 1, 0, 1), "thermal-shot": (0, 0, 1, 1), "all": (1, 1, 1, 1)}
LENS = [17, 18, 31, 32, 33, 64, 100, 127]
GVS = [(16, 10e9), (8, 1e9), (5, 40e9), (32, 2.5e9)]
# the same cut-off must recur under different sampling rates (a design cached per BW would survive a gv reconfiguration)
BW_RECUR = [2e9, 3e9, 8e9, 12e9]
# every way of configuring the global grid, including sampling rates that are NOT an integer multiple of the slot rate
# (then gv.sps * gv.R != gv.fs: the noise bandwidth of the statement is B = fs/2, with fs the sampling rate in force) and set-ups
# with a slot count N in force.  (kwargs of gv(...), the sampling rate that must result)
GV_FORMS = [
    ({"R": 10e9, "fs": 25e9}, 25e9), ({"R": 10e9, "fs": 35e9}, 35e9), ({"fs": 12.4e9}, 12.4e9), ({"R": 2.5e9, "fs": 33e9}, 33e9),
    ({"sps": 8, "fs": 20e9}, 20e9), ({"sps": 7, "R": 3e9}, 21e9), ({"sps": 16, "R": 1e9, "N": 10}, 16e9),
    ({"R": 10e9, "fs": 25e9, "N": 12}, 25e9), ({"fs": 12.4e9, "N": 5}, 12.4e9), ({"sps": 8, "fs": 20e9, "N": 7}, 20e9),
    ({"R": 1e9, "fs": 7.5e9}, 7.5e9), ({"fs": 40e9}, 40e9),
]
LOW_BW = [3e-4, 1e-4, 6e-5, 3e-5]      # BW/fs of narrow-band receivers (the statement's range is BW in (0, fs/2))
# histories: one process, same BW and parameters, the global sampling rate reconfigured between the calls
HISTORIES = [
    (4e9, [(2, 10e9), (8, 10e9), (4, 10e9)]),               # 20, 80, 40 GS/s
    (4e9, [(8, 10e9), (4, 10e9), (2, 10e9), (8, 10e9)]),    # descending and back to the first
    (1e9, [(16, 1e9), (8, 1e9), (32, 1e9), (16, 1e9)]),
    (6e9, [(5, 40e9), (16, 10e9), (32, 2.5e9)]),            # 200, 160, 80 GS/s
    (2.5e9, [(4, 2.5e9), (16, 2.5e9), (8, 2.5e9)]),
]


def _recase(rng, s):
    mode = rng.randrange(4)
    if mode == 0:
        return s
    if mode == 1:
        return s.upper()
    if mode == 2:
        return s.title()
    return "".join(c.upper() if rng.random() < 0.5 else c for c in s)


def _py(kind, v=None):
    return {"py": kind, "v": v}


def gen_cases(rng, tier):
    cases = []
    reps = 6 if tier == "quick" else 30
    for opt in OPTIONS:
        for npol in (1, 2):
            for noise in (False, True):
                for _ in range(reps):
                    sps, R = rng.choice(GVS)
                    fs = sps * R
                    recur = [b for b in BW_RECUR if 0.02 * fs <= b <= 0.45 * fs]
                    cases.append({
                        "kind": "run", "n": rng.choice(LENS), "npol": npol, "noise": noise,
                        "dtype": rng.choice(["complex", "complex", "float", "int"]),
                        # "darkpol": a two-polarisation field whose y polarisation carries NO signal but (when noise is on) does carry noise
                        "field": rng.choice(["random", "random", "cw", "darkpol"] if npol == 2 else ["random", "random", "cw"]),
                        "amp": rng.choice([1.0, 0.03, 1e-3]),
                        "seed": rng.getrandbits(32), "np_seed": rng.getrandbits(31), "np_seed2": rng.getrandbits(31),
                        "sps": sps, "R": R, "BW": rng.choice(recur) if recur and rng.random() < 0.5 else rng.uniform(0.02, 0.45) * fs,
                        "r": rng.choice([_py("float", 1.0), _py("int", 1), _py("float", 0.5), _py("float", rng.uniform(0.01, 1.0)),
                                         _py("np.float64", 0.8)]),
                        "T": rng.choice([_py("float", 300.0), _py("int", 300), _py("int", 0), _py("float", rng.uniform(0.0, 400.0))]),
                        "R_load": rng.choice([_py("float", 50.0), _py("int", 50), _py("float", rng.uniform(10.0, 1e4))]),
                        "sel": _py("str", _recase(rng, opt)), "i_dark": rng.choice([0.0, 10e-9, 1e-6]),
                        "Fn": rng.choice([0, 0.0, 3.0, rng.uniform(0.0, 10.0)]),
                        "twin_r": rng.uniform(0.1, 1.0), "twin_R": rng.uniform(10.0, 500.0),
                        "twin_c": [rng.uniform(-2, 2), rng.uniform(-2, 2)], "twin_persample": rng.random() < 0.5,
                    })
                    if cases[-1]["dtype"] == "int" and cases[-1]["field"] == "cw":
                        cases[-1]["field"] = "random"
    # every form of gv(...) — the sigmas handed to the RNG must follow B = gv.fs/2 for the sampling rate actually in force
    for kw, fs_req in GV_FORMS:
        for opt in (("thermal-shot", "all") if tier == "quick" else ("thermal-shot", "all", "thermal-only", "shot-only", "ase-shot")):
            noise = opt in ("all", "ase-shot")
            cases.append({
                "kind": "run", "gv": dict(kw), "fs_req": fs_req, "n": rng.choice(LENS), "npol": rng.choice([1, 2]), "noise": noise,
                "field": rng.choice(["random", "cw"]), "amp": rng.choice([1.0, 0.03]), "seed": rng.getrandbits(32),
                "np_seed": rng.getrandbits(31), "np_seed2": rng.getrandbits(31), "sps": 0, "R": fs_req,
                "BW": rng.uniform(0.05, 0.4) * fs_req, "r": _py("float", rng.choice([1.0, rng.uniform(0.1, 1.0)])),
                "T": _py("float", rng.choice([300.0, rng.uniform(50.0, 400.0)])), "R_load": _py("float", rng.choice([50.0, 1e3])),
                "sel": _py("str", _recase(rng, opt)), "i_dark": rng.choice([0.0, 10e-9]), "Fn": rng.choice([0.0, 3.0]),
                "twin_r": rng.uniform(0.1, 1.0), "twin_R": rng.uniform(10.0, 500.0),
                "twin_c": [rng.uniform(-2, 2), rng.uniform(-2, 2)], "twin_persample": rng.random() < 0.5})
    # narrow-band receivers (monitor photodiodes): BW/fs down to 3e-5; CW light, dark current — the DC clauses, on the whole record
    for ratio in LOW_BW:
        for opt in ("ase-only", "thermal-only") if tier == "quick" else ("ase-only", "thermal-only", "all", "ase-only"):
            sps, R = rng.choice(GVS)
            cases.append({
                "kind": "run", "lowbw": True, "n": rng.choice([64, 257]), "npol": rng.choice([1, 2]), "noise": False, "field": "cw",
                "amp": rng.choice([1.0, 0.03]), "seed": rng.getrandbits(32), "np_seed": rng.getrandbits(31), "np_seed2": rng.getrandbits(31),
                "sps": sps, "R": R, "BW": ratio * sps * R, "r": _py("float", rng.choice([1.0, 0.7])), "T": _py("float", 300.0),
                "R_load": _py("float", rng.choice([50.0, 1e3])), "sel": _py("str", _recase(rng, opt)), "i_dark": rng.choice([10e-9, 1e-6]),
                "Fn": 0.0, "twin_r": rng.uniform(0.1, 1.0), "twin_R": rng.uniform(10.0, 500.0),
                "twin_c": [rng.uniform(-2, 2), rng.uniform(-2, 2)], "twin_persample": rng.random() < 0.5})
    # histories: the same call repeated while gv's sampling rate changes
    hreps = 1 if tier == "quick" else 4
    for BW, steps in HISTORIES:
        for opt in ("ase-only", "thermal-only", "all"):          # no random term / thermal noise under a fixed seed / everything
            for _ in range(hreps):
                cases.append({
                    "kind": "history", "steps": [list(st) for st in steps], "n": rng.choice([32, 64, 100]), "npol": rng.choice([1, 2]),
                    "noise": opt == "all", "field": rng.choice(["random", "cw"]), "amp": rng.choice([1.0, 0.03]),
                    "seed": rng.getrandbits(32), "np_seed": rng.getrandbits(31), "sps": steps[0][0], "R": steps[0][1], "BW": BW,
                    "r": _py("float", rng.choice([1.0, 0.7])), "T": _py("float", 300.0), "R_load": _py("float", 50.0),
                    "sel": _py("str", _recase(rng, opt)), "i_dark": 10e-9, "Fn": rng.choice([0.0, 3.0])})
    # validation cells and unknown options
    base = {"kind": "valid", "n": 20, "npol": 1, "noise": False, "field": "random", "amp": 0.03, "seed": 7, "np_seed": 11,
            "sps": 16, "R": 10e9, "BW": 5e9, "r": _py("float", 1.0), "T": _py("float", 300.0), "R_load": _py("float", 50.0),
            "sel": _py("str", "all"), "i_dark": 10e-9, "Fn": 0, "input": "optical"}
    bad_kinds = [_py("none"), _py("str", "1"), _py("complex", [1.0, 0.0]), _py("list", [1.0]), _py("ndarray", [1.0]),
                 _py("np.float32", 0.5), _py("np.int64", 1), _py("bool", True)]
    cells = []
    for v in bad_kinds + [_py("float", 0.0), _py("int", 0), _py("float", -0.5), _py("float", 1.0), _py("int", 1),
                          _py("float", 1.0000001), _py("int", 2), _py("float", 1e-9), _py("np.float64", 1.5)]:
        cells.append(("r", v))
    for v in bad_kinds + [_py("float", -1e-9), _py("int", -1), _py("int", 0), _py("float", 0.0), _py("float", 400.0)]:
        cells.append(("T", v))
    for v in bad_kinds + [_py("float", -1.0), _py("int", -1), _py("float", 1e-3), _py("int", 10000)]:
        cells.append(("R_load", v))
    for v in [_py("none"), _py("int", 5), _py("list", ["all"]), _py("bytes", "all")]:
        cells.append(("sel", v))
    for s in ["", "foo", "thermal", "shot", "ase", "all ", " all", "ase_only", "thermal-xyz", "xshot-only", "alls", "ase-all",
              "ase-thermal-shot", "thermal-ase", "K", "ALL-", "none"]:
        cells.append(("sel", _py("str", s)))
    for inp in ["ndarray", "esig", "list", "none"]:
        cells.append(("input", inp))
    for name, v in cells:
        c = dict(base)
        c[name] = v
        c["np_seed"] = rng.getrandbits(31)
        c["seed"] = rng.getrandbits(32)
        c["npol"] = rng.choice([1, 2])
        c["noise"] = rng.random() < 0.5
        cases.append(c)
    # every invalid r / T / R_load value crossed with EVERY include_noise selection (random letter case) and 1/2 polarisations:
    # the documented error does not depend on which noise terms were asked for
    invalid = [("r", _py("float", 0.0)), ("r", _py("float", -0.5)), ("r", _py("float", 1.5)), ("r", _py("int", 2)), ("r", _py("none")),
               ("r", _py("str", "1")), ("T", _py("int", -1)), ("T", _py("float", -1e-9)), ("T", _py("float", -300.0)), ("T", _py("none")),
               ("T", _py("str", "300")), ("R_load", _py("float", -1.0)), ("R_load", _py("int", -50)), ("R_load", _py("none")),
               ("R_load", _py("list", [50.0]))]
    for opt in OPTIONS:
        for name, v in invalid:
            c = dict(base)
            c[name] = v
            c["sel"] = _py("str", _recase(rng, opt))
            c["npol"] = rng.choice([1, 2])
            c["noise"] = rng.random() < 0.5
            c["seed"] = rng.getrandbits(32)
            c["np_seed"] = rng.getrandbits(31)
            cases.append(c)
    # two invalid arguments at once: the order of the checks
    for a, b in [("r", "T"), ("T", "R_load"), ("R_load", "sel"), ("r", "sel"), ("input", "r")]:
        c = dict(base)
        for name in (a, b):
            c[name] = {"r": _py("float", 2.0), "T": _py("none"), "R_load": _py("float", -3.0), "sel": _py("int", 1),
                       "input": "ndarray"}[name]
        if (a, b) == ("r", "T"):
            c["r"] = _py("float", 2.0)      # ValueError from r must win over TypeError from T
        cases.append(c)
    if tier == "thorough":
        for opt in ["thermal-only", "shot-only", "thermal-shot", "all", "ase-thermal", "ase-shot", "ALL"]:
            for npol in (1, 2):
                sps, R = rng.choice(GVS)
                cases.append({"kind": "stat", "n": 2 ** 18, "npol": npol, "noise": False, "field": "cw", "amp": rng.choice([0.03, 0.1]),
                              "seed": rng.getrandbits(32), "np_seed": rng.getrandbits(31), "sps": sps, "R": R,
                              "BW": rng.uniform(0.05, 0.4) * sps * R, "r": _py("float", rng.uniform(0.3, 1.0)),
                              "T": _py("float", rng.uniform(100.0, 400.0)), "R_load": _py("float", rng.choice([50.0, 1e3])),
                              "sel": _py("str", opt), "i_dark": 10e-9, "Fn": rng.choice([0.0, 5.0])})
    rng.shuffle(cases)
    # histories first: a violation that needs a sequence of calls is then reported on a case that reproduces it on its own (replay)
    cases.sort(key=lambda c: c["kind"] != "history")
    return cases


# ------------------------------------------------------------------------------------------------
# implementation side
# ------------------------------------------------------------------------------------------------

def _field(case):
    g = np.random.default_rng(case["seed"])
    n, npol = case["n"], case["npol"]
    shape = (n,) if npol == 1 else (2, n)
    dtype = case.get("dtype", "complex")
    if dtype == "int":
        # int64 signal AND noise arrays (ndarray.conj() of a real array is the array itself); amplitudes != 1
        s = g.integers(2, 7, size=shape) * g.choice([-1, 1], size=shape)
        if case["field"] == "darkpol" and npol == 2:
            s[1] = 0
        nz = g.integers(-3, 4, size=shape) if case["noise"] else None
        return s.astype(np.int64), None if nz is None else nz.astype(np.int64)
    if dtype == "float":
        sign = g.choice([-1.0, 1.0], size=shape)
        if case["field"] == "cw":
            th = g.uniform(0, np.pi / 2)
            s = case["amp"] * sign if npol == 1 else case["amp"] * np.array([np.cos(th), np.sin(th)])[:, None] * sign
        else:
            s = case["amp"] * g.normal(size=shape)
            if case["field"] == "darkpol" and npol == 2:
                s[1] = 0.0
        nz = 0.2 * case["amp"] * g.normal(size=shape) if case["noise"] else None
        return s.astype(np.float64), nz
    if case["field"] == "cw":
        ph = g.uniform(0, 2 * np.pi, size=shape)
        if npol == 1:
            s = case["amp"] * np.exp(1j * ph)
        else:
            th = g.uniform(0, np.pi / 2)       # constant split of the power between the polarisations
            s = case["amp"] * np.array([np.cos(th), np.sin(th)])[:, None] * np.exp(1j * ph)
    else:
        s = case["amp"] * (g.normal(size=shape) + 1j * g.normal(size=shape))
        if case["field"] == "darkpol" and npol == 2:
            s[1] = 0.0
    nz = 0.2 * case["amp"] * (g.normal(size=shape) + 1j * g.normal(size=shape)) if case["noise"] else None
    return s, nz


def _obj(spec):
    k, v = spec["py"], spec["v"]
    if k == "float":
        return float(v)
    if k == "int":
        return int(v)
    if k == "bool":
        return bool(v)
    if k == "none":
        return None
    if k == "str":
        return str(v)
    if k == "bytes":
        return str(v).encode()
    if k == "complex":
        return complex(*v)
    if k == "list":
        return list(v)
    if k == "ndarray":
        return np.array(v)
    if k == "np.float64":
        return np.float64(v)
    if k == "np.float32":
        return np.float32(v)
    if k == "np.int64":
        return np.int64(v)
    raise ValueError(k)


def _mro(o):
    return [c.__name__ for c in type(o).__mro__]


def _rows(a):
    a = np.asarray(a)
    a = a[None, :] if a.ndim == 1 else a
    return [[[float(z.real), float(z.imag)] for z in row] for row in a]


class _Spies:
    def __init__(self):
        self.rng = []
        self.lpf = []

    def __enter__(self):
        import opticomlib.devices as dev
        self.dev = dev
        self.orig_normal = np.random.normal
        self.orig_lpf = dev.LPF
        spies = self

        def normal(loc=0.0, scale=1.0, size=None):
            v = spies.orig_normal(loc, scale, size)
            spies.rng.append({"loc": float(loc), "scale": float(scale),
                              "size": int(size) if np.ndim(size) == 0 and size is not None else (None if size is None else list(size)),
                              "values": np.array(v, dtype=float).ravel().copy()})
            return v

        def lpf(inp, BW, *a, **k):
            spies.lpf.append({"signal": np.array(inp.signal).copy(), "noise": None if inp.noise is None else np.array(inp.noise).copy(),
                              "BW": float(BW), "cls": type(inp).__name__, "extra": bool(a or k)})
            return spies.orig_lpf(inp, BW, *a, **k)

        np.random.normal = normal
        dev.LPF = lpf
        return self

    def __exit__(self, *exc):
        np.random.normal = self.orig_normal
        self.dev.LPF = self.orig_lpf
        return False


_MON = []      # operands-unchanged monitor: one record per real PD call of the current run_impl


def _call_pd(case, s, nz, r, T, Rl, sel, seed, store_values=True, inp_kind="optical", positional=False, x_obj=None):
    """one call of the real PD under the spies and the operands-unchanged monitor. returns dict"""
    from opticomlib.typing import optical_signal, electrical_signal
    from opticomlib.devices import PD
    if x_obj is not None:
        x = x_obj
    elif inp_kind == "optical":
        x = optical_signal(s, nz, n_pol=case["npol"])
    elif inp_kind == "ndarray":
        x = np.array(s)
    elif inp_kind == "esig":
        x = electrical_signal(np.abs(np.atleast_2d(s)[0]))
    elif inp_kind == "list":
        x = [1.0, 2.0, 3.0]
    else:
        x = None
    before = None
    if inp_kind == "optical":
        before = (x.signal.tobytes(), str(x.signal.dtype), x.signal.shape,
                  None if x.noise is None else (x.noise.tobytes(), str(x.noise.dtype), x.noise.shape))
        out_dt = {"sig_dtype": str(x.signal.dtype), "noise_dtype": None if x.noise is None else str(x.noise.dtype)}
    out = {}
    np.random.seed(seed)
    import opticomlib.devices as dev
    from harness.props import c11 as _c11          # C11's spies on scipy.signal.bessel / sosfiltfilt and its parameter extraction
    with _Spies() as sp, _c11._Spy(dev) as fsp:
        try:
            with time_limit(60):
                if positional:
                    kw = {"input": x, "BW": case["BW"], "r": r, "T": T, "R_load": Rl, "include_noise": sel, "i_dark": case["i_dark"],
                          "Fn": case["Fn"]}
                    y = PD(*[kw[k] for k in PD_POSITIONAL])
                else:
                    y = PD(x, case["BW"], r=r, T=T, R_load=Rl, include_noise=sel, i_dark=case["i_dark"], Fn=case["Fn"])
            out["status"] = "ok"
            out["cls"] = type(y).__name__
            out["out_sig"] = np.array(y.signal, dtype=float)
            out["out_noise"] = None if y.noise is None else np.array(y.noise, dtype=float)
            out["len"] = int(y.len())
        except Timeout as e:
            out.update(status="timeout", detail=str(e))
        except Exception as e:  # noqa
            out.update(status="err", err=exc_enum(e), detail=repr(e)[:200])
    out["rng"] = sp.rng
    out["lpf"] = sp.lpf
    # the sections PD's own filter used, their sosfilt_zi state, scipy's pad length, and the hypotheses of C11's dc_gain on them
    out["filter"], out["filter_remarks"] = (_c11._params(fsp) if fsp.ff else (None, []))
    if before is not None:
        after = (x.signal.tobytes(), str(x.signal.dtype), x.signal.shape,
                 None if x.noise is None else (x.noise.tobytes(), str(x.noise.dtype), x.noise.shape))
        out["in_unchanged"] = before == after            # bytes, dtype and shape of input.signal / input.noise
        out.update(out_dt)
        out["alias"] = False
        if out.get("status") == "ok":
            ins = [a for a in (x.signal, x.noise) if a is not None]
            outs = [a for a in (y.signal, y.noise) if isinstance(a, np.ndarray)]
            out["alias"] = any(np.shares_memory(a, b) for a in ins for b in outs)
        _MON.append({"call": len(_MON), "unchanged": out["in_unchanged"], "alias": out["alias"], "positional": positional,
                     "reused_object": x_obj is not None})
    return out


def _fl(a):
    return None if a is None else [float(v) for v in np.ravel(a)]


def _pack(call, full=True):
    """JSON-serialisable view of one call"""
    d = {k: call[k] for k in ("status", "err", "detail", "cls", "len", "in_unchanged", "alias", "sig_dtype", "noise_dtype", "filter",
                              "filter_remarks") if k in call}
    d["rng"] = [{"loc": q["loc"], "scale": q["scale"], "size": q["size"], **({"values": _fl(q["values"])} if full else {})}
                for q in call["rng"]]
    d["lpf_calls"] = len(call["lpf"])
    if call["lpf"]:
        l0 = call["lpf"][0]
        d["lpf_BW"], d["lpf_cls"], d["lpf_extra"] = l0["BW"], l0["cls"], l0["extra"]
        if full:
            d["pre_sig"], d["pre_noise"] = _fl(l0["signal"]), _fl(l0["noise"])
    if full and call.get("status") == "ok":
        d["out_sig"], d["out_noise"] = _fl(call["out_sig"]), _fl(call["out_noise"])
    return d


def _exceeds(err, tol):
    """tolerance test that a NaN / inf on either side FAILS (`err > tol` is silently False for NaN)"""
    return not (err <= tol)


def _mx(xs):
    """max |x| over a sequence; NaN as soon as one element is not finite (Python's max() does not propagate NaN)"""
    a = np.abs(np.asarray(list(xs) if not isinstance(xs, np.ndarray) else xs, dtype=float))
    if a.size == 0:
        return 0.0
    return float("nan") if not np.all(np.isfinite(a)) else float(np.max(a))


def _maxrel(a, b):
    """max |a-b| / max |b|; inf for a shape mismatch, NaN when a value is not finite (callers test with _exceeds)"""
    a, b = np.asarray(a, dtype=float), np.asarray(b, dtype=float)
    if a.shape != b.shape:
        return float("inf")
    if not a.size:
        return 0.0
    sb = _mx(b)
    return _mx(a - b) / (sb if sb != 0 else 1e-300)       # NaN propagates


def run_impl(case):
    res = _run_impl(case)
    res["monitor"] = list(_MON)
    return res


def _run_impl(case):
    from opticomlib.typing import gv
    import scipy.constants as sc
    del _MON[:]
    res = {"kB": sc.k, "e": sc.e}
    try:
        with warnings.catch_warnings():
            warnings.simplefilter("ignore")
            gv.clean()
            if case["kind"] == "history":
                # ONE process, gv reconfigured between the calls (no gv.clean() in between: as a user would do)
                res["steps"] = []
                for sps, R in case["steps"]:
                    gv(sps=sps, R=R)
                    s, nz = _field(case)
                    r, T, Rl, sel = _obj(case["r"]), _obj(case["T"]), _obj(case["R_load"]), _obj(case["sel"])
                    c = _call_pd(case, s, nz, r, T, Rl, sel, case["np_seed"])
                    res["steps"].append({"kB": res["kB"], "e": res["e"], "fs": float(gv.fs), "status": "done",
                                         "mro": {"r": _mro(r), "T": _mro(T), "R_load": _mro(Rl), "sel": _mro(sel)},
                                         "inp": {"sig": _rows(s), "noise": None if nz is None else _rows(nz)}, "main": _pack(c)})
                res["main"] = res["steps"][-1]["main"]
                res["status"] = "done"
                return res
            if case.get("gv"):
                gv(**case["gv"])
                res["gv_state"] = {"sps": float(gv.sps), "R": float(gv.R), "fs": float(gv.fs)}
            else:
                gv(sps=case["sps"], R=case["R"])
            res["fs"] = float(gv.fs)          # the model and the oracle take the sampling rate from gv.fs AS CONFIGURED
            s, nz = _field(case)
            r, T, Rl, sel = _obj(case["r"]), _obj(case["T"]), _obj(case["R_load"]), _obj(case["sel"])
            res["mro"] = {"r": _mro(r), "T": _mro(T), "R_load": _mro(Rl), "sel": _mro(sel)}
            res["inp"] = {"sig": _rows(s), "noise": None if nz is None else _rows(nz)}
            if case["kind"] == "stat":
                c = _call_pd(case, s, nz, r, T, Rl, sel, case["np_seed"])
                res["main"] = _pack(c, full=False)
                if c["status"] == "ok":
                    res["stat"] = {"noise_mean": float(np.mean(c["out_noise"])), "noise_var": float(np.var(c["out_noise"])),
                                   "sig_min": float(np.min(c["out_sig"])), "sig_max": float(np.max(c["out_sig"]))}
                res["status"] = "done"
                return res
            main = _call_pd(case, s, nz, r, T, Rl, sel, case["np_seed"], inp_kind=case.get("input", "optical"))
            res["main"] = _pack(main)
            if case["kind"] == "run" and main["status"] == "ok":
                tw = {}
                # (0) the SAME input object handed to PD three times under the same seed: identical results every time (a call that
                #     writes into its input compounds on the next one)
                from opticomlib.typing import optical_signal
                xo = optical_signal(s, nz, n_pol=case["npol"])
                reps = [_call_pd(case, s, nz, r, T, Rl, sel, case["np_seed"], x_obj=xo) for _ in range(3)]
                tw["repeat"] = {"status": [c["status"] for c in reps],
                                "identical": all(c["status"] == "ok" and np.array_equal(c["out_sig"], main["out_sig"], equal_nan=True)
                                                 and np.array_equal(c["out_noise"], main["out_noise"], equal_nan=True) for c in reps),
                                "noise_dev": [(_maxrel(c["out_noise"], main["out_noise"]) if c["status"] == "ok" else None) for c in reps]}
                # (a) another seed: the signal part must not move
                c = _call_pd(case, s, nz, r, T, Rl, sel, case["np_seed2"])
                tw["reseed"] = {"status": c["status"], "sig_identical": c["status"] == "ok" and bool(np.array_equal(c["out_sig"], main["out_sig"]))}
                # (b) phase rotation of the total field (independent per polarisation and per sample), same seed
                g = np.random.default_rng(case["seed"] ^ 0x5151)
                ph = np.exp(1j * g.uniform(0, 2 * np.pi, size=s.shape))
                c = _call_pd(case, s * ph, None if nz is None else nz * ph, r, T, Rl, sel, case["np_seed"])
                tw["phase"] = _twin(c, main)
                # (c) unitary mixing of the polarisation state (2-pol), constant or per sample
                if case["npol"] == 2:
                    m = case["n"] if case["twin_persample"] else 1
                    al, be, ga = g.uniform(0, 2 * np.pi, m), g.uniform(0, 2 * np.pi, m), g.uniform(0, np.pi / 2, m)
                    a, b = np.cos(ga) * np.exp(1j * al), np.sin(ga) * np.exp(1j * be)

                    def mix(f):
                        return np.array([a * f[0] + b * f[1], -np.conj(b) * f[0] + np.conj(a) * f[1]])
                    c = _call_pd(case, mix(s), None if nz is None else mix(nz), r, T, Rl, sel, case["np_seed"])
                    tw["unitary"] = _twin(c, main)
                # (d) other responsivity / load: signal part scales linearly
                c = _call_pd(case, s, nz, case["twin_r"], T, case["twin_R"], sel, case["np_seed"])
                k = case["twin_r"] * case["twin_R"] / (float(r) * float(Rl))
                tw["lin"] = {"status": c["status"], "err": _maxrel(c["out_sig"], k * main["out_sig"]) if c["status"] == "ok" else None}
                # (e) field multiplied by a complex constant: signal part scales by |c|^2
                cc = complex(*case["twin_c"])
                c = _call_pd(case, s * cc, None if nz is None else nz * cc, r, T, Rl, sel, case["np_seed"])
                tw["quad"] = {"status": c["status"], "err": _maxrel(c["out_sig"], abs(cc) ** 2 * main["out_sig"]) if c["status"] == "ok" else None}
                # (f) the same call with every argument passed POSITIONALLY in the documented order, same seed: bit-identical
                c = _call_pd(case, s, nz, r, T, Rl, sel, case["np_seed"], positional=True)
                tw["positional"] = {"status": c["status"], "detail": c.get("detail"),
                                    "identical": c["status"] == "ok" and bool(np.array_equal(c["out_sig"], main["out_sig"], equal_nan=True)
                                                                              and np.array_equal(c["out_noise"], main["out_noise"], equal_nan=True)),
                                    "scales": [q["scale"] for q in c["rng"]], "main_scales": [q["scale"] for q in main["rng"]]}
                res["twins"] = tw
            res["status"] = "done"
    except Timeout as e:
        res.update(status="timeout", detail=str(e))
    except Exception as e:  # noqa
        res.update(status="harness-err", detail=repr(e)[:300])
    finally:
        try:
            gv.clean()
        except Exception:
            pass
    return res


def _twin(c, main):
    if c["status"] != "ok":
        return {"status": c["status"], "detail": c.get("detail")}
    return {"status": "ok", "sig_err": _maxrel(c["out_sig"], main["out_sig"]),
            "noise_err": _maxrel(c["out_noise"], main["out_noise"]),
            "rng_scale_err": _mx([(q["scale"] - p["scale"]) / (p["scale"] if p["scale"] != 0 else 1e-300) for q, p in zip(c["rng"], main["rng"])]),
            "rng_calls": len(c["rng"]) == len(main["rng"])}


# ------------------------------------------------------------------------------------------------
# model side
# ------------------------------------------------------------------------------------------------

def _enc_rows(rows):
    return " ".join([str(len(rows))] + [enc_clist([complex(a, b) for a, b in row]) for row in rows])


def _enc_field(inp):
    s = _enc_rows(inp["sig"])
    return s + (" 1 " + _enc_rows(inp["noise"]) if inp["noise"] is not None else " 0")


def _enc_pyval(spec, mro):
    toks = [enc_list(mro)]
    if spec["py"] in ("float", "int", "bool", "np.float64", "np.float32", "np.int64"):
        toks.append("1 " + enc_f(float(spec["v"])))
    else:
        toks.append("0")
    return " ".join(toks)


def _enc_sel(spec):
    if spec["py"] == "str":
        return "s " + enc_list([ord(ch) for ch in spec["v"]])
    return "o"


def _substeps(case, res):
    """a history as a list of ordinary (case, result) pairs, one per sampling rate"""
    for (sps, R), sr in zip(case["steps"], res.get("steps", [])):
        yield dict(case, kind="run", sps=sps, R=R), sr


def model_requests(case, res):
    if res.get("status") != "done" or case["kind"] == "stat":
        return []
    if case["kind"] == "history":
        return [q for sc, sr in _substeps(case, res) for q in model_requests(sc, sr)]
    main = res["main"]
    draws = main["rng"]
    # which recorded draw is the thermal one / the shot one: by the lower-cased option, as the code decides (substring tests)
    dT, dN = [], []
    if case["sel"]["py"] == "str":
        low = case["sel"]["v"].lower()
        th = ("thermal" in low) or ("all" in low)
        sh = ("shot" in low) or ("all" in low)
        it = iter(draws)
        if th:
            q = next(it, None)
            dT = q["values"] if q else []
        if sh:
            q = next(it, None)
            dN = q["values"] if q else []
    is_opt = case.get("input", "optical") == "optical"
    tail = " ".join([
        enc_bool(is_opt), enc_f(res["kB"]), enc_f(res["e"]), enc_f(res["fs"]),
        _enc_pyval(case["r"], res["mro"]["r"]), _enc_pyval(case["T"], res["mro"]["T"]), _enc_pyval(case["R_load"], res["mro"]["R_load"]),
        _enc_sel(case["sel"]), enc_f(case["i_dark"]), enc_f(float(case["Fn"])), enc_flist(dT), enc_flist(dN)])
    if is_opt:
        tail += " " + _enc_field(res["inp"])
    reqs = ["pd.run " + tail]
    p = main.get("filter")
    if p:
        # end to end: the same call through PD's actual filter (sections / zi / pad length spied from scipy: C11's model)
        secs = [str(len(p["sos"]))]
        for row, z in zip(p["sos"], p["zi"]):
            secs += [enc_f(row[0]), enc_f(row[1]), enc_f(row[2]), enc_f(row[4]), enc_f(row[5]), enc_f(z[0]), enc_f(z[1])]
        reqs.append(f"pdfull.run {p['edge']} {' '.join(secs)} {tail}")
    return reqs


def _parse_reqs(t):
    out = []
    for _ in range(t.nat()):
        out.append((t.f(), t.f(), t.nat()))
    return out


def compare(case, res, reqs, replies):
    if not reqs:
        return []
    if case["kind"] == "history":
        out, pos = [], 0
        for k, (sc, sr) in enumerate(_substeps(case, res)):
            rq = model_requests(sc, sr)
            out += [f"step {k} (fs={sr['fs']:.3g}): {d}" for d in compare(sc, sr, rq, replies[pos:pos + len(rq)])]
            pos += len(rq)
        return out
    main = res["main"]
    rep = replies[0]
    out = []
    if rep.startswith("ok "):
        t = Toks(rep[3:])
        mreqs = _parse_reqs(t)
        msig, mnoise = t.flist(), t.flist()
        if main["status"] != "ok":
            return [f"model accepts, implementation {main['status']} {main.get('err')} {main.get('detail')}"]
        if main["lpf_calls"] != 1:
            return [f"PD called LPF {main['lpf_calls']} times"]
        scale_s = _mx(main["pre_sig"])
        if len(msig) != len(main["pre_sig"]) or _exceeds(_mx(np.array(msig) - np.array(main["pre_sig"])), 1e-9 * scale_s):
            out.append("signal part handed to LPF differs between model and implementation")
        if main["pre_noise"] is None:
            out.append("implementation handed no noise part to LPF")
        else:
            drawmax = _mx([v for q in main["rng"] for v in q["values"]]) * float(_obj(case["R_load"]))
            scale_n = max(_mx(main["pre_noise"]), drawmax) if drawmax == drawmax else float("nan")
            if len(mnoise) != len(main["pre_noise"]) or _exceeds(_mx(np.array(mnoise) - np.array(main["pre_noise"])), 1e-9 * scale_n):
                out.append("noise part handed to LPF differs between model and implementation")
    elif rep.startswith("err "):
        parts = rep.split()
        err = parts[1]
        mreqs = _parse_reqs(Toks(" ".join(parts[2:])))
        if err == "Other":
            return [f"model refuses the case (outside its domain): {rep[:60]}; implementation: {main['status']}"]
        if main["status"] != "err" or main["err"] != err:
            return [f"model raises {err}, implementation {main['status']} {main.get('err')} {main.get('detail')}"]
    else:
        return [f"model reply {rep[:80]}"]
    # the RNG requests: number, order, loc, scale, size
    ireqs = main["rng"]
    if len(mreqs) != len(ireqs):
        out.append(f"model expects {len(mreqs)} np.random.normal calls, implementation made {len(ireqs)}")
    else:
        for k, ((loc, scale, size), q) in enumerate(zip(mreqs, ireqs)):
            if q["loc"] != loc or q["size"] != size or _exceeds(abs(q["scale"] - scale), 1e-9 * abs(scale)):
                out.append(f"np.random.normal call {k}: model (loc={loc}, scale={scale!r}, size={size}) vs implementation "
                           f"(loc={q['loc']}, scale={q['scale']!r}, size={q['size']})")
    if len(replies) > 1:
        out += _compare_full(case, main, replies[1])
    elif main["status"] == "ok":
        out.append("PD returned but scipy.signal.sosfiltfilt was not observed: no end-to-end comparison possible")
    return out


def _compare_full(case, main, rep):
    """FINAL output of PD vs Filter.lpf o pd (C11's model of sosfiltfilt is exact to the last bits: 1e-12 * scale * N)"""
    from harness.props import c11 as _c11
    out = []
    p = main["filter"]
    for rm in main.get("filter_remarks") or []:
        out.append("output filter: " + rm)
    if p["ff_calls"] != 2 or p["bessel_calls"] != 1:
        out.append(f"PD's filter: {p['bessel_calls']} designs / {p['ff_calls']} sosfiltfilt calls (1 / 2 expected: signal and noise)")
    # hypotheses of pd_cw_filtered (C11's dc_gain) on the coefficients scipy actually used
    out += _c11._hyp(p)
    if rep.startswith("ok "):
        if main["status"] != "ok":
            return out + [f"end to end: model returns, implementation {main['status']} {main.get('err')}"]
        t = Toks(rep[3:])
        _parse_reqs(t)
        msig, mnoise = t.flist(), t.flist()
        n = len(main["out_sig"])
        for name, m, i in (("signal", msig, main["out_sig"]), ("noise", mnoise, main["out_noise"])):
            pre = main["pre_sig"] if name == "signal" else main["pre_noise"]
            scale = _mx(pre)
            if i is None or len(m) != len(i):
                out.append(f"end to end: {name} part has {len(m)} samples in the model, {None if i is None else len(i)} in the implementation")
            else:
                worst = _mx(np.array(m) - np.array(i))
                if _exceeds(worst, 1e-12 * scale * n):
                    out.append(f"end to end: FINAL {name} part of PD differs from Filter.lpf(pre-filter model) by {worst:.3e} (scale {scale:.3e}, N={n})")
    elif rep.startswith("err "):
        err = rep.split()[1]
        if main["status"] != "err" or main.get("err") != err:
            out.append(f"end to end: model raises {err}, implementation {main['status']} {main.get('err')}")
    else:
        out.append(f"end to end: model reply {rep[:80]}")
    return out


# ------------------------------------------------------------------------------------------------
# oracle: the statement on what the real code returned (numpy / scipy reference, independent of the Lean model)
# ------------------------------------------------------------------------------------------------

def _num_valid(spec, lo_open=None, lo=None, hi=None):
    """expected outcome of a documented numeric argument: 'ok' | 'TypeError' | 'ValueError' | None (not demanded)"""
    k, v = spec["py"], spec["v"]
    if k in ("none", "str", "complex", "list", "ndarray", "bytes"):
        return "TypeError"
    if k in ("float", "int"):
        if lo_open is not None and v <= lo_open:
            return "ValueError"
        if lo is not None and v < lo:
            return "ValueError"
        if hi is not None and v > hi:
            return "ValueError"
        return "ok"
    return None   # bool, numpy scalar types: the documentation does not say


def _expected_status(case):
    """first failing check in the documented order, or 'ok'; None when a not-demanded kind is involved"""
    if case.get("input", "optical") != "optical":
        return "TypeError"
    for name, kw in (("r", dict(lo_open=0.0, hi=1.0)), ("T", dict(lo=0.0)), ("R_load", dict(lo=0.0))):
        e = _num_valid(case[name], **kw)
        if e is None:
            return None
        if e != "ok":
            return e
    if case["R_load"]["v"] == 0:
        return None       # outside R_load > 0
    if case["sel"]["py"] != "str":
        return "TypeError"
    if case["sel"]["v"].lower() not in OPTIONS:
        return "ValueError"
    return "ok"


def _reference(case, res):
    """numpy reference of everything before the filter, from the inputs and the spied draws"""
    inp = res["inp"]
    s = np.array([[complex(a, b) for a, b in row] for row in inp["sig"]])
    nz = None if inp["noise"] is None else np.array([[complex(a, b) for a, b in row] for row in inp["noise"]])
    r, T, Rl = float(case["r"]["v"]), float(case["T"]["v"]), float(case["R_load"]["v"])
    fs, kB, e = res["fs"], res["kB"], res["e"]
    B = fs / 2
    P = np.sum(np.abs(s) ** 2, axis=0)
    Pn = np.sum(np.abs(nz) ** 2, axis=0) if nz is not None else np.zeros(s.shape[1])
    beat = np.sum(2 * np.real(s * np.conj(nz)), axis=0) if nz is not None else np.zeros(s.shape[1])
    var_th = 4 * kB * T * 10 ** (float(case["Fn"]) / 10) * B / Rl
    var_sh = 2 * e * (r * (np.mean(P) + np.mean(Pn)) + case["i_dark"]) * B
    return {"sig": Rl * r * P, "sn": r * beat, "nn": r * Pn, "var_th": var_th, "var_sh": var_sh, "r": r, "Rl": Rl, "n": s.shape[1]}


def _dc_tol(BW, fs):
    """relative tolerance of the DC clauses: 1e-9, plus the rounding of the section coefficients seen through the conditioning of
    a low-pass whose poles sit at distance ~2*pi*BW/fs from z = 1 (sum(a) ~ that distance squared): 8*eps/(2 pi BW/fs)^2.
    5e-10 at BW/fs = 3e-4, 5e-8 at 3e-5 (observed on the unchanged tree: 1.4e-11 and 1.6e-9)"""
    return 1e-9 + 8 * 2.2e-16 / (2 * math.pi * BW / fs) ** 2


def _filter(case, res, x):
    import scipy.signal as sg
    sos = sg.bessel(4, case["BW"], btype="low", fs=res["fs"], output="sos", norm="mag")
    return sg.sosfiltfilt(sos, x), sos


def oracle(case, res):
    v = []
    if res.get("status") == "timeout":
        return [("C09:timeout", "PD did not return")]
    if res.get("status") != "done":
        return [("C09:harness", f"harness failure: {res.get('detail')}")]
    if case["kind"] == "history":
        # every call of the sequence is judged END TO END against a filter designed afresh for the rate then in force
        for k, (sc, sr) in enumerate(_substeps(case, res)):
            for sig, msg in oracle(sc, sr):
                v.append((sig.replace("C09:", "C09:history:", 1),
                          f"call {k} of the sequence fs = {[a * b for a, b in case['steps']]} (BW = {case['BW']:.3g}, same arguments): {msg}"))
        return v
    main = res["main"]
    if main["status"] == "timeout":
        return [("C09:timeout", "PD did not return")]
    if case.get("fs_req") is not None and not (abs(res["fs"] - case["fs_req"]) <= 1e-12 * case["fs_req"]):
        v.append(("C09:gv-fs", f"gv({case['gv']}) left gv.fs = {res['fs']!r}, requested sampling rate {case['fs_req']!r}"))
    exp = _expected_status(case)
    if exp is None:
        return v
    if exp != "ok":
        if main["status"] != "err" or main["err"] != exp:
            what = next((k for k in ("input", "r", "T", "R_load", "sel") if k in case), "?")
            v.append((f"C09:validation:{exp}", f"documented {exp} expected for r={case['r']} T={case['T']} R_load={case['R_load']} "
                      f"include_noise={case['sel']} input={case.get('input', 'optical')}; got {main['status']} {main.get('err')} {main.get('detail')}"))
        return v
    if main["status"] != "ok":
        return [("C09:raises", f"valid call failed: {main.get('err')} {main.get('detail')}")]
    ref = _reference(case, res)
    n = ref["n"]
    opt = case["sel"]["v"].lower()
    sn_on, nn_on, th_on, sh_on = CONTENT[opt]
    # --- RNG requests: exactly the selected draws, zero mean, documented standard deviations, n samples
    want = ([("thermal", math.sqrt(ref["var_th"]))] if th_on else []) + ([("shot", math.sqrt(ref["var_sh"]))] if sh_on else [])
    rng = main["rng"]
    if len(rng) != len(want):
        v.append(("C09:rng-calls", f"option {opt!r}: {len(rng)} Gaussian draws made, {len(want)} selected"))
    else:
        for (name, sd), q in zip(want, rng):
            if q["loc"] != 0:
                v.append((f"C09:{name}-mean", f"{name} noise drawn with mean {q['loc']}"))
            if _exceeds(abs(q["scale"] - sd), 1e-9 * sd):
                v.append((f"C09:{name}-sigma", f"{name} noise drawn with sigma {q['scale']!r}, documented {sd!r} (A)"))
            if q["size"] != n:
                v.append((f"C09:{name}-size", f"{name} noise drawn with size {q['size']}, input length {n}"))
    if case["kind"] == "stat":
        return v + _oracle_stat(case, res, ref, th_on, sh_on)
    # --- length / type
    if main["cls"] != "electrical_signal" or main["len"] != n or len(main["out_sig"]) != n or main["out_noise"] is None or len(main["out_noise"]) != n:
        v.append(("C09:length", f"output {main['cls']} of length {main['len']} for an input of length {n}"))
        return v
    if not main.get("in_unchanged", True):
        v.append(("C09:input-modified", f"PD modified its input (signal dtype {main.get('sig_dtype')}, noise dtype {main.get('noise_dtype')})"))
    bad = [m for m in res.get("monitor", []) if not m["unchanged"]]
    if bad and main.get("in_unchanged", True):
        v.append(("C09:input-modified", f"PD changed the bytes of input.signal / input.noise in {len(bad)} of {len(res['monitor'])} calls "
                  f"(first: call {bad[0]['call']}; signal dtype {main.get('sig_dtype')}, noise dtype {main.get('noise_dtype')})"))
    if any(m["alias"] for m in res.get("monitor", [])):
        v.append(("C09:alias", "an array of PD's result shares memory with input.signal / input.noise"))
    # --- before the filter (spied): square law and the selected noise terms
    if main["lpf_calls"] != 1 or main["lpf_BW"] != case["BW"] or main["lpf_extra"]:
        v.append(("C09:filter-call", f"output filter called {main['lpf_calls']} times / BW {main.get('lpf_BW')} / extra args {main.get('lpf_extra')}"))
        return v
    if _exceeds(_maxrel(main["pre_sig"], ref["sig"]), 1e-12 * 16):
        v.append(("C09:square-law", f"signal before the filter differs from R_load*r*|E|^2 by {_maxrel(main['pre_sig'], ref['sig']):.3e} relative"))
    terms = np.zeros(n)
    mags = [case["i_dark"]]
    if sn_on:
        terms = terms + ref["sn"]
        mags.append(np.max(np.abs(ref["sn"])))
    if nn_on:
        terms = terms + ref["nn"]
        mags.append(np.max(np.abs(ref["nn"])))
    if len(rng) == len(want):
        for q in rng:
            terms = terms + np.array(q["values"])
            mags.append(np.max(np.abs(q["values"])))
    noise_ref = ref["Rl"] * (terms + case["i_dark"])
    nscale = ref["Rl"] * _mx(mags)        # relative to the largest term of the sum (NaN if a recorded draw is not finite)
    if main["pre_noise"] is None or len(main["pre_noise"]) != n or _exceeds(_mx(np.array(main["pre_noise"]) - noise_ref), 1e-11 * nscale):
        v.append((f"C09:noise-terms:{opt}", f"noise before the filter is not R_load*(selected terms + i_dark) for option {opt!r}"))
    # --- end to end: scipy's own filter on the reference
    fsig, _ = _filter(case, res, ref["sig"])
    if _exceeds(_maxrel(main["out_sig"], fsig), 1e-9):
        v.append(("C09:signal-out", f"output signal differs from LPF(R_load*r*|E|^2) by {_maxrel(main['out_sig'], fsig):.3e} relative"))
    fnoise, _ = _filter(case, res, noise_ref)
    if _exceeds(_mx(np.array(main["out_noise"]) - fnoise), 1e-9 * nscale):
        v.append(("C09:noise-out", "output noise differs from LPF(R_load*(selected terms + i_dark))"))
    # --- CW: constant voltage r*P*R_load (unit DC gain), judged on the whole record
    dctol = _dc_tol(case["BW"], res["fs"])
    if case["field"] == "cw":
        level = ref["r"] * case["amp"] ** 2 * ref["Rl"]
        dev = _mx(np.array(main["out_sig"]) - level) / level
        if _exceeds(dev, dctol):
            v.append(("C09:cw-level", f"CW input of power {case['amp'] ** 2} W, BW/fs = {case['BW'] / res['fs']:.2e}: output deviates from "
                      f"r*P*R_load = {level} V by {dev:.3e} relative (tolerance {dctol:.1e})"))
    # --- no random term, no optical noise: the noise part is the dark-current offset i_dark*R_load at every sample
    if opt == "ase-only" and not case["noise"] and case["i_dark"] > 0:
        dark = ref["Rl"] * case["i_dark"]
        dev = _mx(np.array(main["out_noise"]) - dark) / dark
        if _exceeds(dev, dctol):
            v.append(("C09:dark-level", f"BW/fs = {case['BW'] / res['fs']:.2e}: output noise deviates from the dark-current offset "
                      f"i_dark*R_load = {dark} V by {dev:.3e} relative (tolerance {dctol:.1e})"))
    # --- twins
    tw = res.get("twins", {})
    if tw:
        if not tw["reseed"]["sig_identical"]:
            v.append(("C09:signal-random", "the signal part changed with the random seed"))
        for name in ("phase", "unitary"):
            if name in tw:
                t = tw[name]
                if t["status"] != "ok":
                    v.append((f"C09:{name}-inv", f"{name}-transformed input: {t}"))
                elif _exceeds(t["sig_err"], 1e-9) or _exceeds(t["noise_err"], 1e-9 + 2 * t["rng_scale_err"]) or not t["rng_calls"] \
                        or _exceeds(t["rng_scale_err"], 1e-9):
                    v.append((f"C09:{name}-inv", f"output changed under a {name} transformation of the field: signal {t['sig_err']:.3e}, "
                              f"noise {t['noise_err']:.3e}, sigma {t['rng_scale_err']:.3e} (relative)"))
        if tw["lin"]["status"] != "ok" or _exceeds(tw["lin"]["err"], 1e-9):
            v.append(("C09:linear-r-R", f"signal part not proportional to r*R_load: {tw['lin']}"))
        if "repeat" in tw and not tw["repeat"]["identical"]:
            v.append(("C09:repeat", f"PD called three times on the SAME input object under the same seed does not reproduce the first result: "
                      f"status {tw['repeat']['status']}, relative noise deviations {tw['repeat']['noise_dev']}"))
        if "positional" in tw and not tw["positional"]["identical"]:
            t = tw["positional"]
            v.append(("C09:positional:PD", f"PD(input, BW, r, T, R_load, include_noise, i_dark, Fn) called positionally in the documented order "
                      f"(i_dark={case['i_dark']}, Fn={case['Fn']}) differs from the keyword call under the same seed: {t['status']} {t.get('detail')}, "
                      f"RNG scales {t['scales']} vs {t['main_scales']}"))
        if tw["quad"]["status"] != "ok" or _exceeds(tw["quad"]["err"], 1e-9):
            v.append(("C09:quadratic", f"signal part not proportional to |c|^2: {tw['quad']}"))
    return v


def _oracle_stat(case, res, ref, th_on, sh_on):
    """measured variance after the filter = sigma^2 [V^2] x relative noise-equivalent bandwidth of the zero-phase filter"""
    import scipy.signal as sg
    v = []
    st = res.get("stat")
    if st is None:
        return [("C09:raises", "soak call failed")]
    n = ref["n"]
    sos = sg.bessel(4, case["BW"], btype="low", fs=res["fs"], output="sos", norm="mag")
    _, H = sg.sosfreqz(sos, worN=n, whole=True)
    g2 = np.abs(H) ** 4                       # power response of forward-backward filtering
    neb = float(np.mean(g2))
    var_in = ((ref["var_th"] if th_on else 0.0) + (ref["var_sh"] if sh_on else 0.0)) * ref["Rl"] ** 2
    want = var_in * neb
    # std of the sample variance of a filtered Gaussian sequence: var * sqrt(2/N * mean(g^2)/mean(g)^2)
    sd = want * math.sqrt(2.0 / n * float(np.mean(g2 ** 2)) / neb ** 2)
    if var_in > 0 and _exceeds(abs(st["noise_var"] - want), 6 * sd + 1e-3 * want):
        v.append(("C09:variance-neb", f"measured noise variance {st['noise_var']:.6e} V^2, documented sigma^2 x NEB = {want:.6e} (6 sigma = {6 * sd:.2e})"))
    dark = ref["Rl"] * case["i_dark"]
    msd = math.sqrt(want / n * float(np.mean(g2 ** 2)) / neb ** 2 * 4 + 1e-300)
    if _exceeds(abs(st["noise_mean"] - dark), 6 * math.sqrt(max(want, 0) / n / max(neb, 1e-12)) + 1e-9 * abs(dark)):
        v.append(("C09:noise-mean", f"mean of the output noise {st['noise_mean']:.6e} V, dark-current offset {dark:.6e} V"))
    level = ref["r"] * case["amp"] ** 2 * ref["Rl"]
    if _exceeds(abs(st["sig_min"] - level), 1e-9 * level) or _exceeds(abs(st["sig_max"] - level), 1e-9 * level):
        v.append(("C09:cw-level", f"CW soak: signal in [{st['sig_min']}, {st['sig_max']}], r*P*R_load = {level}"))
    return v


def features(case, res):
    f = ["kind=" + case["kind"], "status=" + str(res.get("status"))]
    m = res.get("main") or {}
    f.append("impl=" + str(m.get("status")) + (":" + str(m.get("err")) if m.get("status") == "err" else ""))
    if case["kind"] == "history":
        f += ["history-len=%d" % len(case["steps"]), "opt=" + case["sel"]["v"].lower(), "BW=%g" % case["BW"]]
    elif case["kind"] in ("run", "stat"):
        if case.get("lowbw"):
            f.append("low-BW/fs=%g" % (case["BW"] / (case["sps"] * case["R"])))
        if case.get("gv"):
            f.append("gv(" + ",".join(sorted(case["gv"])) + ")")
            st = res.get("gv_state") or {}
            f.append("sps*R!=fs" if st and st["sps"] * st["R"] != st["fs"] else "sps*R==fs")
        f.append("dtype=" + case.get("dtype", "complex"))
        f += ["opt=" + case["sel"]["v"].lower(), f"npol={case['npol']}", "optical-noise" if case["noise"] else "no-optical-noise",
              "field=" + case["field"], f"draws={len(m.get('rng', []))}",
              "case=" + ("lower" if case["sel"]["v"].islower() else "upper" if case["sel"]["v"].isupper() else "mixed")]
    else:
        for k in ("r", "T", "R_load", "sel"):
            if case[k]["py"] not in ("float", "str") or k == "sel":
                f.append(f"{k}:{case[k]['py']}")
        if case.get("input", "optical") != "optical":
            f.append("input:" + case["input"])
    return f


def nontrivial_key(case, res):
    m = res.get("main") or {}
    if res.get("status") != "done" or m.get("status") != "ok":
        return None
    if case["kind"] == "history":
        return ("history", repr(case["steps"]), case["BW"], case["sel"]["v"], case["seed"], case["npol"])
    return (case["kind"], case["n"], case["npol"], case["noise"], case["field"], case["sel"]["v"], case["seed"], case["np_seed"],
            case["r"]["v"], case["T"]["v"], case["R_load"]["v"], case["sps"], case["R"])
