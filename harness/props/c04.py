"""C04 — PRBS emits the maximal-length sequence of its ITU polynomial and can be resumed."""
import warnings

import numpy as np

from harness.common.wire import enc_opt_int, exc_enum
from harness.common.watchdog import time_limit, Timeout

ID = "C04"
MANIFEST = {
    "text": "Lean 4 theorems (Props/C04.lean): the loop body, tap table and seed expressions translated from devices.py on every "
            "run are the documented LFSR; linear recurrence with the seed bits as virtual predecessors; minimal period exactly "
            "2^n-1 from every non-zero state for all seven orders (kernel-checked GF(2) matrix certificate + primality of every "
            "Mersenne factor, so all 2^31-1 states of PRBS31 are covered without enumeration); orbit = all non-zero states; "
            "2^(n-1) ones and 2^(n-1)-1 zeros per period, only bits emitted; resume law for any split; seed normalisation and validation tables.  Tie: translator + "
            "exact differential run of the compiled model against PRBS() incl. resumed calls and full cycles.",
    "note": "Trusted: Lean kernel, translator tools/extractors/prbs.py (taps dict, 3 loop-body expressions, seed expressions), harness; "
            "Python int bit ops = Lean Nat bit ops; the `len` non-int TypeError branch is oracle-only. "
            "Axioms: propext, Classical.choice, Quot.sound.",
    "technique": "Lean 4 proof (kernel-evaluated GF(2) certificate + induction) over a model regenerated from source; differential correspondence run",
    "design": "§5 C04",
}
GEN = ["Prbs"]
MODELS = ["OptiVerif.Model.Prbs", "OptiVerif.Gen.Prbs"]
RULE = ("cases = (order, len, seed, split of len into resumed calls) over all 7 orders, boundary seeds "
        "{None,0,1,2^n,-1,-2^n,2^n-1,64-bit random}, lengths {1..3n, 2^n-1 for small n, random}; "
        "non-trivial = accepted request with len>=2, distinct by (order, seed mod 2^n, len, split)")
PARTIAL = []
ASSUMPTIONS = [
    "numpy uint8 store of `lfsr & 1` is exact; Python int bit operations = Lean Nat bit operations",
    "the driver evaluates the same Lean definitions the theorems are about (compiled by Lean's code generator)",
]
THOROUGH_ROUNDS = 4      # the thorough tier draws the whole generator this many times
BUDGET = {"quick": 120, "thorough": 900}
EXHAUSTIVE = {"quick": False, "thorough": False}

DOC_TAPS = {7: 6, 9: 5, 11: 9, 15: 14, 20: 3, 23: 18, 31: 28}
ORDERS = list(DOC_TAPS)


def reference(order, length, seed):
    """independent GF(2) reference: a[m] = a[m-n] xor a[m-t], virtual predecessors = seed bits.
    returns (bits, final_state, warned)"""
    n, t = order, DOC_TAPS[order]
    s = (seed % (1 << n)) if seed is not None else (1 << n) - 1
    warned = False
    if s == 0:
        s, warned = 1, True
    hist = [(s >> j) & 1 for j in range(n - 1, -1, -1)]   # a[-(n-1)] ... a[0]
    # hist[-1] = a[0]
    a = hist[:]  # index k in list = m + (n-1)
    for m in range(1, length + 1):
        k = m + n - 1
        a.append(a[k - n] ^ a[k - t])
    bits = a[n - 1:n - 1 + length]
    # state after `length` steps: bit j = a[length - j]
    st = 0
    for j in range(n):
        st |= a[length - j + n - 1] << j
    return bits, st, warned


_RAW_STATE = {}      # id of the last raw state object returned by PRBS (resumption hands it back unconverted)


def _call(order, length, seed):
    from opticomlib.devices import PRBS
    with warnings.catch_warnings(record=True) as w:
        warnings.simplefilter("always")
        out, st = PRBS(order, length, seed, return_seed=True)
    warned = any(issubclass(x.category, UserWarning) and "seed" in str(x.message).lower() for x in w)
    data = np.asarray(out.data)
    # the container's own contract (1-D uint8 of the requested length) is part of what "emits the sequence" means: a
    # (1,1)-shaped one-bit result cannot be concatenated with the next chunk
    shape_tag = "" if data.ndim == 1 else f"|shape={list(data.shape)}"
    _RAW_STATE["last"] = st
    _RAW_STATE["out"] = out
    return [int(b) for b in data.ravel()], int(st), warned, type(out).__name__, str(data.dtype) + shape_tag


def gen_cases(rng, tier):
    cases = []
    reps = 6 if tier == "quick" else 120
    for order in ORDERS:
        n = order
        seeds = [None, 0, 1, 2, 1 << n, -1, -(1 << n), (1 << n) - 1, (1 << n) + 5, 3 << n,
                 rng.getrandbits(64), -rng.getrandbits(64), rng.randrange(1, 1 << n)]
        lens = [1, 2, n - 1, n, n + 1, 2 * n, 3 * n, rng.randrange(1, 400), rng.randrange(400, 3000)]
        for _ in range(reps):
            seeds.append(rng.randrange(1, 1 << n))
            lens.append(rng.randrange(1, 1200))
        for i, seed in enumerate(seeds):
            for length in (lens if i < 4 else [lens[rng.randrange(len(lens))] for _ in range(3)]):
                k = rng.randrange(1, 5)
                cuts = sorted(rng.randrange(1, length) for _ in range(k - 1)) if length > 1 else []
                cuts = [c for j, c in enumerate(cuts) if j == 0 or c != cuts[j - 1]]
                parts = [b - a for a, b in zip([0] + cuts, cuts + [length])]
                cases.append({"kind": "gen", "order": order, "len": length, "seed": seed, "split": parts})
    # full cycles on the real code
    cyc = [7, 9] if tier == "quick" else [7, 9, 11, 15]
    for order in cyc:
        for seed in [None, 1, rng.randrange(1, 1 << order)]:
            cases.append({"kind": "cycle", "order": order, "seed": seed, "len": 2 * ((1 << order) - 1) + order,
                          "split": [2 * ((1 << order) - 1) + order]})
    if tier == "thorough":
        cases.append({"kind": "gen", "order": 20, "len": (1 << 20) - 1 + 40, "seed": 12345, "split": [(1 << 20) - 1 + 40]})
    # default len (= 2^n - 1) for the small orders
    for order in [7, 9, 11]:
        cases.append({"kind": "gen", "order": order, "len": None, "seed": rng.randrange(0, 1 << order), "split": None})
    # rejected requests
    for order in [0, 1, 6, 8, 10, 16, 30, 32, 63]:
        cases.append({"kind": "gen", "order": order, "len": rng.randrange(1, 50), "seed": rng.randrange(0, 100), "split": None})
    for order in ORDERS + [8]:
        for length in [0, -1, -rng.randrange(2, 1000)]:
            cases.append({"kind": "gen", "order": order, "len": length, "seed": None, "split": None})
    for bad in ["10", 10.0, [10], 2.5]:
        cases.append({"kind": "badlen", "order": 7, "len": bad, "seed": None, "split": None})
    rng.shuffle(cases)
    return cases


def run_impl(case):
    res = {}
    try:
        with time_limit(120):
            bits, st, warned, cls, dt = _call(case["order"], case["len"], case["seed"])
        res.update(status="ok", bits="".join(map(str, bits)), state=st, warned=warned, cls=cls, dtype=dt)
        # the same request issued again in the same process must behave identically (bits, state AND the warning)
        if case["len"] is not None and case["len"] <= 5000:
            with time_limit(120):
                bits2, st2, warned2, _, _ = _call(case["order"], case["len"], case["seed"])
            res["repeat_same"] = (bits2 == bits and st2 == st)
            res["repeat_warned"] = warned2
        if case.get("split"):
            seed = case["seed"]
            acc, s = [], seed
            held = []              # the returned sequence objects themselves, read only after ALL calls were made
            first = True
            for part in case["split"]:
                with time_limit(120):
                    b, s_int, w, _, _ = _call(case["order"], part, s)
                held.append(_RAW_STATE["out"])
                # resume with the state object exactly as PRBS returned it (a numpy integer), every other time as a Python int
                s = _RAW_STATE["last"] if (len(acc) + part) % 2 == 0 else s_int
                if not first and w:
                    res["resume_warned"] = True
                first = False
                acc += b
            res["split_bits"] = "".join(map(str, acc))
            res["split_state"] = int(s)
            res["split_bits_held"] = "".join(str(int(v)) for o in held for v in np.asarray(o.data).ravel())
    except Timeout as e:
        res.update(status="timeout", detail=str(e))
    except Exception as e:  # noqa
        res.update(status="err", err=exc_enum(e), detail=repr(e)[:200])
    return res


def model_requests(case, res):
    if case["kind"] == "badlen":
        return []
    if case["len"] is None and case["order"] > 15:
        return []
    return [f"prbs.gen {case['order']} {enc_opt_int(case['len'])} {enc_opt_int(case['seed'])}"]


def compare(case, res, reqs, replies):
    if not reqs:
        return []
    rep = replies[0]
    if res["status"] == "ok":
        want = f"ok {1 if res['warned'] else 0} {res['state']} {res['bits']}"
    elif res["status"] == "err":
        want = f"err {res['err']}"
    else:
        want = res["status"]
    return [] if rep == want else [f"model says {rep[:120]!r}, implementation {want[:120]!r}"]


def oracle(case, res):
    v = []
    order, length, seed = case["order"], case["len"], case["seed"]
    if res["status"] == "timeout":
        return [("C04:timeout", f"PRBS({order},{length},{seed}) did not return")]
    if case["kind"] == "badlen":
        if not (res["status"] == "err" and res["err"] == "TypeError"):
            v.append(("C04:len-type", f"len={length!r} must raise TypeError, got {res}"))
        return v
    valid_order = order in DOC_TAPS
    valid_len = length is None or length > 0
    if not valid_len or not valid_order:
        if not (res["status"] == "err" and res["err"] == "ValueError"):
            v.append(("C04:reject", f"PRBS({order},{length},{seed}) must raise ValueError, got {str(res)[:120]}"))
        return v
    if res["status"] != "ok":
        return [("C04:accept", f"valid request PRBS({order},{length},{seed}) failed: {res}")]
    n = order
    L = length if length is not None else (1 << n) - 1
    bits, st, warned = reference(order, L, seed)
    rb = "".join(map(str, bits))
    if res["cls"] != "binary_sequence" or res["dtype"] != "uint8":
        v.append(("C04:type", f"result type {res['cls']}/{res['dtype']}"))
    if res["bits"] != rb:
        k = next(i for i, (a, b) in enumerate(zip(res["bits"] + "x", rb + "y")) if a != b)
        v.append(("C04:recurrence", f"PRBS({order},{L},{seed}) differs from a[m]=a[m-{n}]^a[m-{DOC_TAPS[n]}] at bit {k}"))
    if res["state"] != st:
        v.append(("C04:state", f"returned state {res['state']} != {st}"))
    if res["warned"] != warned:
        v.append(("C04:warn", f"seed {seed}: warning issued={res['warned']}, required={warned}"))
    if "repeat_same" in res:
        if not res["repeat_same"]:
            v.append(("C04:repeat", f"PRBS({order},{L},{seed}) called twice in a row gave different bits/state"))
        if res["repeat_warned"] != warned:
            v.append(("C04:repeat-warn", f"seed {seed}: second identical call warned={res['repeat_warned']}, required={warned}"))
    if "split_bits" in res:
        if res["split_bits"] != res["bits"] or res["split_state"] != res["state"]:
            v.append(("C04:resume", f"PRBS({order},{L},{seed}) in calls {case['split']} differs from one call"))
        if res.get("split_bits_held") is not None and res["split_bits_held"] != res["split_bits"]:
            v.append(("C04:resume-chunks-overwritten", f"PRBS({order},{L},{seed}) in calls {case['split']}: the chunks returned by earlier calls, "
                                                       "read after the later calls, no longer hold the bits they held when returned"))
        if res.get("resume_warned"):
            v.append(("C04:resume-warn", "a returned state was rejected as seed"))
    if case["kind"] == "cycle":
        N = (1 << n) - 1
        b = res["bits"]
        per = next((p for p in range(1, N + 1) if b[p:p + N + n] == b[:N + n]), None)
        if per != N:
            v.append(("C04:period", f"order {n} seed {seed}: period {per}, required {N}"))
        ones = b[:N].count("1")
        if ones != 1 << (n - 1):
            v.append(("C04:balance", f"order {n}: {ones} ones per period, required {1 << (n-1)}"))
        zeros = b[:N].count("0")
        if zeros != (1 << (n - 1)) - 1 or ones + zeros != N:
            v.append(("C04:balance-zeros", f"order {n}: {zeros} zeros and {ones} ones in a period of {N} (theorem zeros_per_period: "
                                           f"{(1 << (n-1)) - 1} zeros, nothing but bits)"))
    return v


def features(case, res):
    f = [f"order={case['order']}" if case["order"] in DOC_TAPS else "order=unsupported", "status=" + res["status"]]
    if res["status"] == "err":
        f.append("err=" + res["err"])
    if res.get("warned"):
        f.append("seed-replaced")
    if case["seed"] is None:
        f.append("seed=None")
    elif case["seed"] < 0:
        f.append("seed<0")
    elif case["order"] < 64 and case["seed"] >= (1 << case["order"]):
        f.append("seed>=2^n")
    if case.get("split"):
        f.append(f"split={len(case['split'])}")
    f.append("kind=" + case["kind"])
    return f


def nontrivial_key(case, res):
    if res["status"] != "ok" or len(res["bits"]) < 2:
        return None
    n = case["order"]
    s = None if case["seed"] is None else case["seed"] % (1 << n)
    return (n, s, case["len"], tuple(case.get("split") or ()))
