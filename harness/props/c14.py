"""C14 — the global grid stays consistent over any call history; devices are pure, seedable, non-aliasing."""
import json
import math
import os
import warnings
from fractions import Fraction

from harness.common.wire import exc_enum
from harness.common.watchdog import time_limit, Timeout

ID = "C14"
MANIFEST = {
    "text": "Lean 4 theorems (Props/C14.lean) over an exact Rat model of global_variables.__call__/clean (branch by branch: "
            "truthiness of None/0, int(np.round()) half-to-even, slot count in force recomputes t/dw/w, pi symbolic): invariant Inv "
            "(fs = R*sps with integer sps, dt = 1/fs, f0 = c/wavelength, N in effect => t and w have N*sps points computed from "
            "the current fs and dt, dw = 2*pi*fs/(N*sps)) holds initially, after clean(), after every successful call with "
            "commensurate rates, hence after ANY op list (induction); custom attributes persist over any history of calls and "
            "are all removed by clean() (callable values and '__' names included); clean() restores every default after any "
            "history.  A static table of every write to gv inside "
            "devices/ppm/ook/utils is regenerated from the source on every run and proved empty.  Tie: translator (defaults, "
            "clean filter, writer scan) + differential run of random histories against the real singleton.  Purity / "
            "seed-reproducibility / no-aliasing / operands-unchanged are runtime monitors on 60 public functions (partial).",
    "note": "Trusted: Lean kernel, translators tools/extractors/gv.py and gvwriters.py (Python ast), harness and its monitors; "
            "scipy.constants.c = 299792458 and pi = math.pi (checked at run time).  The model stops at the first exception "
            "(the real object is then half-updated).  Keywords named like a grid attribute (dt, f0, t, dw, w) are outside the "
            "model.  gv.t follows the library's linspace(0, N*sps*dt, "
            "N*sps, endpoint=True) convention.  Axioms: propext, Classical.choice, Quot.sound.",
    "technique": "Lean 4 proof (invariant + induction over histories) on a model whose defaults are regenerated from source; "
                 "translator-produced static table proved empty; exact/1e-12 differential run; runtime monitors (partial)",
    "design": "§5 C14",
}
GEN = ["Gv", "GvWriters"]
RULE = ("histories of 1..12 (quick) / 1..40 (thorough) ops over gv(sps?,R?,fs?,wavelength?,N?,**custom) and gv.clean(), every subset "
        "of the parameters, integer-valued rates (commensurate) plus non-commensurate and half-way fs/R, zero/None arguments, later "
        "calls omitting N, custom keywords set / overwritten; monitor cases = (public function, gv configuration, seed) and "
        "call orders on shared inputs; non-trivial = history with >= 2 successful calls changing the grid, distinct by its op list")
PARTIAL = [
    "no device/codec/DSP function modifies gv at run time: monitor (gv.__dict__ snapshot before/after every call) — the static "
    "part (no syntactic write in devices/ppm/ook/utils) IS a theorem (no_writers)",
    "operands' sample data unchanged: monitor (write-protected argument arrays compared bytewise before/after)",
    "seeded re-run reproduces the output bit-for-bit; deterministic blocks give identical results whatever was called before: "
    "monitor (np.random.seed(s) + re-run, call-order permutations on shared inputs)",
    "outputs never alias input buffers: monitor (np.shares_memory between every result array and every argument / gv array)",
    "float rounding of dt, t, dw, w, f0: compared at 1e-12 relative against the exact model",
]
ASSUMPTIONS = [
    "scipy.constants.c == 299792458.0 and scipy.constants.pi == math.pi (asserted by the harness)",
    "np.round is round-half-to-even, np.linspace(0, stop, n)[k] = k*stop/(n-1), fftshift(fftfreq(n))[k] = (k - n//2)/n",
    "a gv(...) call that raises leaves the object half-updated: histories stop at the first exception (model and harness)",
    "custom keywords are names other than sps, R, fs, wavelength, N, dt, f0, t, dw, w",
    "the driver evaluates the same Lean definitions the theorems are about (compiled by Lean's code generator)",
]
BUDGET = {"quick": 120, "thorough": 900}
EXHAUSTIVE = {"quick": False, "thorough": False}

C_LIGHT = 299792458
WL_DEFAULT = 1550e-9
RESERVED = ["sps", "R", "fs", "wavelength", "N", "dt", "f0", "t", "dw", "w", "self"]
STANDARD = ["sps", "R", "fs", "dt", "wavelength", "f0", "N", "t", "dw", "w"]


# =====================================================================================================================
# part A: histories of gv(...) / gv.clean()
# =====================================================================================================================

R_POOL = [1e9, 2.5e9, 10e9, 1.25e9, 5e8, 622080000.0, 40e9, 1000000000, 3e9]
SPS_POOL = [1, 2, 3, 4, 5, 7, 8, 9, 16, 17, 32, 64]
WL_POOL = [1550e-9, 1310e-9, 1.5e-6, 850e-9, 1e-6]
N_POOL = [1, 2, 3, 5, 8, 10, 16]
NAMES = ["alpha", "beta", "G", "NF", "BW", "Vpi", "x1", "_hidden", "__x", "pulse"]
# names that are SUBSTRINGS of the built-in attribute names (a containment test on a joined string would mistake them for
# built-ins), and near-misses of the built-in names
SUBSTR_NAMES = ["a", "d", "e", "f", "g", "h", "l", "n", "p", "s", "v", "len", "wave", "length", "ps", "av", "sp", "th", "eng",
                "avelengt", "t w", "R f"]
NEAR_NAMES = ["spsx", "Rs", "wavelength2", "f00", "NN", "tw", "ww", "dtt", "sp5", "r", "T", "W", "Dw", "fS"]


def _custom_value(rng):
    r = rng.random()
    if r < 0.35:
        return rng.randrange(-50, 50)
    if r < 0.7:
        return rng.randrange(-400, 400) / 8.0
    if r < 0.82:
        return rng.choice(["x", "abc", "rz"])
    if r < 0.9:
        return "<callable>"
    return None


def _gen_call(rng, cur, commensurate=True):
    """one gv(...) op; `cur` = (sps, R) expected to be in force (only to pick commensurate values)"""
    sps0, R0 = cur
    op = {"op": "call"}
    form = rng.choice(["sps", "sps,R", "sps,fs", "R", "R,fs", "fs", "none", "sps,R,fs", "N", "kw", "wl"])
    sps = rng.choice(SPS_POOL)
    R = rng.choice(R_POOL)
    if "sps" in form.split(","):
        op["sps"] = sps if rng.random() < 0.8 else float(sps)
        sps0 = sps
    if "R" in form.split(","):
        op["R"] = R
        R0 = R
    if "fs" in form.split(","):
        if form == "sps,R,fs":
            op["fs"] = rng.choice([R0 * sps0, 7e9])            # ignored by the code when sps and R are given
        elif form == "sps,fs":
            k = rng.randrange(1, 40)
            op["fs"] = float(sps0 * k * 25000000)               # multiple of sps: R = fs/sps exact
            R0 = op["fs"] / sps0
        else:
            k = rng.choice(SPS_POOL)
            if commensurate:
                op["fs"] = float(Fraction(R0) * k)
                sps0 = k
            else:
                mode = rng.random()
                num = Fraction(R0) * (2 * k + 1) / 2 if mode < 0.5 else Fraction(R0) * (4 * k + rng.choice([1, 3])) / 4
                op["fs"] = float(num)
    if rng.random() < (0.9 if form == "N" else 0.3):
        op["N"] = rng.choice(N_POOL)
    if rng.random() < (0.9 if form == "wl" else 0.15):
        op["wl"] = rng.choice(WL_POOL)
    if rng.random() < (0.9 if form == "kw" else 0.25):
        op["kw"] = {rng.choice(NAMES if rng.random() < 0.6 else SUBSTR_NAMES if rng.random() < 0.6 else NEAR_NAMES):
                    _custom_value(rng) for _ in range(rng.randrange(1, 4))}
    # falsy arguments: 0 / 0.0 / None behave like "not given"
    if rng.random() < 0.08:
        op[rng.choice(["sps", "R", "fs"])] = rng.choice([0, 0.0, None])
    # keep every stored value exactly representable: with sps and fs (and no R) the code stores R = fs/sps
    if _truthy(op.get("sps")) and not _truthy(op.get("R")) and _truthy(op.get("fs")):
        k = int(round(op["sps"]))
        if k >= 1 and Fraction(op["fs"]) % k != 0:
            op["fs"] = float(k * 25000000 * rng.randrange(1, 40))
    return op, (sps0, R0)


def gen_histories(rng, tier):
    cases = []
    n_hist = 700 if tier == "quick" else 6000
    maxlen = 12 if tier == "quick" else 40
    for i in range(n_hist):
        commensurate = i % 5 != 0
        length = rng.choice([1, 2, 3, rng.randrange(1, maxlen + 1), rng.randrange(1, maxlen + 1)])
        ops, cur = [], (16, 1e9)
        for _ in range(length):
            if rng.random() < 0.15:
                # most of the time clean() meets a non-default wavelength (and a slot count / custom attributes)
                if rng.random() < 0.7:
                    prev_op = ops[-1] if ops and ops[-1]["op"] == "call" else None
                    if prev_op is not None and rng.random() < 0.5:
                        prev_op["wl"] = rng.choice(WL_POOL[1:])
                    else:
                        ops.append({"op": "call", "wl": rng.choice(WL_POOL[1:]), **({"N": rng.choice(N_POOL)} if rng.random() < 0.5 else {})})
                ops.append({"op": "clean"})
                cur = (16, 1e9)
            else:
                op, cur = _gen_call(rng, cur, commensurate)
                if rng.random() < 0.4:
                    op["pos"] = True
                # the code's own rule for which of the values are in force
                if not op.get("sps") and not op.get("R") and op.get("fs") and not commensurate:
                    cur = (cur[0], cur[1])
                ops.append(op)
        cases.append({"kind": "hist", "ops": ops})
    # directed histories
    D = [
        [{"op": "call", "sps": 8, "R": 1e9, "N": 10}, {"op": "call", "sps": 16, "R": 1e9}],              # DESIGN §5: stale grid
        [{"op": "call", "sps": 8, "R": 1e9, "N": 10}, {"op": "call", "fs": 32e9}, {"op": "call", "R": 2e9}],
        [{"op": "call", "N": 4}, {"op": "call", "kw": {"alpha": 1}}, {"op": "call"}],
        [{"op": "call", "sps": 8.5, "R": 1e9}], [{"op": "call", "sps": 9.5, "R": 1e9}], [{"op": "call", "sps": 2.5, "fs": 1e10}],
        [{"op": "call", "R": 1e9, "fs": 8.5e9}], [{"op": "call", "R": 1e9, "fs": 9.5e9}], [{"op": "call", "fs": 7.5e9}],
        [{"op": "call", "fs": 24.4e9}],
        [{"op": "call", "sps": 0, "R": 2e9, "fs": 8e9}], [{"op": "call", "sps": 0.0, "R": 0, "fs": 4e9}],
        [{"op": "call", "sps": None, "R": None, "fs": None}],
        [{"op": "call", "kw": {"alpha": 1, "beta": "x"}}, {"op": "call", "kw": {"alpha": 2.5}}, {"op": "call", "sps": 4, "R": 1e9},
         {"op": "clean"}, {"op": "call"}],
        [{"op": "call", "wl": 1310e-9}, {"op": "call"}],                                                 # wavelength falls back
        [{"op": "call", "sps": 8, "R": 10e9, "wl": 1310e-9, "N": 10}, {"op": "clean"}],                  # f0 must follow the reset
        [{"op": "call", "wl": 850e-9}, {"op": "clean"}, {"op": "call", "kw": {"alpha": 1}}],
        [{"op": "call", "wl": 1310e-9}, {"op": "clean"}, {"op": "clean"}],
        [{"op": "call", "sps": 4, "R": 1e9, "N": 1}], [{"op": "call", "sps": 1, "R": 1e9, "N": 1}],
        [{"op": "call", "sps": 3, "R": 1e9, "N": 3}, {"op": "clean"}, {"op": "call", "fs": 4e9}],
        # exceptions
        [{"op": "call", "sps": 0.3, "R": 1e9}], [{"op": "call", "N": 0}], [{"op": "call", "N": -2}], [{"op": "call", "wl": 0}],
        [{"op": "call", "sps": -4, "N": 2}], [{"op": "call", "sps": 0.4, "fs": 1e9}], [{"op": "call", "sps": -4, "R": 1e9, "N": -2}],
    ]
    for ops in D:
        cases.append({"kind": "hist", "ops": ops})
    for ops in D[:22]:            # the same directed histories with every call passed positionally
        cases.append({"kind": "hist", "ops": [dict(op, pos=True) if op["op"] == "call" else op for op in ops]})
    # names that a substring / prefix test would confuse with the built-in attributes
    for nm in SUBSTR_NAMES + NEAR_NAMES:
        cases.append({"kind": "hist", "ops": [{"op": "call", "kw": {nm: 3, "alpha": 1}}, {"op": "clean"}, {"op": "call", "sps": 8, "R": 1e9}]})
    # callable values and '__' names are custom attributes like any other (clean() used to keep them: fixed in /repo)
    cases.append({"kind": "hist", "ops": [{"op": "call", "kw": {"shape": "<callable>"}}, {"op": "clean"}]})
    cases.append({"kind": "hist", "ops": [{"op": "call", "kw": {"__x": 5}}, {"op": "clean"}]})
    cases.append({"kind": "hist", "ops": [{"op": "call", "sps": 8, "R": 1e9, "N": 2, "kw": {"shape": "<callable>", "__x": 5, "alpha": 1}},
                                          {"op": "call", "kw": {"__x": "<callable>"}}, {"op": "clean"}, {"op": "call", "kw": {"beta": 2}}]})
    return cases


def _snap(gv):
    import numpy as np
    d = vars(gv)
    out = {}
    for k in ("sps", "R", "fs", "dt", "wavelength", "f0", "N", "dw"):
        v = d.get(k)
        out[k] = v if v is None or isinstance(v, (int, float)) else float(v)
        out[k + "_type"] = type(v).__name__
    for k in ("t", "w"):
        v = d.get(k)
        if v is None:
            out[k] = None
        elif isinstance(v, np.ndarray) and v.ndim == 1:
            n = v.size
            idx = sorted({i for i in (0, 1, 2, n // 2 - 1, n // 2, n // 2 + 1, n - 2, n - 1) if 0 <= i < n})
            out[k] = {"len": n, "idx": idx, "val": [float(v[i]) for i in idx], "dtype": str(v.dtype)}
            if k == "t" and n >= 2:
                dd = np.diff(v)
                out[k]["uniform"] = bool(np.allclose(dd, v[-1] / (n - 1), rtol=1e-9, atol=0))
        else:
            out[k] = {"bad": type(v).__name__}
    out["custom"] = {k: (v if isinstance(v, (int, float, str, type(None))) else "<callable>" if callable(v) else repr(v))
                     for k, v in d.items() if k not in STANDARD}
    return out


def _kw_value(v):
    if v == "<callable>":
        return lambda: 0
    return v


# documented positional order of gv(...) at /repo HEAD 8caea4c (a literal, NOT read from the code under test)
GV_ORDER = ["sps", "R", "fs", "wavelength", "N"]


def _do_op(gv, op, flip=False):
    """`op["pos"]` (xor `flip`): pass sps, R, fs, wavelength, N POSITIONALLY in the documented order (absent ones as their
    documented defaults None / 1550e-9), custom attributes by keyword; otherwise everything by keyword"""
    if op["op"] == "clean":
        gv.clean()
        return
    kw = {}
    for k in ("sps", "R", "fs", "N"):
        if k in op:
            kw[k] = op[k]
    if "wl" in op:
        kw["wavelength"] = op["wl"]
    args = []
    if bool(op.get("pos")) != flip:
        full = {"sps": None, "R": None, "fs": None, "wavelength": WL_DEFAULT, "N": None}
        full.update(kw)
        args = [full[name] for name in GV_ORDER]
        kw = {}
    for k, v in (op.get("kw") or {}).items():
        kw[k] = _kw_value(v)
    ret = gv(*args, **kw)
    if ret is not gv:
        raise AssertionError("gv(...) must return the instance itself")


def _hard_reset(gv):
    """restore the singleton for whoever runs next: clean(), then remove whatever clean() left behind.
    Never raises; returns the exception text if clean() itself failed (the defaults are then written directly)."""
    err = None
    try:
        gv.clean()
    except Exception as e:  # noqa
        err = repr(e)[:200]
        d = vars(gv)
        d.update(sps=16, R=1e9, fs=16e9, dt=1 / 16e9, wavelength=WL_DEFAULT, f0=C_LIGHT / WL_DEFAULT, N=None, t=None, dw=None, w=None)
    for k in list(vars(gv)):
        if k not in STANDARD:
            delattr(gv, k)
    return err


def run_hist(case):
    import numpy as np
    import scipy.constants as sc
    from opticomlib.typing import gv
    res = {"status": "ok", "states": [], "consts_ok": sc.c == 299792458.0 and sc.pi == math.pi}
    try:
        gv.clean()
        # start every history from a clean() applied to a deliberately dirty object (makes the case self-contained)
        with warnings.catch_warnings():
            warnings.simplefilter("ignore")
            gv(sps=4, R=2e9, N=3, wavelength=1310e-9, zz_probe=1, _hidden=1, alpha="a", __y=1, pulse=len, length=1, s=2, f=3)
        gv.clean()
        res["start"] = _snap(gv)
        for i, op in enumerate(case["ops"]):
            try:
                with warnings.catch_warnings():
                    warnings.simplefilter("ignore")
                    with time_limit(20):
                        _do_op(gv, op)
            except Timeout as e:
                res.update(status="timeout", detail=str(e), at=i)
                break
            except Exception as e:  # noqa
                res["states"].append({"err": exc_enum(e), "detail": repr(e)[:160]})
                res["stopped_at"] = i
                break
            res["states"].append(_snap(gv))
        if res["status"] == "ok" and "stopped_at" not in res:
            fin = vars(gv)
            if isinstance(fin.get("t"), np.ndarray) and fin["t"].size <= 1024:
                res["t_full"] = [float(x) for x in fin["t"]]
                res["w_full"] = [float(x) for x in fin["w"]]
        # positional twin: the same history with every call's passing style flipped must give the same states
        if res["status"] == "ok" and any(op["op"] == "call" for op in case["ops"]):
            _hard_reset(gv)
            for i, op in enumerate(case["ops"]):
                try:
                    with warnings.catch_warnings():
                        warnings.simplefilter("ignore")
                        with time_limit(20):
                            _do_op(gv, op, flip=True)
                    st = _snap(gv)
                except Timeout as e:
                    st = {"timeout": str(e)}
                except Exception as e:  # noqa
                    st = {"err": exc_enum(e), "detail": repr(e)[:160]}
                ref = res["states"][i] if i < len(res["states"]) else None
                same = ref is not None and (("err" in st and "err" in ref and st["err"] == ref["err"]) or json.dumps(st, sort_keys=True)
                                            == json.dumps(ref, sort_keys=True))
                if not same:
                    style = "keyword" if op.get("pos") else "positional"
                    res["positional"] = (f"op {i} {op} passed by {style} gives {str({k: v for k, v in st.items() if k in ('sps', 'R', 'fs', 'wavelength', 'f0', 'N', 'err')})}, "
                                         f"the other style gave {str({k: v for k, v in (ref or {}).items() if k in ('sps', 'R', 'fs', 'wavelength', 'f0', 'N', 'err')})}")
                    break
                if "err" in st:
                    break
    except Exception as e:  # noqa   (gv.clean() of the set-up raised)
        res.update(status="err", err=exc_enum(e), detail=repr(e)[:300])
    finally:
        e2 = _hard_reset(gv)
        if e2:
            res["reset_error"] = e2
    return res


# ---- model side ---------------------------------------------------------------------------------------------------------

def _num_tok(x):
    if x is None:
        return "none"
    q = Fraction(x)
    return f"{q.numerator}/{q.denominator}"


def _val_tok(v):
    if v is None:
        return "None"
    if v == "<callable>":
        return "callable"
    if isinstance(v, str):
        return "s:" + v
    q = Fraction(v)
    return f"n:{q.numerator}/{q.denominator}"


def _op_toks(op):
    if op["op"] == "clean":
        return "clean"
    kw = op.get("kw") or {}
    n = op.get("N")
    return " ".join(["call", _num_tok(op.get("sps")), _num_tok(op.get("R")), _num_tok(op.get("fs")), _num_tok(op.get("wl")),
                     "none" if n is None else str(int(n)), str(len(kw))] + [f"{k} {_val_tok(v)}" for k, v in kw.items()])


def _hist_requests(case):
    for op in case["ops"]:
        if op["op"] == "call":
            if any(k in RESERVED or not k.isidentifier() for k in (op.get("kw") or {})):
                return []          # reserved names / names with blanks: oracle only (outside the model's wire format)
            if op.get("N") is not None and not isinstance(op["N"], int):
                return []
    ops = " ".join(_op_toks(op) for op in case["ops"])
    n = len(case["ops"])
    return [f"gv.hist {n} {ops}", f"gv.full {n} {ops}"]


def _q(tok):
    if tok == "none":
        return None
    if "/" in tok:
        a, b = tok.split("/")
        return Fraction(int(a), int(b))
    return Fraction(int(tok))


def _fin(x):
    return isinstance(x, (int, float)) and math.isfinite(x)


def _close(x, q, rel=1e-12):
    """float x against exact rational q (a NaN / inf is never close)"""
    if x is None or q is None:
        return x is None and q is None
    if not _fin(x):
        return False
    return abs(Fraction(x) - q) <= Fraction(rel) * abs(q) + Fraction(1, 10 ** 300)


def _cmp_probe(name, toks, obs, scale_pi, out):
    """toks: 'none' | len v...; obs: None | {len, idx, val}"""
    if toks[0] == "none":
        if obs is not None:
            out.append(f"{name}: model None, implementation {str(obs)[:60]}")
        return
    if obs is None or "len" not in obs:
        out.append(f"{name}: model has {toks[0]} points, implementation {obs}")
        return
    n = int(toks[0])
    if n != obs["len"]:
        out.append(f"{name}: model {n} points, implementation {obs['len']}")
        return
    vals = [_q(t) for t in toks[1:]]
    if len(vals) != len(obs["idx"]):
        out.append(f"{name}: probe count {len(vals)} vs {len(obs['idx'])}")
        return
    mx = max([abs(v) for v in vals] + [Fraction(0)])
    for i, q, x in zip(obs["idx"], vals, obs["val"]):
        ref = q * Fraction(math.pi) if scale_pi else q
        tol = Fraction(1e-12) * (mx * (Fraction(math.pi) if scale_pi else 1)) + Fraction(1, 10 ** 300)
        if not (_fin(x) and abs(Fraction(x) - ref) <= tol):      # `not <=`: a NaN is reported
            out.append(f"{name}[{i}]: model {float(ref)!r}, implementation {x!r}")
            return


def _cmp_state(i, rep, st, out):
    if rep.startswith("err "):
        if "err" not in st or rep != "err " + st["err"]:
            out.append(f"op {i}: model {rep!r}, implementation {('err ' + st['err']) if 'err' in st else 'ok'}")
        return
    if "err" in st:
        out.append(f"op {i}: model ok, implementation err {st['err']} ({st.get('detail')})")
        return
    parts = [p.split() for p in rep[3:].split("|")]
    head, tt, ww, cc = parts
    sps, R, fs, dt, wl, f0, N, dw = head
    if st["sps_type"] != "int" or int(sps) != st["sps"]:
        out.append(f"op {i}: sps model {sps}, implementation {st['sps']!r} ({st['sps_type']})")
    for name, tok, exact in (("R", R, True), ("fs", fs, True), ("dt", dt, False), ("wavelength", wl, False), ("f0", f0, False)):
        q = _q(tok)
        x = st[name]
        ok = (_fin(x) and (Fraction(x) == q or float(q) == x or _close(x, q, 1e-13))) if exact else _close(x, q)
        if not ok:
            out.append(f"op {i}: {name} model {float(q)!r}, implementation {x!r}")
    if (N == "none") != (st["N"] is None) or (N != "none" and int(N) != st["N"]):
        out.append(f"op {i}: N model {N}, implementation {st['N']!r}")
    qd = _q(dw)
    if (qd is None) != (st["dw"] is None) or (qd is not None and not _close(st["dw"], qd * Fraction(math.pi))):
        out.append(f"op {i}: dw model {None if qd is None else float(qd) * math.pi!r}, implementation {st['dw']!r}")
    _cmp_probe(f"op {i}: t", tt, st["t"], False, out)
    _cmp_probe(f"op {i}: w", ww, st["w"], True, out)
    want = {}
    k = 1
    while k < len(cc):
        want[cc[k]] = cc[k + 1]
        k += 2
    got = {k: _val_tok(v) for k, v in st["custom"].items()}
    # the model prints reduced rationals; _val_tok does too
    if want != got:
        out.append(f"op {i}: custom attributes model {want}, implementation {got}")


def compare_hist(case, res, reqs, replies):
    out = []
    if not reqs:
        return out
    if res["status"] != "ok":
        return []           # reported by the oracle (clean-raises / timeout)
    parts = replies[0].split(" ; ")
    if parts[0] != "hist":
        return [f"model reply {replies[0][:80]!r}"]
    parts = parts[1:]
    if len(parts) != len(res["states"]):
        out.append(f"model produced {len(parts)} states ({parts[-1][:30] if parts else ''}), implementation {len(res['states'])}")
        return out
    for i, (rep, st) in enumerate(zip(parts, res["states"])):
        _cmp_state(i, rep, st, out)
        if out:
            return out
    full = replies[1]
    if "t_full" in res:
        if not full.startswith("ok ") or full.startswith("ok none"):
            out.append(f"final grids: model {full[:40]!r}, implementation has {len(res['t_full'])} points")
        else:
            t = full.split()
            n = int(t[1])
            tv = [_q(x) for x in t[2:2 + n]]
            m = int(t[2 + n])
            wv = [_q(x) for x in t[3 + n:3 + n + m]]
            if n != len(res["t_full"]) or m != len(res["w_full"]):
                out.append(f"final grids: model {n}/{m} points, implementation {len(res['t_full'])}/{len(res['w_full'])}")
            else:
                pi = Fraction(math.pi)
                mt = max([abs(x) for x in tv] + [Fraction(0)])
                mw = max([abs(x) for x in wv] + [Fraction(0)]) * pi
                for k, (q, x) in enumerate(zip(tv, res["t_full"])):
                    if not (_fin(x) and abs(Fraction(x) - q) <= Fraction(1e-12) * mt):
                        out.append(f"final t[{k}]: model {float(q)!r}, implementation {x!r}")
                        break
                for k, (q, x) in enumerate(zip(wv, res["w_full"])):
                    if not (_fin(x) and abs(Fraction(x) - q * pi) <= Fraction(1e-12) * mw):
                        out.append(f"final w[{k}]: model {float(q * pi)!r}, implementation {x!r}")
                        break
    return out


# ---- oracle on histories (independent of the Lean model) ----------------------------------------------------------------

def _truthy(x):
    return x is not None and x != 0


def _rel(a, b, tol=1e-12):
    """relative closeness; False for None / NaN / inf operands (`<=` form, so a NaN is never accepted)"""
    if not (_fin(a) and _fin(b)):
        return False
    return abs(a - b) <= tol * max(abs(a), abs(b)) + 1e-300


def _div(a, b):
    try:
        return a / b
    except (ZeroDivisionError, TypeError):
        return float("nan")


def oracle_hist(case, res):
    import numpy as np
    v = []
    if res["status"] == "timeout":
        return [("C14:timeout", f"gv history did not return: {res.get('detail')}")]
    if res["status"] == "err":
        return [("C14:clean-raises", f"gv.clean() / the set-up of the history raised: {res.get('detail')}")]
    if res.get("reset_error"):
        v.append(("C14:clean-raises", f"gv.clean() after the history {str(case['ops'])[:200]} raised {res['reset_error']}"))
    if res.get("positional"):
        v.append(("C14:positional:gv", f"gv(...) with {GV_ORDER} passed positionally differs from the keyword call in the history "
                  f"{str(case['ops'])[:300]}: {res['positional']}"))
    if not res.get("consts_ok"):
        v.append(("C14:constants", "scipy.constants.c / pi are not the assumed values"))
    prev = res["start"]
    d0 = prev
    if not (d0["sps"] == 16 and d0["R"] == 1e9 and d0["fs"] == 16e9 and d0["dt"] == 1 / 16e9 and d0["wavelength"] == WL_DEFAULT
            and d0["f0"] == C_LIGHT / WL_DEFAULT and d0["N"] is None and d0["t"] is None and d0["w"] is None and d0["dw"] is None
            and not d0["custom"]):
        v.append(("C14:clean-defaults", f"state after gv.clean() is not the default one: {str(d0)[:200]}"))
    custom = {}
    commensurate = True
    for i, (op, st) in enumerate(zip(case["ops"], res["states"])):
        if "err" in st:
            # valid arguments must not raise
            if op["op"] == "call":
                valid = all((op.get(k) is None or op[k] == 0 or op[k] >= (1 if k == "sps" else 1e-30)) for k in ("sps", "R", "fs")) \
                    and (op.get("sps") is None or op["sps"] == 0 or round(op["sps"]) >= 1) \
                    and (op.get("N") is None or (isinstance(op["N"], int) and op["N"] >= 1)) \
                    and (op.get("wl") is None or op["wl"] > 0) and prev["sps"] >= 1 and (prev["N"] is None or prev["N"] >= 1)
                if valid and not _truthy(op.get("sps")) and _truthy(op.get("fs")):
                    # sps is derived as round(fs/R): it must come out >= 1 for the request to be meaningful
                    Rv = op["R"] if _truthy(op.get("R")) else prev["R"]
                    valid = round(Fraction(op["fs"]) / Fraction(Rv)) >= 1
                if valid:
                    v.append(("C14:call-raises", f"op {i} {op} raised {st['err']} {st.get('detail')}"))
            else:
                v.append(("C14:clean-raises", f"gv.clean() raised {st['err']} {st.get('detail')}"))
            break
        where = f"after op {i} of {str(case['ops'][:i + 1])[:300]}"
        if op["op"] == "clean":
            custom = {}
            commensurate = True
            if not (st["sps"] == 16 and st["R"] == 1e9 and st["fs"] == 16e9 and st["dt"] == 1 / 16e9
                    and st["wavelength"] == WL_DEFAULT and st["f0"] == C_LIGHT / WL_DEFAULT and st["N"] is None
                    and st["t"] is None and st["w"] is None and st["dw"] is None):
                v.append(("C14:clean-defaults", f"clean() did not restore every default {where}: {str(st)[:200]}"))
            if st["custom"]:
                sig = "C14:clean-callable-custom" if all(val == "<callable>" or k.startswith("__") for k, val in st["custom"].items()) \
                    else "C14:clean-custom"
                v.append((sig, f"custom attributes survive clean() {where}: {st['custom']}"))
        else:
            # is this call commensurate with the state it met?  (only matters when sps has to be derived from fs and R)
            if not _truthy(op.get("sps")) and _truthy(op.get("fs")):
                Rv = op["R"] if _truthy(op.get("R")) else prev["R"]
                ratio = Fraction(op["fs"]) / Fraction(Rv)
                if ratio.denominator != 1:
                    commensurate = False
            elif _truthy(op.get("sps")) or _truthy(op.get("R")) or _truthy(op.get("fs")):
                commensurate = True if (_truthy(op.get("sps")) or _truthy(op.get("R"))) else commensurate
            for k, val in (op.get("kw") or {}).items():
                custom[k] = val
            if st["custom"] != custom:
                v.append(("C14:custom-persist", f"custom attributes {st['custom']} != expected {custom} {where}"))
            # wavelength: the value passed, else the documented default
            wl = op.get("wl", WL_DEFAULT)
            if st["wavelength"] != wl:
                v.append(("C14:wavelength", f"wavelength {st['wavelength']!r} != {wl!r} {where}"))
            if op.get("N") is not None and st["N"] != op["N"]:
                v.append(("C14:N", f"N {st['N']!r} != {op['N']!r} {where}"))
            if op.get("N") is None and st["N"] != prev["N"]:
                v.append(("C14:N", f"N changed to {st['N']!r} without being passed {where}"))
        # grid consistency for the values now in force
        if st["sps_type"] != "int":
            v.append(("C14:sps-int", f"sps is {st['sps_type']} {where}"))
        if not all(_fin(st[k]) for k in ("sps", "R", "fs", "dt", "wavelength", "f0")):
            v.append(("C14:nonfinite", f"a grid field is missing / NaN / inf {where}: " +
                      str({k: st[k] for k in ("sps", "R", "fs", "dt", "wavelength", "f0")})))
            break
        if commensurate and not _rel(st["fs"], st["R"] * st["sps"]):
            v.append(("C14:fs=R*sps", f"fs={st['fs']!r} R={st['R']!r} sps={st['sps']!r} {where}"))
        if not _rel(st["dt"], _div(1, st["fs"])):
            v.append(("C14:dt", f"dt={st['dt']!r} != 1/fs={_div(1, st['fs'])!r} {where}"))
        if not _rel(st["f0"], _div(C_LIGHT, st["wavelength"])):
            v.append(("C14:f0", f"f0={st['f0']!r} != c/wavelength {where}"))
        if v:
            break               # the scalar fields are already inconsistent: do not evaluate the grids on them
        if st["N"] is not None:
            n = st["N"] * st["sps"]
            t, w = st["t"], st["w"]
            if not t or not w or t.get("len") != n or w.get("len") != n:
                v.append(("C14:grid-len", f"N={st['N']} sps={st['sps']}: len(t)={t and t.get('len')}, len(w)={w and w.get('len')}, "
                          f"required {n} {where}"))
            else:
                if st["dw"] is None or not _rel(st["dw"], 2 * math.pi * st["fs"] / n):
                    v.append(("C14:dw", f"dw={st['dw']!r} != 2*pi*fs/(N*sps)={2 * math.pi * st['fs'] / n!r} {where}"))
                wref = 2 * np.pi * np.fft.fftshift(np.fft.fftfreq(n, d=1 / st["fs"]))
                scale = float(np.max(np.abs(wref))) if n > 1 else 1.0
                for j, x in zip(w["idx"], w["val"]):
                    if not (abs(x - wref[j]) <= 1e-12 * scale + 1e-300):
                        v.append(("C14:w-grid", f"w[{j}]={x!r} != {wref[j]!r} on the current fs={st['fs']!r} {where}"))
                        break
                # t spans 0 … N*sps*dt uniformly (library convention linspace(…, endpoint=True))
                stop = n * st["dt"]
                if not (abs(t["val"][0]) <= 0) or (n > 1 and not _rel(t["val"][-1], stop, 1e-12)) or t.get("uniform") is False:
                    v.append(("C14:t-grid", f"t = [{t['val'][0]!r} … {t['val'][-1]!r}] uniform={t.get('uniform')}, required "
                              f"0 … N*sps*dt={stop!r} {where}"))
        prev = st
        if v:
            break
    return v


# =====================================================================================================================
# part B: runtime monitors on the public functions
# =====================================================================================================================

def _configure(gv, conf):
    with warnings.catch_warnings():
        warnings.simplefilter("ignore")
        gv(**conf)


def _bits(rs, n):
    return rs.randint(0, 2, n)


def _esig(rs, n, noise=True, cplx=False):
    from opticomlib.typing import electrical_signal
    s = rs.rand(n) + (1j * rs.rand(n) if cplx else 0)
    return electrical_signal(s, 0.01 * rs.randn(n) if noise else None)


def _osig(rs, n, pol=1, noise=True):
    from opticomlib.typing import optical_signal
    shape = (n,) if pol == 1 else (2, n)
    s = (rs.rand(*shape) + 1j * rs.rand(*shape)) * 0.03
    return optical_signal(s, 0.001 * (rs.randn(*shape) + 1j * rs.randn(*shape)) if noise else None, n_pol=pol)


_EYES = {}


def _eye(rs, n, sps, M=None):
    """an eye object computed by the library from a two-level noisy signal (input of THRESHOLD_EST); cached per (n, sps) and
    handed out as a deep copy so that every call gets fresh arrays"""
    import copy
    if (n, sps) not in _EYES:
        _EYES[(n, sps)] = _eye_build(n, sps)
    return copy.deepcopy(_EYES[(n, sps)])


def _eye_build(n, sps):
    import numpy as np
    from opticomlib.devices import GET_EYE
    from opticomlib.typing import electrical_signal
    st = np.random.get_state()
    try:
        np.random.seed(12345)
        bits = np.tile([0, 1, 1, 0, 1, 0, 0, 1], max(n // 8, 8))
        x = np.kron(bits, np.ones(sps)) + 0.05 * np.random.randn(bits.size * sps)
        with warnings.catch_warnings():
            warnings.simplefilter("ignore")
            return GET_EYE(electrical_signal(x), nslots=bits.size)
    finally:
        np.random.set_state(st)


def _slots(rs, nsym, M, broken):
    """PPM slot pattern of `nsym` symbols: valid codewords; with `broken` some symbols have no ON slot and some have several
    (so that both repair branches of HDD run)"""
    import numpy as np
    out = np.zeros(nsym * M, dtype=int)
    for i in range(nsym):
        out[i * M + rs.randint(M)] = 1
    if broken:
        for i in range(0, nsym, 3):
            out[i * M:(i + 1) * M] = 0                       # empty symbol
        for i in range(1, nsym, 3):
            out[i * M:(i + 1) * M] = 0
            out[i * M + np.array(rs.choice(M, 2, replace=False))] = 1   # two ON slots
        out[(nsym - 1) * M:] = 1                               # all ON
    return out


def _as(kind, arr):
    """the same bits as a str / list / tuple / ndarray / bool ndarray / binary_sequence OBJECT"""
    import numpy as np
    from opticomlib.typing import binary_sequence
    arr = np.asarray(arr).astype(int)
    if kind == "str":
        return "".join(map(str, arr))
    if kind == "list":
        return [int(x) for x in arr]
    if kind == "tuple":
        return tuple(int(x) for x in arr)
    if kind == "ndarray":
        return arr.copy()
    if kind == "bool":
        return arr.astype(bool)
    if kind == "uint8":
        return arr.astype(np.uint8)
    if kind == "binseq":
        return binary_sequence(arr)
    raise ValueError(kind)


def _suite():
    """name -> builder(p) returning (fn, args, kwargs); p = {seed, n (slots), sps}.  Every builder creates FRESH argument objects
    from a private RandomState so that two builds with the same p give equal inputs."""
    import numpy as np
    from opticomlib import devices as D, ppm as P, ook as O, utils as U

    def rs(p):
        return np.random.RandomState(p["seed"])

    def N(p):
        return p["n"] * p["sps"]

    S = {}
    # ---- devices
    S["PRBS"] = lambda p: (D.PRBS, (7, 40, p["seed"] + 1), {})
    S["PRBS.ret"] = lambda p: (D.PRBS, (9,), {"len": 33, "seed": 5, "return_seed": True})
    S["DAC.nrz.ndarray"] = lambda p: (D.DAC, (_bits(rs(p), p["n"]),), {"Vout": 2.0, "bias": -0.5})
    S["DAC.rz.binseq"] = lambda p: (D.DAC, (__import__("opticomlib.typing", fromlist=["x"]).binary_sequence(_bits(rs(p), p["n"])),),
                                    {"pulse_shape": "rz", "Vout": 1.5})
    S["DAC.gauss"] = lambda p: (D.DAC, (_bits(rs(p), p["n"]),), {"pulse_shape": "gaussian", "m": 2, "T": p["sps"]})
    S["DAC.bw"] = lambda p: (D.DAC, (_bits(rs(p), p["n"]),), {"BW": 0.75e9})
    S["LASER.cw"] = lambda p: (D.LASER, (np.arange(N(p)) * 1e-10, 3.0), {})
    S["LASER.noisy"] = lambda p: (D.LASER, (np.arange(N(p)) * 1e-10, 0.0), {"lw": 1e6, "rin": -150.0, "df": 1e8})
    S["PM.scalar"] = lambda p: (D.PM, (_osig(rs(p), N(p), 1, p.get('noise', True)), 2.5), {"Vpi": 5.0})
    S["PM.array"] = lambda p: (D.PM, (_osig(rs(p), N(p), 2, p.get('noise', True)), rs(p).rand(N(p))), {})
    S["PM.esig"] = lambda p: (D.PM, (_osig(rs(p), N(p), 1, p.get('noise', True)), _esig(rs(p), N(p), p.get('noise', True))), {})
    S["MZM.scalar"] = lambda p: (D.MZM, (_osig(rs(p), N(p), 1, p.get('noise', True)), 1.25), {"bias": 2.5, "Vpi": 5.0, "loss_dB": 2.0})
    S["MZM.esig"] = lambda p: (D.MZM, (_osig(rs(p), N(p), 2, p.get('noise', True)), _esig(rs(p), N(p), p.get('noise', True))), {"bias": 1.0, "pol": "y", "ER_dB": 30.0})
    S["MZM.bw"] = lambda p: (D.MZM, (_osig(rs(p), N(p), 1, p.get('noise', True)), rs(p).rand(N(p))), {"BW": 2e9})
    S["BPF"] = lambda p: (D.BPF, (_osig(rs(p), N(p), 2, p.get('noise', True)), 3e9), {"n": 3})
    S["EDFA"] = lambda p: (D.EDFA, (_osig(rs(p), N(p), 1, p.get('noise', True)), 10.0, 5.0), {"BW": 4e9})
    S["EDFA.2pol"] = lambda p: (D.EDFA, (_osig(rs(p), N(p), 2, noise=False), 15.0, 4.5), {})
    S["DM"] = lambda p: (D.DM, (_osig(rs(p), N(p), 1, p.get('noise', True)), 17.0), {})
    S["DM.retH"] = lambda p: (D.DM, (_osig(rs(p), N(p), 2, p.get('noise', True)), -50.0), {"retH": True})
    S["FIBER.linear"] = lambda p: (D.FIBER, (_osig(rs(p), N(p), 1, p.get('noise', True)), 10.0), {"alpha": 0.2, "beta_2": -20.0, "beta_3": 0.1})
    S["FIBER.nonlinear"] = lambda p: (D.FIBER, (_osig(rs(p), N(p), 2, p.get('noise', True)), 5.0), {"alpha": 0.2, "beta_2": -20.0, "gamma": 1.5})
    S["FIBER.spm"] = lambda p: (D.FIBER, (_osig(rs(p), N(p), 1, p.get('noise', True)), 5.0), {"gamma": 2.0})
    S["LPF.esig"] = lambda p: (D.LPF, (_esig(rs(p), N(p), p.get('noise', True)), 1e9), {})
    S["LPF.ndarray"] = lambda p: (D.LPF, (rs(p).rand(N(p)), 2e9), {"n": 2, "retH": True})
    S["PD.all"] = lambda p: (D.PD, (_osig(rs(p), N(p), 1, p.get('noise', True)), 3e9), {})
    S["PD.thermal"] = lambda p: (D.PD, (_osig(rs(p), N(p), 2, p.get('noise', True)), 2e9), {"include_noise": "thermal-only", "r": 0.8})
    S["ADC.esig"] = lambda p: (D.ADC, (_esig(rs(p), N(p), p.get('noise', True)),), {"n": 4})
    S["ADC.ndarray"] = lambda p: (D.ADC, (rs(p).rand(N(p)),), {"n": 6, "otype": "n"})
    S["GET_EYE"] = lambda p: (D.GET_EYE, (__import__("opticomlib.typing", fromlist=["x"]).electrical_signal(
        np.kron(np.tile([0, 1, 1, 0, 1, 0, 0, 1], 8), np.ones(p["sps"])) + 0.05 * rs(p).randn(64 * p["sps"])),), {"nslots": 64})
    S["SAMPLER"] = lambda p: (D.SAMPLER, (_esig(rs(p), N(p), p.get('noise', True)), p["sps"] // 2), {})
    S["FBG"] = lambda p: (D.FBG, (_osig(rs(p), N(p), 1, p.get('noise', True)),), {"fc": 193.4e12, "vdneff": 1e-4, "kL": 2.0, "N": 20, "print_params": False})
    # ---- ppm
    S["PPM_ENCODER"] = lambda p: (P.PPM_ENCODER, (_bits(rs(p), 12),), {"M": 4})
    S["PPM_DECODER"] = lambda p: (P.PPM_DECODER, (P.PPM_ENCODER(_bits(rs(p), 12), 8).data,), {"M": 8})
    S["ppm.HDD"] = lambda p: (P.HDD, (_bits(rs(p), 32),), {"M": 4})
    S["ppm.SDD"] = lambda p: (P.SDD, (_esig(rs(p), 4 * 6 * p["sps"], p.get('noise', True)),), {"M": 4})
    S["ppm.THRESHOLD_EST"] = lambda p: (P.THRESHOLD_EST, (_eye(rs(p), 64, p["sps"]),), {"M": 4})
    S["ppm.DSP.hard"] = lambda p: (P.DSP, (_esig(rs(p), 64 * p["sps"], p.get('noise', True)),), {"M": 4, "decision": "hard", "threshold": 0.5})
    S["ppm.DSP.soft"] = lambda p: (P.DSP, (_esig(rs(p), 64 * p["sps"], p.get('noise', True)),), {"M": 4, "decision": "soft"})
    S["ppm.theory_BER"] = lambda p: (P.theory_BER, (np.array([1.0, 2.0]), 0.1, 0.2), {"M": 4, "decision": "hard"})
    # ---- the codec / DSP entry points under every container kind they accept (objects as well as raw data)
    for kind in ("str", "list", "tuple", "ndarray", "bool", "uint8", "binseq"):
        for broken in (False, True):
            S[f"ppm.HDD.{kind}.{'repair' if broken else 'valid'}"] = \
                (lambda kind, broken: lambda p: (P.HDD, (_as(kind, _slots(rs(p), 9, 4, broken)),), {"M": 4}))(kind, broken)
        S[f"PPM_ENCODER.{kind}"] = (lambda kind: lambda p: (P.PPM_ENCODER, (_as(kind, _bits(rs(p), 12)),), {"M": 8}))(kind)
        S[f"PPM_DECODER.{kind}"] = (lambda kind: lambda p: (P.PPM_DECODER, (_as(kind, _slots(rs(p), 6, 8, False)),), {"M": 8}))(kind)
        S[f"DAC.{kind}"] = (lambda kind: lambda p: (D.DAC, (_as(kind, _bits(rs(p), p["n"])),), {"Vout": -1.5, "bias": 0.25,
                                                                                             "pulse_shape": "rz"}))(kind)
        S[f"ppm.BER.counter.{kind}"] = (lambda kind: lambda p: (P.BER_analizer, ("counter",),
                                        {"Tx": _as(kind, _bits(rs(p), 24)), "Rx": _as(kind, _bits(np.random.RandomState(p["seed"] + 1), 20))}))(kind)
        S[f"ook.BER.counter.{kind}"] = (lambda kind: lambda p: (O.BER_analizer, ("counter",),
                                        {"Tx": _as(kind, _bits(rs(p), 24)), "Rx": _as(kind, _bits(np.random.RandomState(p["seed"] + 1), 20))}))(kind)
    S["ppm.SDD.ndarray"] = lambda p: (P.SDD, (rs(p).rand(4 * 6 * p["sps"]),), {"M": 4})
    S["ppm.SDD.list"] = lambda p: (P.SDD, (list(rs(p).rand(4 * 6 * p["sps"])),), {"M": 4})
    S["ppm.DSP.hard.ndarray"] = lambda p: (P.DSP, (rs(p).rand(16 * p["sps"]),), {"M": 4, "decision": "hard", "threshold": 0.5})
    S["ppm.DSP.soft.list"] = lambda p: (P.DSP, (list(rs(p).rand(16 * p["sps"])),), {"M": 4, "decision": "soft"})
    S["ppm.BER.estimator"] = lambda p: (P.BER_analizer, ("estimator",), {"eye_obj": _eye(rs(p), 64, p["sps"]), "M": 4, "decision": "hard"})
    S["ook.BER.estimator"] = lambda p: (O.BER_analizer, ("estimator",), {"eye_obj": _eye(rs(p), 64, p["sps"])})
    S["MZM.list"] = lambda p: (D.MZM, (_osig(rs(p), N(p), 1, p.get('noise', True)), list(rs(p).rand(N(p)))), {"bias": 1.0})
    S["GET_EYE.ndarray"] = lambda p: (D.GET_EYE, (np.kron(np.tile([0, 1, 1, 0, 1, 0, 0, 1], 8), np.ones(p["sps"]))
                                                  + 0.05 * rs(p).randn(64 * p["sps"]),), {"nslots": 64})
    # ---- operators and methods of the containers themselves (binary_sequence / electrical_signal / optical_signal ops)
    from opticomlib.typing import binary_sequence as BS
    S["binseq.add.obj"] = lambda p: (BS.__add__, (_as("binseq", _bits(rs(p), 9)), _as("binseq", _bits(rs(p), 5))), {})
    S["binseq.add.list"] = lambda p: (BS.__add__, (_as("binseq", _bits(rs(p), 9)), _as("list", _bits(rs(p), 5))), {})
    S["binseq.radd.str"] = lambda p: (BS.__radd__, (_as("binseq", _bits(rs(p), 9)), "0110"), {})
    S["binseq.invert"] = lambda p: (BS.__invert__, (_as("binseq", _bits(rs(p), 9)),), {})
    S["binseq.getitem"] = lambda p: (BS.__getitem__, (_as("binseq", _bits(rs(p), 9)), slice(1, 7, 2)), {})
    S["binseq.eq"] = lambda p: (BS.__eq__, (_as("binseq", _bits(rs(p), 9)), _as("ndarray", _bits(rs(p), 9))), {})
    import operator
    for opn in ("add", "sub", "mul"):
        S[f"esig.{opn}.obj"] = (lambda opn: lambda p: (getattr(operator, opn), (_esig(rs(p), 12, p.get('noise', True)),
                                                                              _esig(np.random.RandomState(p["seed"] + 1), 12)), {}))(opn)
        S[f"esig.{opn}.ndarray"] = (lambda opn: lambda p: (getattr(operator, opn), (_esig(rs(p), 12, p.get('noise', True)), rs(p).rand(12)), {}))(opn)
        S[f"osig.{opn}.obj"] = (lambda opn: lambda p: (getattr(operator, opn), (_osig(rs(p), 12, 2, p.get('noise', True)),
                                                                              _osig(np.random.RandomState(p["seed"] + 1), 12, 2)), {}))(opn)
    S["esig.getitem"] = lambda p: (operator.getitem, (_esig(rs(p), 12, p.get('noise', True)), slice(2, 11, 3)), {})
    S["osig.getitem"] = lambda p: (operator.getitem, (_osig(rs(p), 12, 2, p.get('noise', True)), slice(2, 11, 3)), {})
    S["esig.fft"] = lambda p: (lambda x: x("w", shift=True), (_esig(rs(p), 12, p.get('noise', True)),), {})
    S["osig.ifft"] = lambda p: (lambda x: x("t"), (_osig(rs(p), 12, 2, p.get('noise', True)),), {})
    S["esig.gt"] = lambda p: (operator.gt, (_esig(rs(p), 12, p.get('noise', True)), 0.5), {})
    S["esig.copy"] = lambda p: (lambda x: x.copy(), (_esig(rs(p), 12, p.get('noise', True)),), {})
    S["esig.abs.power.phase"] = lambda p: (lambda x: (x.abs(), x.power(), x.phase()), (_esig(rs(p), 12, p.get('noise', True), True),), {})
    # ---- boundary values at which a device could take a short cut and hand its argument back (result must be a new object
    #      with its own buffers): zero dispersion / length / gain / drive, unit factors, full slices
    nz = lambda p: p.get('noise', True)
    S["DM.D0.int"] = lambda p: (D.DM, (_osig(rs(p), N(p), 1, nz(p)), 0), {})
    S["DM.D0.float"] = lambda p: (D.DM, (_osig(rs(p), N(p), 2, nz(p)), 0.0), {})
    S["DM.D-0.0"] = lambda p: (D.DM, (_osig(rs(p), N(p), 1, nz(p)), -0.0), {})
    S["DM.D0.retH"] = lambda p: (D.DM, (_osig(rs(p), N(p), 2, nz(p)), 0.0), {"retH": True})
    S["FIBER.allzero"] = lambda p: (D.FIBER, (_osig(rs(p), N(p), 1, nz(p)), 10.0), {"alpha": 0.0, "beta_2": 0.0, "beta_3": 0.0, "gamma": 0.0})
    # (FIBER(x, length=0) with gamma == 0 does not terminate on the unchanged tree - reported; the zero-length call below takes
    #  the closed-form SPM branch)
    S["FIBER.len0.spm"] = lambda p: (D.FIBER, (_osig(rs(p), N(p), 2, nz(p)), 0.0), {"gamma": 1.5})
    S["EDFA.G0"] = lambda p: (D.EDFA, (_osig(rs(p), N(p), 1, nz(p)), 0.0, 3.0), {})
    S["PM.zero"] = lambda p: (D.PM, (_osig(rs(p), N(p), 1, nz(p)), 0.0), {})
    S["PM.zeros"] = lambda p: (D.PM, (_osig(rs(p), N(p), 2, nz(p)), np.zeros(N(p))), {})
    S["MZM.zero"] = lambda p: (D.MZM, (_osig(rs(p), N(p), 1, nz(p)), 0.0), {"bias": 0.0, "loss_dB": 0.0, "ER_dB": 200.0})
    S["LPF.wide"] = lambda p: (D.LPF, (_esig(rs(p), N(p), nz(p)), 0.499 * 8e9), {"fs": 8e9, "n": 1})
    S["DAC.Vout0"] = lambda p: (D.DAC, (_bits(rs(p), p["n"]),), {"Vout": 0, "bias": 0.0})
    S["DAC.None"] = lambda p: (D.DAC, (_as("binseq", _bits(rs(p), p["n"])),), {"Vout": None, "bias": None})
    S["DAC.unit"] = lambda p: (D.DAC, (_as("uint8", _bits(rs(p), p["n"])),), {"Vout": 1, "bias": 0, "BW": None})
    S["PD.noiseless-in"] = lambda p: (D.PD, (_osig(rs(p), N(p), 1, False), 3e9), {"include_noise": "thermal-only"})
    import operator as _op
    S["esig.add0"] = lambda p: (_op.add, (_esig(rs(p), 12, nz(p)), 0), {})
    S["esig.sub0"] = lambda p: (_op.sub, (_esig(rs(p), 12, nz(p)), 0.0), {})
    S["esig.mul1"] = lambda p: (_op.mul, (_esig(rs(p), 12, nz(p)), 1), {})
    S["osig.mul1"] = lambda p: (_op.mul, (_osig(rs(p), 12, 2, nz(p)), 1.0), {})
    S["esig.fullslice"] = lambda p: (_op.getitem, (_esig(rs(p), 12, nz(p)), slice(None)), {})
    S["osig.fullslice"] = lambda p: (_op.getitem, (_osig(rs(p), 12, 2, nz(p)), slice(None)), {})
    S["binseq.fullslice"] = lambda p: (_op.getitem, (_as("binseq", _bits(rs(p), 9)), slice(None)), {})
    S["binseq.add.empty"] = lambda p: (_op.add, (_as("binseq", _bits(rs(p), 9)), []), {})
    S["SAMPLER.stride1"] = lambda p: (D.SAMPLER, (_esig(rs(p), N(p), nz(p)), 0), {})
    # ---- GET_EYE on signals that take different branches (with / without resampling; noisy / noiseless two-level signal)
    def _nrz(p, sigma):
        x = np.kron(np.tile([0, 1, 1, 0, 1, 0, 0, 1], 8), np.ones(p["sps"]))
        return __import__("opticomlib.typing", fromlist=["x"]).electrical_signal(x + sigma * rs(p).randn(x.size) if sigma else x)
    S["GET_EYE.resamp"] = lambda p: (D.GET_EYE, (_nrz(p, 0.05),), {"nslots": 64, "sps_resamp": 32})
    S["GET_EYE.noiseless"] = lambda p: (D.GET_EYE, (_nrz(p, 0.0),), {"nslots": 64})
    S["GET_EYE.noiseless.resamp"] = lambda p: (D.GET_EYE, (_nrz(p, 0.0),), {"nslots": 64, "sps_resamp": 24})
    # ---- ook
    S["ook.THRESHOLD_EST"] = lambda p: (O.THRESHOLD_EST, (_eye(rs(p), 64, p["sps"]),), {})
    S["ook.DSP"] = lambda p: (O.DSP, (__import__("opticomlib.typing", fromlist=["x"]).electrical_signal(
        np.kron(np.tile([0, 1, 1, 0, 1, 0, 0, 1], 8), np.ones(p["sps"])) + 0.05 * rs(p).randn(64 * p["sps"])),), {})
    S["ook.theory_BER"] = lambda p: (O.theory_BER, (np.array([1.0, 2.0]), np.array([0.1, 0.1]), 0.2), {})
    # ---- utils
    S["dec2bin"] = lambda p: (U.dec2bin, (37, 8), {})
    S["str2array"] = lambda p: (U.str2array, ("1 2.5,3;4 5 6",), {})
    S["db"] = lambda p: (U.db, (rs(p).rand(9) + 0.1,), {})
    S["dbm"] = lambda p: (U.dbm, (rs(p).rand(9) + 0.1,), {})
    S["idb"] = lambda p: (U.idb, (rs(p).randn(9),), {})
    S["idbm"] = lambda p: (U.idbm, (rs(p).randn(9),), {})
    S["gaus"] = lambda p: (U.gaus, (rs(p).randn(9),), {"mu": 0.5, "std": 2.0})
    S["Q"] = lambda p: (U.Q, (rs(p).randn(9),), {})
    S["phase"] = lambda p: (U.phase, (np.exp(1j * np.linspace(0, 9, 33)),), {})
    S["tau_g"] = lambda p: (U.tau_g, (np.exp(1j * np.linspace(0, 3, 33) ** 2), 8e9), {})
    S["dispersion"] = lambda p: (U.dispersion, (np.exp(1j * np.linspace(0, 3, 33) ** 2), 8e9, 193.4e12), {})
    S["rcos"] = lambda p: (U.rcos, (np.linspace(-2, 2, 41), 0.5, 1.0), {})
    S["si"] = lambda p: (U.si, (2.5e-9, "s", 2), {})
    S["norm"] = lambda p: (U.norm, (rs(p).randn(9),), {})
    S["nearest"] = lambda p: (U.nearest, (rs(p).rand(9), 0.4), {})
    S["p_ase"] = lambda p: (U.p_ase, (), {"G": 20.0, "NF": 5.0, "BW_opt": 50e9})
    S["average_voltages"] = lambda p: (U.average_voltages, (-20.0, "ppm"), {"M": 4, "ER": 10.0, "G": 20.0, "NF": 5.0, "BW_opt": 50e9})
    S["noise_variances"] = lambda p: (U.noise_variances, (np.array([-25.0, -20.0]), "ook"), {"G": 20.0, "NF": 5.0, "BW_opt": 50e9})
    S["optimum_threshold"] = lambda p: (U.optimum_threshold, (0.1, 1.0, 0.01, 0.04, "ook"), {})
    S["utils.theory_BER"] = lambda p: (U.theory_BER, (np.array([-30.0, -25.0]), "ook"), {"amplify": True, "G": 20.0, "NF": 5.0, "BW_opt": 50e9})
    S["shortest_int"] = lambda p: (U.shortest_int, (rs(p).randn(50),), {"percent": 50})
    return S


_SUITE = None
SUITE_NAMES = ["PRBS", "PRBS.ret", "DAC.nrz.ndarray", "DAC.rz.binseq", "DAC.gauss", "DAC.bw", "LASER.cw", "LASER.noisy", "PM.scalar",
               "PM.array", "PM.esig", "MZM.scalar", "MZM.esig", "MZM.bw", "BPF", "EDFA", "EDFA.2pol", "DM", "DM.retH", "FIBER.linear",
               "FIBER.nonlinear", "FIBER.spm", "LPF.esig", "LPF.ndarray", "PD.all", "PD.thermal", "ADC.esig", "ADC.ndarray", "GET_EYE",
               "SAMPLER", "FBG", "PPM_ENCODER", "PPM_DECODER", "ppm.HDD", "ppm.SDD", "ppm.THRESHOLD_EST", "ppm.DSP.hard",
               "ppm.DSP.soft", "ppm.theory_BER", "ook.THRESHOLD_EST", "ook.DSP", "ook.theory_BER", "dec2bin", "str2array", "db", "dbm",
               "idb", "idbm", "gaus", "Q", "phase", "tau_g", "dispersion", "rcos", "si", "norm", "nearest", "p_ase",
               "average_voltages", "noise_variances", "optimum_threshold", "utils.theory_BER", "shortest_int"]
_KINDS = ("str", "list", "tuple", "ndarray", "bool", "uint8", "binseq")
SUITE_NAMES += [f"ppm.HDD.{k}.{b}" for k in _KINDS for b in ("valid", "repair")]
SUITE_NAMES += [f"{f}.{k}" for k in _KINDS for f in ("PPM_ENCODER", "PPM_DECODER", "DAC", "ppm.BER.counter", "ook.BER.counter")]
SUITE_NAMES += ["ppm.SDD.ndarray", "ppm.SDD.list", "ppm.DSP.hard.ndarray", "ppm.DSP.soft.list", "ppm.BER.estimator", "ook.BER.estimator",
                "MZM.list", "GET_EYE.ndarray", "binseq.add.obj", "binseq.add.list", "binseq.radd.str", "binseq.invert",
                "binseq.getitem", "binseq.eq", "esig.getitem", "osig.getitem", "esig.fft", "osig.ifft", "esig.gt", "esig.copy",
                "esig.abs.power.phase"]
SUITE_NAMES += [f"{c}.{o}.{k}" for o in ("add", "sub", "mul") for c, k in (("esig", "obj"), ("esig", "ndarray"), ("osig", "obj"))]
BOUNDARY = ["DM.D0.int", "DM.D0.float", "DM.D-0.0", "DM.D0.retH", "FIBER.allzero", "FIBER.len0.spm", "EDFA.G0", "PM.zero", "PM.zeros", "MZM.zero",
            "LPF.wide", "DAC.Vout0", "DAC.None", "DAC.unit", "PD.noiseless-in", "esig.add0", "esig.sub0", "esig.mul1", "osig.mul1",
            "esig.fullslice", "osig.fullslice", "binseq.fullslice", "binseq.add.empty", "SAMPLER.stride1"]
REF_FIRST = {"GET_EYE.noiseless", "GET_EYE", "GET_EYE.ndarray"}
EYE_BRANCHES = ["GET_EYE.resamp", "GET_EYE.noiseless", "GET_EYE.noiseless.resamp"]
SUITE_NAMES += BOUNDARY + EYE_BRANCHES
# functions whose single call is slow: used less often
SLOW = {"GET_EYE", "GET_EYE.ndarray", "GET_EYE.resamp", "GET_EYE.noiseless", "GET_EYE.noiseless.resamp", "ppm.BER.estimator", "ook.BER.estimator", "FBG", "ppm.THRESHOLD_EST", "ook.THRESHOLD_EST", "ook.DSP", "ppm.DSP.hard", "ppm.DSP.soft", "FIBER.nonlinear"}
THOROUGH_ONLY = {"ook.DSP"}      # one call takes ~6 s (GET_EYE with sps_resamp=128 on 8192 slots)
GV_CONFS = [{"sps": 8, "R": 1e9, "N": 16}, {"sps": 16, "R": 1e9}, {"sps": 9, "R": 2.5e9, "N": 16}, {"sps": 8, "R": 10e9, "N": 16, "alpha": 0.5},
            {"sps": 1, "R": 16e9, "N": 128}]
NO_SPS1 = {"DAC.gauss"}          # the Gaussian DAC needs sps >= 2 (impulse pair at sps//2 - 1 and sps//2)


def build_call(name, p):
    global _SUITE
    if _SUITE is None:
        _SUITE = _suite()
    with warnings.catch_warnings():
        warnings.simplefilter("ignore")
        return _SUITE[name](p)


def gen_monitor_cases(rng, tier):
    cases = []
    reps = 2 if tier == "quick" else 6
    for r in range(reps):
        for name in SUITE_NAMES:
            if tier == "quick" and (name in THOROUGH_ONLY or (name in SLOW and r > 0)):
                continue
            conf = GV_CONFS[rng.randrange(len(GV_CONFS))] if name not in SLOW else GV_CONFS[0]
            if conf["sps"] == 1 and name in NO_SPS1:
                conf = GV_CONFS[1]
            cases.append({"kind": "mon", "name": name,
                          "p": {"seed": rng.randrange(1000), "n": 16, "sps": conf["sps"], "noise": r % 2 == 0},
                          "seed": rng.choice([0, 1, 2, 7, 12345, 2 ** 31 - 1]), "gv": conf})
    # GET_EYE call pairs that take different branches (with / without resampling, noisy / noiseless): the second result must not
    # carry anything over from the first
    for names in (["GET_EYE.resamp", "GET_EYE.noiseless"], ["GET_EYE.resamp", "GET_EYE"], ["GET_EYE.noiseless.resamp", "GET_EYE.noiseless"]):
        cases.append({"kind": "order", "names": names, "p": {"seed": rng.randrange(1000), "n": 16, "sps": GV_CONFS[0]["sps"], "noise": True},
                      "seed": rng.randrange(100), "gv": GV_CONFS[0]})
    # call orders on shared inputs
    fast = [n for n in SUITE_NAMES if n not in SLOW]
    n_orders = 100 if tier == "quick" else 800
    for _ in range(n_orders):
        k = rng.choice([2, 3, 3, 4])
        names = rng.sample(fast, k)
        conf = GV_CONFS[rng.randrange(len(GV_CONFS))]
        if conf["sps"] == 1 and NO_SPS1 & set(names):
            conf = GV_CONFS[2]
        cases.append({"kind": "order", "names": names,
                      "p": {"seed": rng.randrange(1000), "n": 16, "sps": conf["sps"], "noise": rng.random() < 0.5},
                      "seed": rng.randrange(100), "gv": conf})
    return cases


def _digest(result):
    import hashlib
    from harness.common.monitors import fingerprint
    return hashlib.sha256(repr(fingerprint(result)).encode()).hexdigest()


def _one_reference(name, p, seed, conf):
    """result digest of one seeded call in the CURRENT interpreter (used by the fresh-interpreter reference run)"""
    import numpy as np
    from opticomlib.typing import gv
    try:
        gv.clean()
        _configure(gv, conf)
        fn, a, k = build_call(name, p)
        np.random.seed(seed)
        with warnings.catch_warnings():
            warnings.simplefilter("ignore")
            with time_limit(30):
                r = fn(*a, **k)
        return _digest(r)
    except Timeout:
        return "timeout"
    except Exception as e:  # noqa
        return "err:" + exc_enum(e)
    finally:
        gv.clean()


def _ref_main():
    """entry of the fresh interpreter: JSON list of [name, p, seed, conf] on stdin -> JSON list of digests on stdout.
    The items are evaluated in REVERSE order, so the call history differs from the one of the checking process."""
    import json
    import sys
    items = json.load(sys.stdin)
    out = [None] * len(items)
    # calls that take the plain branches first (before anything that could leave optional results behind), the rest reversed
    idx = [i for i in range(len(items)) if items[i][0] in REF_FIRST] + \
          [i for i in reversed(range(len(items))) if items[i][0] not in REF_FIRST]
    for i in idx:
        out[i] = _one_reference(*items[i])
    json.dump(out, sys.stdout)


def attach_references(cases):
    """adds case["ref"] (digests computed by a fresh interpreter) to the monitor / order cases; silently skipped if the
    sub-process cannot be run (the in-process comparisons remain)"""
    import json
    import subprocess
    import sys
    items, where = [], []
    for c in cases:
        if c["kind"] == "mon":
            items.append([c["name"], c["p"], c["seed"], c["gv"]])
            where.append((c, 0))
        elif c["kind"] == "order":
            for j, nm in enumerate(c["names"]):
                items.append([nm, c["p"], c["seed"], c["gv"]])
                where.append((c, j))
    if not items or os.environ.get("VERIF_C14_NOREF"):
        return
    verif = os.path.abspath(os.path.join(os.path.dirname(__file__), "..", ".."))
    repo = os.environ.get("VERIF_REPO", "/repo")
    code = (f"import sys, os; sys.path[:0] = [{verif!r}, {repo!r}]; os.environ.setdefault('MPLBACKEND', 'Agg'); "
            "from harness.props import c14; c14._ref_main()")
    try:
        pr = subprocess.run([sys.executable, "-c", code], input=json.dumps(items), stdout=subprocess.PIPE,
                            stderr=subprocess.PIPE, text=True, timeout=600, cwd=verif)
        digests = json.loads(pr.stdout)
    except Exception:  # noqa
        return
    if len(digests) != len(items):
        return
    for (c, j), d in zip(where, digests):
        c.setdefault("ref", {})[str(j)] = d


def _ref_check(case, j, name, rep, res):
    want = (case.get("ref") or {}).get(str(j))
    if want is None or rep.status == "timeout":
        return
    got = _digest(rep.result) if rep.status == "ok" else "err:" + str(rep.err)
    if got != want:
        res["violations"].append([f"C14:history-dependent:{name}",
                                  f"{name} (seed {case['seed']}, gv {case['gv']}) gives a different result than in a fresh "
                                  f"interpreter with another call history (digest {got[:12]} vs {want[:12]})"])


def run_monitor(case):
    import numpy as np
    from opticomlib.typing import gv
    from harness.common.monitors import monitored_call, seeded_rerun, fingerprint, fp_diff, gv_snapshot, snapshot_diff
    res = {"status": "ok", "violations": [], "calls": []}
    try:
        gv.clean()
        _configure(gv, case["gv"])
        g0 = gv_snapshot()
        if case["kind"] == "mon":
            name = case["name"]
            (r1, r2), v = seeded_rerun(lambda: build_call(name, case["p"]), case["seed"], timeout=30.0, label=name, prefix="C14")
            res["calls"] = [r1.to_json(), r2.to_json()]
            res["violations"] = [list(x) for x in v]
            _ref_check(case, 0, name, r1, res)
            if r1.status == "timeout":
                res["violations"].append([f"C14:timeout:{name}", f"{name} did not return within 30 s"])
        else:
            names = case["names"]
            # reference: each function alone, seeded, on a fresh copy of the shared inputs
            ref = {}
            for nm in names:
                fn, a, k = build_call(nm, case["p"])
                r = monitored_call(fn, a, k, seed=case["seed"], timeout=30.0, label=nm, prefix="C14")
                ref[nm] = r
                res["violations"] += [list(x) for x in r.violations]
            # then all of them in the given order in one go (each seeded the same way), the others having run before
            for j, nm in enumerate(names):
                fn, a, k = build_call(nm, case["p"])
                r = monitored_call(fn, a, k, seed=case["seed"], timeout=30.0, label=nm, prefix="C14")
                res["calls"].append(r.to_json())
                _ref_check(case, j, nm, r, res)
                res["violations"] += [list(x) for x in r.violations if list(x) not in res["violations"]]
                if r.status != ref[nm].status or r.err != ref[nm].err:
                    res["violations"].append([f"C14:order-status:{nm}", f"{nm}: {ref[nm].status}/{ref[nm].err} alone, "
                                              f"{r.status}/{r.err} after {names}"])
                elif r.status == "ok":
                    d = fp_diff(fingerprint(ref[nm].result), fingerprint(r.result))
                    if d:
                        res["violations"].append([f"C14:order-dependent:{nm}", f"{nm} gives a different result after {names}: {d}"])
        d = snapshot_diff(g0, gv_snapshot())
        if d:
            res["violations"].append(["C14:gv-mutated:sequence", f"gv changed over the sequence: {' '.join(d)}"])
    except Timeout as e:
        res.update(status="timeout", detail=str(e))
    except Exception as e:  # noqa
        res.update(status="err", err=exc_enum(e), detail=repr(e)[:300])
    finally:
        _hard_reset(gv)
    return res


def oracle_monitor(case, res):
    if res["status"] == "timeout":
        return [("C14:timeout", f"{case.get('name') or case.get('names')} did not return: {res.get('detail')}")]
    if res["status"] == "err":
        return [("C14:harness", f"monitor case failed to run: {res.get('detail')}")]
    out = [(s, m) for s, m in res["violations"]]
    # a suite entry that cannot even be called would silently check nothing
    for c in res["calls"]:
        if c["status"] == "err":
            out.append((f"C14:suite-call-failed:{c['label']}", f"{c['label']} raised {c['err']}: {c['detail']}"))
    seen, uniq = set(), []
    for s, m in out:
        if s not in seen:
            seen.add(s)
            uniq.append((s, m))
    return uniq


# =====================================================================================================================
# API
# =====================================================================================================================

def gen_cases(rng, tier):
    cases = gen_histories(rng, tier) + gen_monitor_cases(rng, tier)
    rng.shuffle(cases)
    attach_references(cases)
    return cases


def run_impl(case):
    if case["kind"] == "hist":
        return run_hist(case)
    return run_monitor(case)


def model_requests(case, res):
    if case["kind"] == "hist":
        return _hist_requests(case)
    return []


def compare(case, res, reqs, replies):
    if case["kind"] == "hist":
        return compare_hist(case, res, reqs, replies)
    return []


def oracle(case, res):
    if case["kind"] == "hist":
        return oracle_hist(case, res)
    return oracle_monitor(case, res)


def features(case, res):
    f = ["kind=" + case["kind"], "status=" + res.get("status", "?")]
    if case["kind"] == "hist":
        ops = case["ops"]
        f.append("len=" + ("1" if len(ops) == 1 else "2-4" if len(ops) <= 4 else "5-12" if len(ops) <= 12 else ">12"))
        for op in ops:
            if op["op"] == "clean":
                f.append("op=clean")
            else:
                given = [k for k in ("sps", "R", "fs") if _truthy(op.get(k))]
                f.append("call:" + (",".join(given) or "none"))
                if any(k in op and not _truthy(op[k]) for k in ("sps", "R", "fs")):
                    f.append("falsy-arg")
                if op.get("pos"):
                    f.append("call-positional")
                if "N" in op:
                    f.append("N-passed")
                if "wl" in op:
                    f.append("wavelength-passed")
                if op.get("kw"):
                    f.append("custom-kw")
        for st in res.get("states", []):
            if "err" in st:
                f.append("hist-err=" + st["err"])
        sts = [s for s in res.get("states", []) if "err" not in s]
        if any(b["N"] is not None and a["N"] == b["N"] and (a["sps"] != b["sps"] or a["fs"] != b["fs"]) for a, b in zip(sts, sts[1:])):
            f.append("N-in-force-rates-changed")
        if any(s["fs"] != s["R"] * s["sps"] for s in sts):
            f.append("non-commensurate")
    elif case["kind"] == "mon":
        f.append("fresh-interpreter-ref=" + ("yes" if case.get("ref") else "MISSING"))
        f.append("fn=" + case["name"])
        for c in res.get("calls", [])[:1]:
            f.append("rng-used" if c["rng_used"] else "deterministic")
            f.append("call-" + c["status"])
    else:
        f.append("fresh-interpreter-ref=" + ("yes" if case.get("ref") else "MISSING"))
        f.append(f"order-len={len(case['names'])}")
    return f


def nontrivial_key(case, res):
    if case["kind"] == "hist":
        sts = [s for s in res.get("states", []) if "err" not in s]
        if len(sts) < 2:
            return None
        return ("hist", str(case["ops"]))
    if case["kind"] == "mon" and res.get("status") == "ok" and res["calls"] and res["calls"][0]["status"] == "ok":
        return ("mon", case["name"], str(case["gv"]), case["seed"])
    if case["kind"] == "order" and res.get("status") == "ok":
        return ("order", tuple(case["names"]), str(case["gv"]))
    return None
