"""C19 — unit conversions, Q, number formatting and string parsing are self-consistent."""
import math
import warnings
from fractions import Fraction
from decimal import Decimal

import numpy as np

from harness.common.wire import enc_f, exc_enum, u2f
from harness.common.watchdog import time_limit, Timeout

ID = "C19"
MANIFEST = {
    "text": "Lean 4 theorems (Props/C19.lean). Over R: idb(db x)=x, idbm(dbm x)=x for x>0, db(idb y)=y, dbm(idbm y)=y, "
            "db(x*y)=db x+db y, db(x/y)=db x-db y, db(x^n)=n db x, idb(a+b)=idb a*idb b, db and idb strictly increasing, idbm(y)=idb(y-30), dbm=db+30, negative input => ValueError; Q(x)+Q(-x)=1, Q antitone, Q(0)=1/2 for every erfc "
            "with erfc(y)=2*N(0,1)(sqrt2*y,inf) (Gaussian measure); integral of gaus = 1; rcos in [0,1], even, 1/2 at 1/(2T), "
            "0 beyond (1+alpha)/(2T). Exact: dec2bin(v,d) is the d-digit big-endian expansion (length, digits, value, error iff "
            "v>=2^d, loop needs no more than d rounds); the si if-ladder TRANSLATED from utils.py (Gen/SiLadder.lean) tiles "
            "[1e-15,inf), scale x prefix power = 1, mantissa in [1,1000) for x<1e15; str2array character-class lattice "
            "bool<int<float<complex, any other character => ValueError, bit-pattern reading, explicit dtype tag, and the "
            "render->parse round trip of every int64 array (1-D and 2-D, any comma/blank separators). Tie: translator + exact "
            "differential run (dec2bin, si, str2array) and Float differential run (dB, Q, gaus, rcos) of the compiled model "
            "against the real functions, plus a numpy oracle of every clause.",
    "note": "Trusted: Lean kernel, translator tools/extractors/si.py, harness; scipy.special.erfc is a parameter (spied) assumed "
            "to be the Gaussian tail; decimal->binary64 rounding of float()/complex() tokens and printf rounding of si are "
            "runtime clauses (oracle only); the reals say nothing about rounding. Axioms: propext, Classical.choice, Quot.sound.",
    "technique": "Lean 4 proof (real analysis via Mathlib, exact models, table translated from source) + differential correspondence run",
    "design": "§5 C19",
}
GEN = ["SiLadder"]
RULE = ("cases: every (v,d) with d<=10 (d<=16 thorough) plus rejected/negative v; si on every decade boundary of 1e-15..1e15, its two "
        "float neighbours, 7 points per decade and random x, k in {0,1,2,3,6}; str2array on rendered int/float/complex/bit arrays up "
        "to 3x6 with 3 element and 3 row separator styles, explicit dtypes, and a malformed stream (foreign characters, tabs, ragged "
        "rows, bad tokens, int64 overflow); positive reals over 30 decades / dB values in [-300,300] as scalars, lists, tuples, int "
        "and float arrays, one negative element of every magnitude 1e-15..1e15 (alone / mixed with positive ones); Q/gaus/rcos grids incl. the rcos break points. non-trivial = accepted call with a non-empty result, "
        "distinct by (kind, canonical input)")
PARTIAL = [
    "decimal->binary64 rounding of str2array's float/complex tokens is Python's float()/complex(): the model returns the exact "
    "decimal value and the harness rounds it with Fraction.__float__ (correctly rounded); astype(int) of a float token is exact "
    "for tokens with <= 15 significant digits (generator stays inside)",
    "si: the `:.{k}f` rounding of the mantissa and the unit suffix are checked at run time only (oracle); the model returns the "
    "unrounded mantissa",
    "TypeError of db/dbm on non-numeric input is checked by the oracle only",
    "positional twins (documented argument order) and result-aliasing (a modified result must not reappear in a later call) are "
    "run-time clauses (oracle only)",
    "astype(int) of a parsed float beyond the int64 range is undefined in numpy (model: excluded point `Other`, not compared)",
    "Q: scipy's erfc is assumed to be the Gaussian tail (QSpec); the oracle checks symmetry/monotonicity/Q(0) numerically",
    "theorems over R say nothing about floating-point rounding; float clauses are checked at 1e-9*scale (+1e-12 only for the O(1) "
    "quantities formed by cancellation: dB values and rcos; idb/idbm/gaus/Q are purely relative)",
]
ASSUMPTIONS = [
    "a Python float stands for the decimal value of its shortest repr in the si model (same convention as the translated literals), "
    "so float and rational comparisons against the ladder agree",
    "numpy 1.26 parses '<U' strings under dtype=int/float/complex with Python's int()/float()/complex(), and '<U1' -> bool with int()",
    "`\\s` of re on str and str.strip() use str.isspace()",
    "the driver evaluates the same Lean definitions the theorems are about",
]
BUDGET = {"quick": 120, "thorough": 900}
EXHAUSTIVE = {"quick": False, "thorough": False}

TOL_REL, TOL_ABS = 1e-9, 1e-12
SI_POW = {"f": -15, "p": -12, "n": -9, "u": -6, "μ": -6, "µ": -6, "m": -3, "": 0, "k": 3, "M": 6, "G": 9, "T": 12}
UNITS = ["s", "m", "Hz", "rad", "bit", "byte", "W", "V", "A", "F", "H", "Ohm"]
WS_ALL = [9, 10, 11, 12, 13, 28, 29, 30, 31, 32, 0x85, 0xA0, 0x1680, 0x2000, 0x2005, 0x200A, 0x2028, 0x2029, 0x202F, 0x205F, 0x3000]
DT = {"none": None, "bool": bool, "int": int, "float": float, "complex": complex}


def close(a, b, scale=None, floor=TOL_ABS):
    """|a-b| <= 1e-9*scale + floor.  `floor=0` (purely relative) for quantities that span decades (idb, idbm, gaus, Q);
    the absolute floor is kept only where the value is an O(1) quantity formed by cancellation (dB values, rcos)."""
    if isinstance(a, complex) or isinstance(b, complex):
        return close(complex(a).real, complex(b).real) and close(complex(a).imag, complex(b).imag)
    if math.isnan(a) or math.isnan(b):
        return math.isnan(a) and math.isnan(b)
    if math.isinf(a) or math.isinf(b):
        return a == b
    s = max(abs(a), abs(b)) if scale is None else scale
    # 1e-300: below the normal range of binary64 a result is subnormal or flushed to zero and has no relative accuracy
    return abs(a - b) <= TOL_REL * s + floor + 1e-300


def dec_frac(x):
    """decimal value of the shortest repr of a float (ints exactly)"""
    if isinstance(x, bool):
        return Fraction(int(x))
    if isinstance(x, int):
        return Fraction(x)
    return Fraction(Decimal(repr(float(x))))


def enc_rat(q):
    q = Fraction(q)
    return str(q.numerator) if q.denominator == 1 else f"{q.numerator}/{q.denominator}"


# ---------------------------------------------------------------------------------------------------------------
# generators
# ---------------------------------------------------------------------------------------------------------------

def _fmt_int(v):
    return str(v)


def _render(rows, fmt, esep, rsep):
    return rsep.join(esep.join(fmt(v) for v in r) for r in rows)


def _rand_array(rng, kind):
    one_d = rng.random() < 0.5
    r = 1 if one_d else rng.randint(2, 3)
    c = rng.randint(1, 6)
    def val():
        if kind == "bits":
            return rng.randint(0, 1)
        if kind == "int":
            t = rng.random()
            if t < 0.15:
                return rng.choice([0, 1, 10, 11, 100, 101])
            if t < 0.25:
                return rng.choice([2 ** 63 - 1, -2 ** 63, 2 ** 62, -1, 9, -9])
            return rng.randint(-10 ** rng.randint(1, 12), 10 ** rng.randint(1, 12))
        if kind == "float":
            return round(rng.uniform(-1, 1) * 10 ** rng.randint(0, 6), rng.randint(1, 6))
        return [round(rng.uniform(-1, 1) * 10 ** rng.randint(0, 4), 3), round(rng.uniform(-1, 1) * 10 ** rng.randint(0, 4), 3)]
    return [[val() for _ in range(c)] for _ in range(r)]


def _texts(rng, n):
    cases = []
    esp = [", ", " ", ","]
    rsp = ["; ", ";", " ; "]
    dts = ["none", "none", "int", "float", "complex", "bool"]
    for _ in range(n):
        kind = rng.choice(["bits", "int", "int", "float", "float", "complex"])
        rows = _rand_array(rng, kind)
        es, rs = rng.choice(esp), rng.choice(rsp)
        dec = rng.randint(1, 6)
        undelim = False
        if kind in ("bits", "int"):
            fmt = (lambda v: format(v, "+d")) if (kind == "int" and rng.random() < 0.2) else _fmt_int   # explicit sign
            text = _render(rows, fmt, es, rs)
            if kind == "bits" and rng.random() < 0.5:
                text = rs.join("".join(str(v) for v in r) for r in rows)     # undelimited bit pattern
                undelim = True
        elif kind == "float":
            text = _render(rows, lambda v: format(v, f".{dec}f"), es, rs)
        else:
            unit = rng.choice("ij")
            style = rng.random()
            def fc(z, unit=unit, style=style):
                if style < 0.2 and z[1] == 0:
                    return format(z[0], ".3f")
                if style < 0.3:
                    return format(z[1], ".3f") + unit
                return format(z[0], ".3f") + format(z[1], "+.3f") + unit
            text = _render(rows, fc, es, rs)
        cases.append({"kind": "s2a", "sub": "render", "vk": kind, "rows": rows, "text": text, "dtype": rng.choice(dts),
                      "dec": dec, "undelim": undelim})
    return cases


BAD_TOKENS = ["1-2", "--1", "+", "-", ".", "1.2.3", "2j+1", "jj", "1+2", "1j2", "+-1", "1+-2j", "j1", "1..", "", "1+2jj",
              "9223372036854775808", "-9223372036854775809", "99999999999999999999", "9223372036854775807",
              "-9223372036854775808", "007", "-0", "+5", "1.", ".5", "+.5", "-.5j", "j", "-j", "+j", "1+j", "1-i", "5.j",
              "1.5+.5j", "+1-2j", "0.1", "10", "01"]
FOREIGN = list("abexE_()[]/*'\"#:") + ["é", "１", "٣", "\x00", "\x7f", "J", "I"]


def _malformed(rng, n):
    cases = []
    for _ in range(n):
        t = rng.random()
        if t < 0.35:      # token soup
            k = rng.randint(1, 5)
            toks = [rng.choice(BAD_TOKENS) if rng.random() < 0.5 else str(rng.randint(-50, 50)) for _ in range(k)]
            text = rng.choice([" ", ",", ", ", "  ", " ,"]).join(toks)
            if rng.random() < 0.3:
                text += rng.choice([";", "; ", " ;"]) + rng.choice([" ", ","]).join(
                    str(rng.randint(0, 9)) for _ in range(rng.choice([k, k, rng.randint(0, 4)])))
        elif t < 0.55:    # random characters of the classes, plus separators at the ends
            alpha = "0011234567899 ,,;  +-.ji"
            text = "".join(rng.choice(alpha) for _ in range(rng.randint(0, 9)))
        elif t < 0.7:     # a foreign character somewhere in an otherwise valid text
            base = rng.choice(["1 2 3", "101", "1.5, 2.5", "1+2j 3", "1 0; 0 1", "7"])
            p = rng.randint(0, len(base))
            text = base[:p] + rng.choice(FOREIGN) + base[p:]
        elif t < 0.85:    # other white space (tabs, newlines, unicode blanks)
            base = rng.choice(["1 0 1", "10 2 3", "1.5 2", "1+j 2", "1 0;0 1", "3 4;5 6", " 1 ", "101"])
            text = "".join(chr(rng.choice(WS_ALL)) if (ch == " " and rng.random() < 0.7) else ch for ch in base)
            if rng.random() < 0.3:
                text = chr(rng.choice(WS_ALL)) + text + chr(rng.choice(WS_ALL))
        else:             # ragged / empty rows
            text = rng.choice(["1 2;3", "1;", ";", ";;", "1,2;3,4;5", " ", "", ",", "1,,2", ",1", "1,", "1;01", "10;1",
                               "1 2;3 99999999999999999999", "1 2;99999999999999999999", "1 x;2", ";1", "1 2 ; 3 4 ;"])
        cases.append({"kind": "s2a", "sub": "malformed", "text": text, "dtype": rng.choice(list(DT))})
    return cases


def _arr_form(rng, xs):
    """present a list of floats as one of the accepted containers"""
    f = rng.choice(["scalar", "list", "tuple", "ndarray", "npfloat"]) if len(xs) == 1 else rng.choice(["list", "tuple", "ndarray"])
    return f


def gen_cases(rng, tier):
    thorough = tier == "thorough"
    cases = []
    # --- dec2bin -------------------------------------------------------------------------------------------
    dmax = 16 if thorough else 10
    for d in range(0, dmax + 1):
        for v in range(0, 2 ** d):
            cases.append({"kind": "dec2bin", "v": v, "d": d})
        for v in [2 ** d, 2 ** d + 1, 2 ** (d + 1), 3 * 2 ** d + rng.randint(0, 7), -1, -rng.randint(2, 2 ** (d + 1))]:
            cases.append({"kind": "dec2bin", "v": v, "d": d})
    for d in [17, 31, 32, 33, 63, 64, 65, 80]:
        for v in [0, 1, 2 ** d - 1, 2 ** d, 2 ** (d - 1), rng.randrange(0, 2 ** d), rng.randrange(0, 2 ** d)]:
            cases.append({"kind": "dec2bin", "v": v, "d": d})
    for d in [-1, -5]:
        for v in [0, 3]:
            cases.append({"kind": "dec2bin", "v": v, "d": d})
    # --- si ------------------------------------------------------------------------------------------------
    xs = []
    for e in range(-16, 17):
        b = float(f"1e{e}")
        xs += [b, math.nextafter(b, 0.0), math.nextafter(b, math.inf)]
        for m in [1.5, 2.0, 9.994, 9.995, 99.95, 999.4, 999.95, 999.96]:
            xs.append(float(f"{m}e{e}"))
        for _ in range(4 if not thorough else 40):
            xs.append(10 ** rng.uniform(e, e + 1))
    xs += [0.0, 0, 1, 2, 999, 1000, 1001, 10 ** 6, 10 ** 12, 123456789, -1.0, -1e-20, 5e-16, 1e-17, 1e17, 1e20, 3.0e8]
    for x in xs:
        cases.append({"kind": "si", "x": x, "unit": rng.choice(UNITS), "k": rng.choice([0, 1, 1, 2, 3, 6])})
    # --- str2array -----------------------------------------------------------------------------------------
    cases += _texts(rng, 400 if not thorough else 6000)
    cases += _malformed(rng, 250 if not thorough else 4000)
    for text in ["101", "1 0 1; 0 1 0", "1 0 1 10", "10 100 1000", "1,0,1,0,1", "1 -2 1; 4,5,6", "1 -2 1; 4.1,5,6.4",
                 "1+j -2-j 1; 4.1,5,6.4", "1.1 2.2 3.3 4.4", "1+2j 3-4i", "1 2 3 4"]:
        for dt in DT:
            cases.append({"kind": "s2a", "sub": "doc", "text": text, "dtype": dt})
    # --- dB pairs ------------------------------------------------------------------------------------------
    n_db = 150 if not thorough else 3000
    for _ in range(n_db):
        k = rng.choice([1, 1, 2, 5])
        xs = [10 ** rng.uniform(-15, 15) for _ in range(k)]
        ys = [10 ** rng.uniform(-15, 15) for _ in range(k)]
        if rng.random() < 0.15:
            xs = [float(rng.randint(1, 1000)) for _ in range(k)]
        cases.append({"kind": "db", "x": xs, "y": ys, "form": _arr_form(rng, xs)})
    for xs in [[1.0], [1e-300], [1e300], [0.0], [0.001], [1000.0], [1.0, 10.0, 100.0], [5e-324], [2.0 ** -1000]]:
        cases.append({"kind": "db", "x": xs, "y": [1.0] * len(xs), "form": "list" if len(xs) > 1 else "scalar"})
    for _ in range(n_db):
        k = rng.choice([1, 1, 2, 5])
        ys = [rng.uniform(-300, 300) for _ in range(k)]
        if rng.random() < 0.2:
            ys = [float(rng.randint(-300, 300)) for _ in range(k)]
        cases.append({"kind": "idb", "y": ys, "form": _arr_form(rng, ys)})
    for ys in [[0.0], [-300.0], [300.0], [30.0], [-30.0], [10.0], [3.0]]:
        cases.append({"kind": "idb", "y": ys, "form": "scalar"})
    for _ in range(40 if not thorough else 400):
        k = rng.choice([1, 2, 4])
        xs = [10 ** rng.uniform(-6, 6) for _ in range(k)]
        xs[rng.randrange(k)] = -(10 ** rng.uniform(-15, 15))
        cases.append({"kind": "dbneg", "x": xs, "form": _arr_form(rng, xs)})
    # directed: one negative value of every magnitude decade 1e-15 ... 1e15, alone and mixed with positive elements
    for e in range(-15, 16):
        neg = -float(f"1e{e}") * rng.choice([1.0, 1.0, rng.uniform(1, 9.99)])
        cases.append({"kind": "dbneg", "x": [neg], "form": rng.choice(["scalar", "npfloat"])})
        k = rng.choice([2, 3, 6])
        xs = [10 ** rng.uniform(-15, 15) for _ in range(k)]
        xs[rng.randrange(k)] = neg
        cases.append({"kind": "dbneg", "x": xs, "form": ["list", "ndarray", "tuple"][(e + 15) % 3]})
    for neg in [-5e-324, -2.0 ** -1000, -1e-300, -1e300, -1.0, -1e-12, -9.99e-13, -1.0000001e-12]:
        cases.append({"kind": "dbneg", "x": [neg], "form": "scalar"})
        cases.append({"kind": "dbneg", "x": [1.0, neg, 1e-3], "form": rng.choice(["list", "ndarray"])})
    for bad in ["a", None, "1.0", {"a": 1}]:
        cases.append({"kind": "dbtype", "x": bad})
    # --- Q, gaus -------------------------------------------------------------------------------------------
    for _ in range(40 if not thorough else 600):
        k = rng.choice([1, 3, 9])
        xs = sorted({round(rng.uniform(-8, 8), rng.randint(0, 6)) for _ in range(k)})
        cases.append({"kind": "Q", "x": xs, "form": _arr_form(rng, xs)})
    cases.append({"kind": "Q", "x": [0.0], "form": "scalar"})
    cases.append({"kind": "Q", "x": [-8.0, -3.0, -1.0, -0.5, 0.0, 0.5, 1.0, 3.0, 8.0], "form": "ndarray"})
    cases.append({"kind": "Q", "x": [float(i) for i in range(-37, 38)], "form": "list"})
    for _ in range(40 if not thorough else 600):
        mu = rng.choice([None, 0.0, rng.uniform(-50, 50)])
        std = rng.choice([None, 1.0, 10 ** rng.uniform(-3, 3)])
        k = rng.choice([1, 4])
        m0, s0 = (0.0 if mu is None else mu), (1.0 if std is None else std)
        xs = [m0 + s0 * rng.uniform(-6, 6) for _ in range(k)]
        cases.append({"kind": "gaus", "x": xs, "mu": mu, "std": std, "form": _arr_form(rng, xs)})
    # --- rcos ----------------------------------------------------------------------------------------------
    for _ in range(60 if not thorough else 900):
        alpha = rng.choice([0, 0.0, 1, 1.0, 0.5, 0.25, round(rng.uniform(0.01, 1), 3), rng.uniform(0.0, 1.0)])
        T = rng.choice([1, 1.0, 0.5, 2, 2.0, 10 ** rng.uniform(-10, 3)])
        lo, hi = (1 - alpha) / (2 * T), (1 + alpha) / (2 * T)
        pts = [0.0, 1 / (2 * T), lo, hi, math.nextafter(lo, 0), math.nextafter(lo, math.inf), math.nextafter(hi, 0),
               math.nextafter(hi, math.inf), hi * 1.5, hi * (1 + 1e-6), lo * 0.5, (lo + hi) / 2, rng.uniform(0, 2 * hi),
               rng.uniform(lo, hi)]
        k = rng.choice([1, 3, 8])
        xs = [rng.choice(pts) * rng.choice([1, -1]) for _ in range(k)]
        cases.append({"kind": "rcos", "x": xs, "alpha": alpha, "T": T, "form": _arr_form(rng, xs)})
    for T, alpha in [(0.5, 0.5), (0.5, 1), (0.25, 0.3), (1, 0.5), (0.125, 1.0)]:   # integer-typed containers
        xs = list(range(-5, 6))
        for form in ["intlist", "intarray", "inttuple"]:
            cases.append({"kind": "rcos", "x": xs, "alpha": alpha, "T": T, "form": form})
        cases.append({"kind": "rcos", "x": [int(1 / (2 * T))], "alpha": alpha, "T": T, "form": "intscalar"})
    rng.shuffle(cases)
    return cases


# documented positional order of the anchored functions (literal copy of the signatures at /repo 8caea4c)
SIGNATURES = {"dec2bin": ["num", "digits"], "str2array": ["string", "dtype"], "si": ["x", "unit", "k"], "db": ["x"], "dbm": ["x"],
              "idb": ["x"], "idbm": ["x"], "Q": ["x"], "gaus": ["x", "mu", "std"], "rcos": ["x", "alpha", "T"]}


def _same(a, b):
    if isinstance(a, np.ndarray) or isinstance(b, np.ndarray) or isinstance(a, np.generic) or isinstance(b, np.generic):
        a, b = np.asarray(a), np.asarray(b)
        return a.dtype == b.dtype and a.shape == b.shape and bool(np.array_equal(a, b, equal_nan=(a.dtype.kind in "fc")))
    return type(a) is type(b) and (a == b or (a != a and b != b))


def _probe(U, name, args, notes):
    """call `name` positionally in the documented order; then (a) by keyword - must be bit-identical; (b) scribble on the
    returned array and call again - the new result must equal the first, unmodified one and share no memory with it.
    Returns an untouched copy of the first result."""
    f = getattr(U, name)
    r1 = f(*args)
    snap = r1.copy() if isinstance(r1, np.ndarray) else r1
    try:
        rk = f(**dict(zip(SIGNATURES[name], args)))
        if not _same(snap, rk):
            notes.append(["positional", name, f"{name}{tuple(SIGNATURES[name])} passed positionally gives {str(snap)[:60]}, by keyword {str(rk)[:60]}"])
    except Exception as e:  # noqa
        notes.append(["positional", name, f"keyword call {SIGNATURES[name]} failed: {type(e).__name__}: {e}"[:160]])
    if isinstance(r1, np.ndarray) and r1.size and r1.flags.writeable:
        if r1.dtype.kind == "b":
            r1[...] = ~r1
        elif r1.dtype.kind in "iu":
            r1[...] = r1 + 1
        else:
            r1[...] = -7.25
        r2 = f(*args)
        if not _same(snap, r2) or (isinstance(r2, np.ndarray) and np.shares_memory(r1, r2)):
            notes.append(["result-aliasing", name, f"{name}: after the first result was modified in place the next call returned "
                                                   f"{str(np.asarray(r2).ravel()[:8])[:80]}, first was {str(np.asarray(snap).ravel()[:8])[:80]}"])
    return snap


# ---------------------------------------------------------------------------------------------------------------
# running the real code
# ---------------------------------------------------------------------------------------------------------------

def _present(xs, form):
    if form == "scalar":
        return float(xs[0])
    if form == "npfloat":
        return np.float64(xs[0])
    if form == "intscalar":
        return int(xs[0])
    if form == "list":
        return [float(v) for v in xs]
    if form == "tuple":
        return tuple(float(v) for v in xs)
    if form == "intlist":
        return [int(v) for v in xs]
    if form == "inttuple":
        return tuple(int(v) for v in xs)
    if form == "intarray":
        return np.array([int(v) for v in xs])
    return np.array([float(v) for v in xs])


def _flat(v):
    a = np.asarray(v)
    return [float(t) for t in a.ravel()]


def _canon_arr(a):
    kind = a.dtype.kind
    if kind == "b":
        ty, ent = "bool", [[int(v), 0] for v in a.ravel()]
    elif kind in "iu":
        ty, ent = "int", [[int(v), 0] for v in a.ravel()]
    elif kind == "f":
        ty, ent = "float", [[float(v), 0.0] for v in a.ravel()]
    elif kind == "c":
        ty, ent = "complex", [[float(v.real), float(v.imag)] for v in a.ravel()]
    else:
        ty, ent = str(a.dtype), []
    return {"ty": ty, "dtype": str(a.dtype), "shape": list(a.shape), "data": ent}


def run_impl(case):
    import opticomlib.utils as U
    res = {}
    notes = []
    k = case["kind"]
    try:
        with warnings.catch_warnings():
            warnings.simplefilter("ignore")
            with time_limit(20):
                if k == "dec2bin":
                    out = _probe(U, "dec2bin", (case["v"], case["d"]), notes)
                    res.update(status="ok", bits="".join(str(int(b)) for b in out), dtype=str(out.dtype), n=len(out))
                elif k == "si":
                    out = _probe(U, "si", (case["x"], case["unit"], case["k"]), notes)
                    res.update(status="ok", out=out)
                elif k == "s2a":
                    dt = DT[case["dtype"]]
                    out = _probe(U, "str2array", (case["text"],) if dt is None else (case["text"], dt), notes)
                    res.update(status="ok", arr=_canon_arr(out))
                elif k == "db":
                    x = _present(case["x"], case["form"])
                    y = _present(case["y"], case["form"])
                    d = _probe(U, "db", (x,), notes)
                    dm = _probe(U, "dbm", (x,), notes)
                    res.update(status="ok", db=_flat(d), dbm=_flat(dm), idb_db=_flat(U.idb(d)), idbm_dbm=_flat(U.idbm(dm)),
                               db_y=_flat(U.db(y)), db_xy=_flat(U.db(np.asarray(x) * np.asarray(y)
                                                                   if not isinstance(x, float) else x * y)),
                               xy=_flat(np.asarray(x) * np.asarray(y)),
                               shape=list(np.shape(d)), scalar=bool(np.ndim(d) == 0))
                elif k == "idb":
                    y = _present(case["y"], case["form"])
                    v = _probe(U, "idb", (y,), notes)
                    w = _probe(U, "idbm", (y,), notes)
                    res.update(status="ok", idb=_flat(v), idbm=_flat(w), db_idb=_flat(U.db(v)), dbm_idbm=_flat(U.dbm(w)))
                elif k == "dbneg":
                    x = _present(case["x"], case["form"])
                    outs = {}
                    for name in ("db", "dbm"):
                        try:
                            getattr(U, name)(x)
                            outs[name] = "ok"
                        except Exception as e:  # noqa
                            outs[name] = exc_enum(e)
                    res.update(status="ok", outs=outs)
                elif k == "dbtype":
                    outs = {}
                    for name in ("db", "dbm"):
                        try:
                            getattr(U, name)(case["x"])
                            outs[name] = "ok"
                        except Exception as e:  # noqa
                            outs[name] = exc_enum(e)
                    res.update(status="ok", outs=outs)
                elif k == "Q":
                    log = []
                    real_sp = U.sp

                    class Shim:
                        def __getattr__(self, n):
                            return getattr(real_sp, n)

                        def erfc(self, a):
                            v = real_sp.erfc(a)
                            log.append((_flat(a), _flat(v)))
                            return v
                    U.sp = Shim()
                    try:
                        x = _present(case["x"], case["form"])
                        q = _probe(U, "Q", (x,), notes)
                        qn = U.Q(-np.asarray(x) if not isinstance(x, float) else -x)
                    finally:
                        U.sp = real_sp
                    res.update(status="ok", q=_flat(q), qneg=_flat(qn), erfc_arg=log[0][0] if log else None, erfc_val=log[0][1] if log else None,
                               n_erfc_calls=len(log))
                elif k == "gaus":
                    x = _present(case["x"], case["form"])
                    g = _probe(U, "gaus", (x, case["mu"], case["std"]), notes)
                    mu = 0.0 if case["mu"] is None else case["mu"]
                    sd = 1.0 if case["std"] is None else case["std"]
                    grid = np.linspace(mu - 12 * sd, mu + 12 * sd, 4001)
                    gg = U.gaus(grid, case["mu"], case["std"])
                    integral = float(np.sum((gg[1:] + gg[:-1]) * 0.5 * np.diff(grid)))
                    res.update(status="ok", g=_flat(g), integral=integral)
                elif k == "rcos":
                    x = _present(case["x"], case["form"])
                    r = _probe(U, "rcos", (x, case["alpha"], case["T"]), notes)
                    xm = -x if isinstance(x, (int, float)) else (-np.asarray(x) if isinstance(x, np.ndarray)
                                                                  else type(x)(-v for v in x))
                    rm = U.rcos(xm, case["alpha"], case["T"])
                    res.update(status="ok", r=_flat(r), rneg=_flat(rm), dtype=str(np.asarray(r).dtype))
                    if not isinstance(x, (int, float)):
                        res["scalar_ref"] = [float(U.rcos(float(t), case["alpha"], case["T"])) for t in case["x"]]
                else:
                    res.update(status="err", err="Other", detail="unknown kind")
    except Timeout as e:
        res.update(status="timeout", detail=str(e))
    except Exception as e:  # noqa
        res.update(status="err", err=exc_enum(e), detail=repr(e)[:200])
    res["notes"] = notes
    return res


# ---------------------------------------------------------------------------------------------------------------
# model side
# ---------------------------------------------------------------------------------------------------------------

def model_requests(case, res):
    k = case["kind"]
    if res["status"] == "timeout":
        return []
    if k == "dec2bin":
        return [f"dec2bin {case['v']} {case['d']}"]
    if k == "si":
        return [f"si {enc_rat(dec_frac(case['x']))}"]
    if k == "s2a":
        cps = [ord(c) for c in case["text"]]
        return [f"str2array {case['dtype']} {len(cps)} " + " ".join(map(str, cps)),
                f"str2array.type {len(cps)} " + " ".join(map(str, cps))]
    if k == "db" and res["status"] == "ok":
        out = []
        for x in case["x"]:
            out += [f"conv.db {enc_f(x)}", f"conv.dbm {enc_f(x)}"]
        for v in res["db"]:
            out.append(f"conv.idb {enc_f(v)}")
        for v in res["dbm"]:
            out.append(f"conv.idbm {enc_f(v)}")
        return out
    if k == "idb" and res["status"] == "ok":
        out = []
        for y in case["y"]:
            out += [f"conv.idb {enc_f(y)}", f"conv.idbm {enc_f(y)}"]
        return out
    if k == "dbneg":
        return [f"conv.db {enc_f(x)}" for x in case["x"]] + [f"conv.dbm {enc_f(x)}" for x in case["x"]]
    if k == "Q" and res["status"] == "ok" and res["erfc_val"] is not None:      # no erfc call spied: oracle only
        return [f"conv.q {enc_f(x)} {enc_f(v)}" for x, v in zip(case["x"], res["erfc_val"])]
    if k == "gaus" and res["status"] == "ok":
        mu = 0.0 if case["mu"] is None else case["mu"]
        sd = 1.0 if case["std"] is None else case["std"]
        return [f"conv.gaus {enc_f(x)} {enc_f(mu)} {enc_f(sd)}" for x in case["x"]]
    if k == "rcos" and res["status"] == "ok":
        return [f"conv.rcos {enc_f(x)} {enc_f(case['alpha'])} {enc_f(case['T'])}" for x in case["x"]]
    return []


def _mfloat(rep):
    t = rep.split()
    if t[0] != "ok":
        return None
    return u2f(int(t[1]))


def _cmp_floats(name, reps, vals, floor=TOL_ABS):
    out = []
    for i, (rep, v) in enumerate(zip(reps, vals)):
        m = _mfloat(rep)
        if m is None or not close(m, v, floor=floor):
            out.append(f"{name}[{i}]: model {rep if m is None else m!r}, implementation {v!r}")
    if len(reps) != len(vals):
        out.append(f"{name}: {len(reps)} model values, {len(vals)} implementation values")
    return out


def _si_parse(out, unit):
    """'<mantissa> <prefix><unit>' -> (mantissa text, prefix) or None"""
    if not isinstance(out, str) or " " not in out:
        return None
    m, rest = out.split(" ", 1)
    if not rest.endswith(unit):
        return None
    return m, rest[: len(rest) - len(unit)]


def compare(case, res, reqs, replies):
    if not reqs:
        return []
    k = case["kind"]
    if res["status"] == "err" and k in ("dec2bin", "si", "s2a"):
        want = f"err {res['err']}"
        return [] if replies[0] == want else [f"model says {replies[0][:100]!r}, implementation {want!r}"]
    if res["status"] != "ok":
        return [f"implementation failed ({res}) where the model was asked {reqs[0][:60]}"]
    if k == "dec2bin":
        want = "ok " + (res["bits"] if res["bits"] else "-")
        return [] if replies[0] == want else [f"model says {replies[0][:100]!r}, implementation {want[:100]!r}"]
    if k == "si":
        rep = replies[0].split()
        out = res["out"]
        if rep[:2] == ["ok", "none"]:
            return [] if out is None else [f"model: None, implementation {out!r}"]
        if rep[:2] == ["ok", "zero"]:
            return [] if out == f"0 {case['unit']}" else [f"model: '0 unit', implementation {out!r}"]
        if rep[:2] != ["ok", "row"]:
            return [f"model reply {replies[0]!r}"]
        p = _si_parse(out, case["unit"])
        if p is None:
            return [f"model: a mantissa/prefix row, implementation {out!r}"]
        pfx = "" if rep[2] == "_" else "".join(chr(int(c)) for c in rep[2].split("."))
        m = Fraction(rep[3])
        bad = []
        if p[1] != pfx:
            bad.append(f"prefix: model {pfx!r}, implementation {p[1]!r}")
        try:
            printed = Fraction(Decimal(p[0]))
            if not abs(printed - m) <= Fraction(1, 2) * Fraction(10) ** (-case["k"]) + abs(m) * Fraction(1, 10 ** 15):
                bad.append(f"mantissa: model {float(m)!r} (unrounded), implementation printed {p[0]!r} with k={case['k']}")
            dec = p[0].split(".")[1] if "." in p[0] else ""
            if len(dec) != case["k"]:
                bad.append(f"mantissa {p[0]!r} does not have {case['k']} decimals")
        except Exception:  # noqa
            bad.append(f"mantissa text {p[0]!r}")
        return bad
    if k == "s2a":
        a = res["arr"]
        t = replies[0].split()
        bad = []
        if replies[0] == "err Other" and case["dtype"] == "int" and any(abs(e[0]) == 2 ** 63 for e in a["data"]):
            return []      # astype(int) of a float beyond int64: undefined in C/numpy, excluded point of the model
        if t[0] != "ok":
            return [f"model says {replies[0][:80]!r}, implementation returned {a['ty']}{a['shape']}"]
        ty, nd = t[1], int(t[2])
        shape = [int(v) for v in t[3:3 + nd]]
        n = int(t[3 + nd])
        ent = t[4 + nd:]
        if ty != a["ty"] or shape != a["shape"] or n != len(a["data"]):
            return [f"model {ty}{shape}, implementation {a['dtype']}{a['shape']}"]
        for i in range(n):
            re_, im_ = Fraction(ent[2 * i]), Fraction(ent[2 * i + 1])
            ire, iim = a["data"][i]
            if ty in ("bool", "int"):
                ok = (re_ == ire and im_ == 0)
                # excluded point (PARTIAL): a token whose binary64 value is >= 2^63 in magnitude (e.g. 9223372036854775807
                # read through the float/complex parser of a mixed text) has no defined astype(int); numpy yields INT64_MIN
                if not ok and ty == "int" and abs(float(re_)) >= 2.0 ** 63 and ire == -2 ** 63:
                    ok = True
            else:
                ok = (float(re_) == ire and float(im_) == iim)
            if not ok:
                bad.append(f"entry {i}: model ({float(re_)!r},{float(im_)!r}), implementation ({ire!r},{iim!r})")
                break
        return bad
    if k == "db":
        n = len(case["x"])
        m_db = [replies[2 * i] for i in range(n)]
        m_dbm = [replies[2 * i + 1] for i in range(n)]
        return (_cmp_floats("db", m_db, res["db"]) + _cmp_floats("dbm", m_dbm, res["dbm"])
                + _cmp_floats("idb(db)", replies[2 * n:3 * n], res["idb_db"], 0.0)
                + _cmp_floats("idbm(dbm)", replies[3 * n:4 * n], res["idbm_dbm"], 0.0))
    if k == "idb":
        n = len(case["y"])
        return (_cmp_floats("idb", [replies[2 * i] for i in range(n)], res["idb"], 0.0)
                + _cmp_floats("idbm", [replies[2 * i + 1] for i in range(n)], res["idbm"], 0.0))
    if k == "dbneg":
        n = len(case["x"])
        bad = []
        for name, reps in (("db", replies[:n]), ("dbm", replies[n:])):
            merr = any(r == "err ValueError" for r in reps)
            if merr != (res["outs"][name] == "ValueError"):
                bad.append(f"{name}: model raises ValueError={merr}, implementation {res['outs'][name]}")
        return bad
    if k == "Q":
        bad = []
        for i, rep in enumerate(replies):
            t = rep.split()
            arg, val = u2f(int(t[1])), u2f(int(t[2]))
            if not close(arg, res["erfc_arg"][i]):
                bad.append(f"erfc argument[{i}]: model {arg!r}, implementation {res['erfc_arg'][i]!r}")
            if not close(val, res["q"][i], floor=0.0):
                bad.append(f"Q[{i}]: model {val!r}, implementation {res['q'][i]!r}")
        return bad
    if k == "gaus":
        return _cmp_floats("gaus", replies, res["g"], 0.0)
    if k == "rcos":
        return _cmp_floats("rcos", replies, res["r"])
    return []


# ---------------------------------------------------------------------------------------------------------------
# oracle: the property on what the real code returned (independent of the Lean model)
# ---------------------------------------------------------------------------------------------------------------

def _expected_render(case):
    """what the statement demands for a rendered array: (dtype kind, shape, values) or None if not demanded"""
    rows, vk, dt, text = case["rows"], case["vk"], case["dtype"], case["text"]
    one_d = len(rows) == 1
    shape = [len(rows[0])] if one_d else [len(rows), len(rows[0])]
    only_bits = all(ch in "01,; " for ch in text)
    flat = [v for r in rows for v in r]
    if vk in ("bits", "int"):
        if only_bits and dt in ("none", "bool"):
            # digit-by-digit bit pattern, row by row
            brow = [[int(ch) for ch in "".join(str(v) for v in r)] for r in rows]
            if len({len(b) for b in brow}) != 1:
                return None            # ragged bit rows: not covered by the statement
            shp = [len(brow[0])] if one_d else [len(brow), len(brow[0])]
            return "b", shp, [bool(v) for b in brow for v in b]
        if case.get("undelim"):
            return None                # an undelimited digit string read as numbers: not the rendered array
        base = np.array(flat, dtype=np.int64)
    elif vk == "float":
        toks = [format(v, f".{case['dec']}f") for v in flat]
        base = np.array([float(t) for t in toks], dtype=float)
    else:
        return "complex?", shape, None     # checked against complex(token) below
    tgt = {"none": base.dtype, "bool": bool, "int": np.int64, "float": float, "complex": complex}[dt]
    with warnings.catch_warnings():
        warnings.simplefilter("ignore")
        exp = base.astype(tgt)
    return exp.dtype.kind, shape, exp.tolist()


def oracle(case, res):
    k = case["kind"]
    v = []
    if res["status"] == "timeout":
        return [(f"C19:{k}:timeout", f"{k} did not return on {str(case)[:120]}")]
    for kind_, func, msg in res.get("notes", []):
        v.append((f"C19:{kind_}:{func}", msg))
    if k == "dec2bin":
        val, d = case["v"], case["d"]
        if d < 0 or val < 0:
            return v                                   # outside the quantifier (0 <= v, d a digit count)
        if val >= 2 ** d:
            if not (res["status"] == "err" and res["err"] == "ValueError"):
                v.append(("C19:dec2bin:reject", f"dec2bin({val},{d}) must raise ValueError, got {str(res)[:100]}"))
            return v
        if res["status"] != "ok":
            return [("C19:dec2bin:accept", f"dec2bin({val},{d}) failed: {res}")]
        want = format(val, "b").zfill(d) if d > 0 else ""
        if res["bits"] != want or res["n"] != d:
            v.append(("C19:dec2bin:digits", f"dec2bin({val},{d}) = {res['bits']!r}, required {want!r}"))
        if sum(int(b) << (d - 1 - i) for i, b in enumerate(res["bits"])) != val:
            v.append(("C19:dec2bin:value", f"dec2bin({val},{d}) does not sum to {val}"))
        return v
    if k == "si":
        x = case["x"]
        xf = dec_frac(x)
        if xf < Fraction(1, 10 ** 15):
            return v                                   # outside the quantifier
        if res["status"] != "ok":
            return [("C19:si:accept", f"si({x!r}) failed: {res}")]
        p = _si_parse(res["out"], case["unit"])
        if p is None or p[1] not in SI_POW:
            return [("C19:si:shape", f"si({x!r},{case['unit']!r},{case['k']}) = {res['out']!r}: not '<mantissa> <prefix><unit>'")]
        pw = SI_POW[p[1]]
        try:
            printed = Fraction(Decimal(p[0]))
        except Exception:  # noqa
            return [("C19:si:mantissa-text", f"si({x!r}) = {res['out']!r}")]
        scale = Fraction(10) ** pw
        exact_x = Fraction(x) if not isinstance(x, int) else Fraction(x)
        half_unit = Fraction(1, 2) * Fraction(10) ** (-case["k"])
        # printed mantissa * 10^p gives back x to the printed precision (float product x*S adds a few ulps)
        if not abs(printed * scale - exact_x) <= (half_unit + abs(printed) * Fraction(1, 10 ** 14)) * scale:
            v.append(("C19:si:value", f"si({x!r},k={case['k']}) = {res['out']!r}: {p[0]}e{pw} is not x to the printed precision"))
        m = xf / scale
        if xf < 10 ** 15 and not (1 <= m < 1000):
            v.append(("C19:si:mantissa-range", f"si({x!r}) = {res['out']!r}: unrounded mantissa {float(m)!r} not in [1,1000)"))
        return v
    if k == "s2a":
        text, dt = case["text"], case["dtype"]
        allowed = set("0123456789,;.+-ji")
        foreign = [ch for ch in text if ch not in allowed and not ch.isspace()]
        if foreign:
            if not (res["status"] == "err" and res["err"] == "ValueError"):
                v.append(("C19:str2array:foreign-char", f"str2array({text!r}) with {foreign[0]!r} must raise ValueError, got {str(res)[:100]}"))
            return v
        if case["sub"] == "doc":
            return v
        if case["sub"] != "render":
            return v
        exp = _expected_render(case)
        if exp is None:
            return v
        if res["status"] != "ok":
            return [("C19:str2array:accept", f"str2array({text!r}, {dt}) failed: {res.get('err')} {res.get('detail', '')[:80]}")]
        a = res["arr"]
        kind, shape, vals = exp
        got_kind = {"bool": "b", "int": "i", "float": "f", "complex": "c"}.get(a["ty"], "?")
        if kind == "complex?":
            toks = [t for t in text.replace("i", "j").replace(";", " ").replace(",", " ").split()]
            base = np.array([complex(t) for t in toks], dtype=complex)
            tgt = {"none": complex, "bool": bool, "int": np.int64, "float": float, "complex": complex}[dt]
            with warnings.catch_warnings():
                warnings.simplefilter("ignore")
                e = base.astype(tgt)
            kind, vals = e.dtype.kind, e.tolist()
        if got_kind != kind or a["shape"] != shape:
            return [("C19:str2array:type-shape", f"str2array({text!r}, {dt}) -> {a['dtype']}{a['shape']}, required kind {kind}{shape}")]
        got = [complex(p[0], p[1]) if kind == "c" else p[0] for p in a["data"]]
        if kind == "b":
            got = [bool(g) for g in got]
        if len(got) != len(vals) or any(g != w for g, w in zip(got, vals)):
            v.append(("C19:str2array:values", f"str2array({text!r}, {dt}) -> {got[:8]}, required {vals[:8]}"))
        return v
    if k == "db":
        if any(x < 0 for x in case["x"]):
            return v
        if res["status"] != "ok":
            return [("C19:db:accept", f"db/dbm({case['x']!r} as {case['form']}) failed: {res}")]
        n = len(case["x"])
        if case["form"] in ("scalar", "npfloat") and not res["scalar"]:
            v.append(("C19:db:scalar", "scalar input did not give a scalar"))
        for i, x in enumerate(case["x"]):
            if x <= 0:
                continue
            d, dm = res["db"][i], res["dbm"][i]
            if not (math.isfinite(d) and math.isfinite(dm)):
                v.append(("C19:db:non-finite", f"db({x!r}) = {d!r}, dbm({x!r}) = {dm!r} for a positive finite x"))
                continue
            if not close(d, 10 * math.log10(x), max(1.0, abs(d))):
                v.append(("C19:db:value", f"db({x!r}) = {d!r}"))
            if not close(dm, d + 30, max(30.0, abs(d))):
                v.append(("C19:dbm=db+30", f"dbm({x!r}) = {dm!r}, db+30 = {d + 30!r}"))
            if math.isfinite(d) and not close(res["idb_db"][i], x, abs(x), 0.0):
                v.append(("C19:idb(db)", f"idb(db({x!r})) = {res['idb_db'][i]!r}"))
            if math.isfinite(dm) and not close(res["idbm_dbm"][i], x, abs(x), 0.0):
                v.append(("C19:idbm(dbm)", f"idbm(dbm({x!r})) = {res['idbm_dbm'][i]!r}"))
            y = case["y"][i]
            xy = res["xy"][i]
            if 0 < xy < math.inf and x * y == xy:
                s = max(abs(res["db"][i]), abs(res["db_y"][i]), 1.0)
                if not close(res["db_xy"][i], res["db"][i] + res["db_y"][i], s):
                    v.append(("C19:db(x*y)", f"db({x!r}*{y!r}) = {res['db_xy'][i]!r}, db x + db y = {res['db'][i] + res['db_y'][i]!r}"))
        # the dB scale preserves order (theorem db_strict_mono); judged with the rounding of 10*log10 allowed for
        pos = sorted((x, res["db"][i]) for i, x in enumerate(case["x"]) if x > 0 and math.isfinite(res["db"][i]))
        for (x1, d1), (x2, d2) in zip(pos, pos[1:]):
            if x1 < x2 and d1 > d2 + 1e-12 * max(1.0, abs(d1), abs(d2)):
                v.append(("C19:db:monotone", f"{x1!r} < {x2!r} but db = {d1!r} > {d2!r}"))
                break
        return v
    if k == "idb":
        if res["status"] != "ok":
            return [("C19:idb:accept", f"idb/idbm({case['y']!r}) failed: {res}")]
        for i, y in enumerate(case["y"]):
            if math.isnan(res["idb"][i]) or math.isnan(res["idbm"][i]):
                v.append(("C19:idb:nan", f"idb({y!r}) = {res['idb'][i]!r}, idbm({y!r}) = {res['idbm'][i]!r}"))
                continue
            if not close(res["idb"][i], 10 ** (y / 10), abs(10 ** (y / 10)), 0.0):
                v.append(("C19:idb:value", f"idb({y!r}) = {res['idb'][i]!r}"))
            if not close(res["idbm"][i], 10 ** (y / 10 - 3), abs(10 ** (y / 10 - 3)), 0.0):
                v.append(("C19:idbm:value", f"idbm({y!r}) = {res['idbm'][i]!r}"))
            if 0 < res["idb"][i] < math.inf and not close(res["db_idb"][i], y, max(1.0, abs(y))):
                v.append(("C19:db(idb)", f"db(idb({y!r})) = {res['db_idb'][i]!r}"))
            if 0 < res["idbm"][i] < math.inf and not close(res["dbm_idbm"][i], y, max(1.0, abs(y))):
                v.append(("C19:dbm(idbm)", f"dbm(idbm({y!r})) = {res['dbm_idbm'][i]!r}"))
        # idb is positive and order preserving (theorems idb_add, idb_strict_mono)
        fin = sorted((y, res["idb"][i]) for i, y in enumerate(case["y"]) if not math.isnan(res["idb"][i]))
        if any(g < 0 for _, g in fin):
            v.append(("C19:idb:sign", f"idb returned a negative value: {[g for _, g in fin if g < 0][:3]}"))
        for (y1, g1), (y2, g2) in zip(fin, fin[1:]):
            if y1 < y2 and math.isfinite(g1) and g1 > g2 * (1 + 1e-12):
                v.append(("C19:idb:monotone", f"{y1!r} < {y2!r} but idb = {g1!r} > {g2!r}"))
                break
        return v
    if k == "dbneg":
        if res["status"] != "ok":
            return [("C19:dbneg:run", str(res))]
        for name in ("db", "dbm"):
            if res["outs"][name] != "ValueError":
                v.append((f"C19:{name}:negative", f"{name}({case['x']!r} as {case['form']}) must raise ValueError, got {res['outs'][name]}"))
        return v
    if k == "dbtype":
        for name in ("db", "dbm"):
            if res.get("outs", {}).get(name) != "TypeError":
                v.append((f"C19:{name}:type", f"{name}({case['x']!r}) must raise TypeError, got {res.get('outs')}"))
        return v
    if k == "Q":
        if res["status"] != "ok":
            return [("C19:Q:accept", f"Q({case['x']!r}) failed: {res}")]
        xs, q, qn = case["x"], res["q"], res["qneg"]
        for i, x in enumerate(xs):
            if not abs(q[i] + qn[i] - 1) <= 1e-12:
                v.append(("C19:Q:symmetry", f"Q({x!r})+Q({-x!r}) = {q[i] + qn[i]!r}"))
            if x == 0 and not q[i] == 0.5:
                v.append(("C19:Q:zero", f"Q(0) = {q[i]!r}"))
            if not (0 <= q[i] <= 1):
                v.append(("C19:Q:range", f"Q({x!r}) = {q[i]!r}"))
            ref = 0.5 * math.erfc(x / math.sqrt(2.0))
            if not close(q[i], ref, floor=1e-300):
                v.append(("C19:Q:value", f"Q({x!r}) = {q[i]!r}, 0.5*erfc(x/sqrt2) = {ref!r}"))
        order = sorted(range(len(xs)), key=lambda i: xs[i])
        for a, b in zip(order, order[1:]):
            if xs[a] < xs[b] and not (q[a] >= q[b]):
                v.append(("C19:Q:decreasing", f"Q({xs[a]!r}) = {q[a]!r} < Q({xs[b]!r}) = {q[b]!r}"))
            if xs[b] - xs[a] >= 1e-6 and abs(xs[a]) <= 5 and abs(xs[b]) <= 5 and not (q[a] > q[b]):
                v.append(("C19:Q:strictly-decreasing", f"Q({xs[a]!r}) = {q[a]!r}, Q({xs[b]!r}) = {q[b]!r}"))
        return v
    if k == "gaus":
        if res["status"] != "ok":
            return [("C19:gaus:accept", f"gaus failed: {res}")]
        if not abs(res["integral"] - 1) <= 1e-9:
            v.append(("C19:gaus:integral", f"integral of gaus(mu={case['mu']},std={case['std']}) = {res['integral']!r}"))
        mu = 0.0 if case["mu"] is None else case["mu"]
        sd = 1.0 if case["std"] is None else case["std"]
        for x, g in zip(case["x"], res["g"]):
            ref = math.exp(-0.5 * ((x - mu) / sd) ** 2) / (sd * math.sqrt(2 * math.pi))
            if not close(g, ref, floor=1e-300):
                v.append(("C19:gaus:value", f"gaus({x!r},{mu!r},{sd!r}) = {g!r}, reference {ref!r}"))
        return v
    if k == "rcos":
        if res["status"] != "ok":
            return [("C19:rcos:accept", f"rcos({case['x']!r} as {case['form']}, {case['alpha']}, {case['T']}) failed: {res}")]
        al, T = case["alpha"], case["T"]
        r, rn = res["r"], res["rneg"]
        hi = Fraction(1 + Fraction(al)) / (2 * Fraction(T))
        if len(r) != len(case["x"]):
            return [("C19:rcos:shape", f"{len(r)} values for {len(case['x'])} inputs")]
        if case["form"].startswith("int") and case["form"] != "intscalar":
            import opticomlib.utils as U
            ref = _flat(U.rcos(np.array([float(x) for x in case["x"]]), al, T))
            if any(not close(a, b) for a, b in zip(r, ref)):
                v.append(("C19:rcos-int-array", f"rcos({case['x']!r} as {case['form']}, {al}, {T}) = {r}, on the same values as floats {ref}"))
        if "scalar_ref" in res and any(not close(a, b) for a, b in zip(r, res["scalar_ref"])):
            k0 = next(i for i, (a, b) in enumerate(zip(r, res["scalar_ref"])) if not close(a, b))
            v.append(("C19:rcos:array-vs-scalar", f"rcos({case['x'][k0]!r} inside a {case['form']}, {al}, {T}) = {r[k0]!r} "
                                                   f"but {res['scalar_ref'][k0]!r} as a scalar"))
        for i, x in enumerate(case["x"]):
            if not (0 <= r[i] <= 1):
                v.append(("C19:rcos:range", f"rcos({x!r},{al},{T}) = {r[i]!r}"))
            if r[i] != rn[i]:
                v.append(("C19:rcos:even", f"rcos({x!r}) = {r[i]!r}, rcos({-x!r}) = {rn[i]!r}"))
            if al > 0 and abs(x) == 1 / (2 * T) and not abs(r[i] - 0.5) <= 1e-9:
                v.append(("C19:rcos:half", f"rcos(1/(2T)={x!r},{al},{T}) = {r[i]!r}"))
            if al >= 0 and abs(Fraction(x)) > hi * (1 + Fraction(1, 10 ** 9)) and not r[i] == 0:
                v.append(("C19:rcos:zero-beyond", f"rcos({x!r},{al},{T}) = {r[i]!r} beyond (1+alpha)/(2T)"))
            if x == 0 and al < 1 and not r[i] == 1:
                v.append(("C19:rcos:centre", f"rcos(0,{al},{T}) = {r[i]!r}"))
        return v
    return v


def features(case, res):
    k = case["kind"]
    f = ["kind=" + k, "status=" + res["status"]]
    if res["status"] == "err":
        f.append(f"{k}:err=" + res["err"])
    if k == "dec2bin":
        f.append("dec2bin:d<=10" if case["d"] <= 10 else "dec2bin:d>10")
        if case["v"] < 0:
            f.append("dec2bin:negative")
    if k == "si" and res["status"] == "ok":
        p = _si_parse(res["out"], case["unit"])
        f.append("si:prefix=" + (p[1] if p else repr(res["out"])[:12]))
    if k == "s2a":
        f.append("s2a:" + case["sub"])
        f.append("s2a:dtype=" + case["dtype"])
        if res["status"] == "ok":
            f.append(f"s2a:out={res['arr']['ty']}/{len(res['arr']['shape'])}D")
    if "form" in case:
        f.append(f"{k}:form={case['form']}")
    return f


def nontrivial_key(case, res):
    if res["status"] != "ok":
        return None
    k = case["kind"]
    if k == "dec2bin":
        return (k, case["v"], case["d"]) if case["d"] > 0 else None
    if k == "si":
        return (k, repr(case["x"]), case["k"]) if res["out"] else None
    if k == "s2a":
        return (k, case["text"], case["dtype"]) if res["arr"]["data"] else None
    return (k, str(case.get("x", case.get("y"))), case.get("form"), str(case.get("alpha")), str(case.get("T")),
            str(case.get("mu")), str(case.get("std")))
