"""C13 — analytic BER and receiver-noise formulas match closed forms and each other."""
import math
import warnings

import numpy as np

from harness.common.wire import enc_f, enc_flist, enc_bool, exc_enum, Toks
from harness.common.watchdog import time_limit, Timeout

ID = "C13"
MANIFEST = {
    "text": "Lean 4 theorems (Props/C13.lean) over the generic model Model/Ber.lean (one definition: read at R:=Real for the proofs with "
            "the Gaussian tail Q as a parameter satisfying QSpec := antitone, Q x + Q(-x) = 1, 0 <= Q <= 1 — proved for the Gaussian "
            "measure (gaussQ_spec) — and run at R:=Float against ook / ppm / utils; the scalar receiver formulas of utils.p_ase, "
            "average_voltages, noise_variances, optimum_threshold, of the inner function of utils.theory_BER, the grid sizes "
            "1000/1000/1000/1000/5000 and EDFA's P_ase are translated from the source on every run into Gen/BerFormulas.lean): "
            "objective at the midpoint = Q(mu/2s) for equal sigmas and the objective is symmetric about the midpoint on a symmetric "
            "grid; every grid point lies in [lo,hi], so the grid minimum is >= every lower bound of the objective on the interval "
            "(never below the true minimum); 0 <= BER <= M/(2(M-1)) for ook/ppm hard/soft (soft: for every value of the integral in "
            "[0, sqrt(2 pi)], which the Gaussian-weighted integrand guarantees); grid minima are non-increasing in mu; estimators and "
            "thresholds depend on mu1-mu0 only (shift invariance), the threshold is a grid point in [mu0,mu1]; optimum_threshold "
            "solves (M-1) N(r;mu0,S0) = N(r;mu1,S1) (general branch under S0,S1>0, S0!=S1, discriminant >= 0; equal-variance "
            "branch = midpoint + S ln(M-1)/(mu1-mu0), the midpoint for OOK); the levels and the four variance terms computed inside "
            "utils.theory_BER are identical to average_voltages / noise_variances (both code paths translated separately) for "
            "amplified and unamplified receivers; sigma^2_PD[A^2] * R_L^2 = thermal / shot terms [V^2] of the utils model with B = fs/2 "
            "(PD formulas from Gen/PdTable.lean); utils.p_ase = EDFA's P_ase with f0 = c/wavelength, BW_opt = fs.  Tie: Float run of "
            "all formulas (Q at Float = series/continued-fraction erfc, compared with utils.Q) over the parameter box of the "
            "statement, scalar and vectorised; the integrand handed to scipy's quad is spied and compared point-wise.",
    "note": "soft_M2 (theorem): for M=2 the soft-decision value on the exact integral is Q(mu/sqrt(s0^2+s1^2)). Oracle-only (PARTIAL): soft <= hard, true "
            "minimum at the midpoint (needs convexity of Q, not part of QSpec), monotone decrease of utils.theory_BER with received "
            "power, agreement with an independent scipy evaluation (norm.sf, fine grids).  quad's result is an input of the model. "
            "ER = inf is exercised at Float only (theorems hold for every real er). Axioms: propext, Classical.choice, Quot.sound.",
    "technique": "Lean 4 proof over a generic numeric model with an abstract Gaussian tail (QSpec) + Mathlib's Gaussian measure for "
                 "non-vacuity; two code paths translated from source and proved equal; Float differential run",
    "design": "§5 C13",
}
GEN = ["BerFormulas", "PdTable"]
MODELS = ["OptiVerif.Model.Ber", "OptiVerif.Gen.BerFormulas", "OptiVerif.Model.Pd", "OptiVerif.Gen.PdTable"]
RULE = ("cases = Q points; (mu0,mu1,s0,s1) eyes with mu1-mu0 in (0,20*max s], equal and unequal sigmas, shifted twins, eye objects carrying extra "
        "attributes (a `threshold` inside / outside / at the edge of [mu0,mu1] or None, GET_EYE-like fields) and eyes measured by the real "
        "devices.GET_EYE on noisy OOK / PPM waveforms, M in {2..256} x "
        "hard/soft for ook/ppm THRESHOLD_EST / BER_analizer('estimator') / theory_BER (scalar and array arguments); receiver points "
        "P_avg in [-50,0] dBm, ER in [3,inf] dB, amplified (G in [0,40], NF in [3,10], BW_opt > BW_el) and unamplified (with and "
        "without G/NF/BW_opt given), r in (0,1], R_L in [10,1e4], T in [0,400], NF_el >= 0 for p_ase / average_voltages / "
        "noise_variances / theory_BER (ook, ppm hard/soft, optimum and given threshold, vectorised P_avg); optimum_threshold points "
        "(S0 != S1, S0 == S1, arrays); device twins (PD spied sigmas, EDFA ASE power); error cells. non-trivial = a value was "
        "returned and compared; distinct by all parameters")
PARTIAL = [
    "soft <= hard for every M: oracle against scipy. (soft = Q(mu/sqrt(s0^2+s1^2)) for M=2 IS a theorem now — soft_M2, via the "
    "convolution of Gaussian laws — for the exact value of the integral; that scipy's quad returns that value to 1.5e-8 stays an "
    "assumption checked by the oracle)",
    "for equal sigmas the true minimiser is the midpoint (so ook.theory_BER(mu,s,s) = Q(mu/2s) up to the grid error): needs convexity "
    "of Q, which QSpec does not contain; proved: value at the midpoint, symmetry of objective and grid, grid minimum >= infimum; "
    "oracle: |threshold - midpoint| <= half a grid step and value within the grid error of Q(mu/2s)",
    "utils.theory_BER decreases monotonically with received power: oracle (1 dB steps, relative slack 1e-3 for the grid); "
    "ppm soft decision non-increasing in mu: oracle (ook and ppm-hard grid minima are theorems)",
    "scipy.integrate.quad result is an input of the model (the integrand is compared point-wise); scipy.special.erfc is replaced at "
    "Float by a series/continued fraction compared with utils.Q to 1e-11 relative",
    "floating-point rounding: theorems over the reals; Float run agrees to 1e-9 relative (+1e-13 absolute where 1-(1-x) cancels)",
]
ASSUMPTIONS = [
    "scipy.special.erfc(x/sqrt 2)/2 is the Gaussian tail (QSpec proved for the Gaussian measure; numerically compared)",
    "scipy.integrate.quad returns the integral to its default tolerance 1.5e-8",
    "np.linspace(a,b,n)[k] = a + k (b-a)/(n-1), last point b; np.argmin returns the first minimum",
]
BUDGET = {"quick": 120, "thorough": 900}

MS = [2, 4, 8, 16, 32, 64, 128, 256]

# documented positional order of every anchored function (signatures of /repo HEAD 8caea4c, recorded as literals: NOT read from the
# code under test).  Each is called once positionally in this order and once purely by keyword; the results must be bit-identical.
POSITIONAL = {
    "ook.theory_BER": ["mu1", "s0", "s1"],
    "ook.THRESHOLD_EST": ["eye_obj"],
    "ook.BER_analizer": ["mode"],                      # (mode, **kargs): eye_obj is keyword-only by construction
    "ppm.theory_BER": ["mu1", "s0", "s1", "M", "decision"],
    "ppm.THRESHOLD_EST": ["eye_obj", "M"],
    "ppm.BER_analizer": ["mode"],
    "utils.p_ase": ["amplify", "wavelength", "G", "NF", "BW_opt"],
    "utils.average_voltages": ["P_avg", "modulation", "M", "ER", "amplify", "wavelength", "G", "NF", "BW_opt", "r", "R_L"],
    "utils.noise_variances": ["P_avg", "modulation", "M", "ER", "amplify", "wavelength", "G", "NF", "BW_opt", "r", "BW_el", "R_L", "T", "NF_el"],
    "utils.optimum_threshold": ["mu0", "mu1", "S0", "S1", "modulation", "M"],
    "utils.theory_BER": ["P_avg", "modulation", "M", "decision", "threshold", "ER", "amplify", "f0", "G", "NF", "BW_opt", "r", "BW_el",
                         "R_L", "T", "NF_el"],
}


# ------------------------------------------------------------------------------------------------
# generators
# ------------------------------------------------------------------------------------------------

def _eye(rng):
    s0 = 10 ** rng.uniform(-3, 0)
    kind = rng.choice(["equal", "equal", "unequal", "unequal", "very-unequal"])
    s1 = s0 if kind == "equal" else s0 * (rng.uniform(0.5, 2.5) if kind == "unequal" else rng.choice([0.1, 8.0]))
    smax = max(s0, s1)
    d = rng.choice([rng.uniform(0.05, 20.0), rng.uniform(2.0, 12.0), 20.0, 1.0]) * (s0 if rng.random() < 0.5 else smax)
    d = min(d, 20.0 * smax)
    mu0 = rng.choice([0.0, 0.0, rng.uniform(-1.0, 1.0), rng.uniform(0.0, 5.0) * d])
    return {"mu0": mu0, "mu1": mu0 + d, "s0": s0, "s1": s1}


def _extra(rng, e):
    """other attributes an eye object may carry (devices.GET_EYE stores ~30 of them, among them a KDE-valley `threshold`): the
    estimators must depend on (mu0, mu1, s0, s1[, M]) only"""
    if rng.random() < 0.35:
        return {}
    d = e["mu1"] - e["mu0"]
    thr = rng.choice([None, e["mu0"] + rng.uniform(0.05, 0.95) * d, e["mu0"] + d * e["s0"] / (e["s0"] + e["s1"]), e["mu0"] - d,
                      e["mu1"] + 2 * d, 0.0, e["mu0"], e["mu1"]])
    x = {"threshold": thr, "t_opt": 0.0, "t_left": -0.5, "t_right": 0.5, "t_dist": 1.0, "sps": 16, "dt": 6.25e-11, "i": 8,
         "er": 10.0, "eye_h": d - 3 * e["s0"] - 3 * e["s1"], "execution_time": 0.0, "um": 0.123, "M": 64, "decision": "soft"}
    return x if rng.random() < 0.7 else {"threshold": thr}


def _rx(rng, amplify=None):
    amplify = rng.random() < 0.6 if amplify is None else amplify
    BW_el = rng.choice([1e9, 5e9, 2.5e9, rng.uniform(0.5e9, 20e9)])
    give = amplify or rng.random() < 0.5
    return {"amplify": amplify, "give": give,
            "G": rng.choice([0.0, 40.0, 20.0, rng.uniform(0, 40)]) if give else None,
            "NF": rng.choice([3.0, 10.0, rng.uniform(3, 10)]) if give else None,
            "BW_opt": BW_el * rng.choice([1.0000001, 2.0, 10.0, rng.uniform(1.1, 50)]) if give else None,
            "wavelength": rng.choice([1550e-9, 1550e-9, 1310e-9]),
            "r": rng.choice([1.0, rng.uniform(0.05, 1.0)]), "BW_el": BW_el,
            "R_L": rng.choice([50, 10, 1e4, rng.uniform(10, 1e4)]), "T": rng.choice([300, 0, 400, rng.uniform(0, 400)]),
            "NF_el": rng.choice([0, 0.0, rng.uniform(0, 10)]),
            "ER": rng.choice([None, None, 3.0, 10.0, rng.uniform(3, 40)])}   # None = inf


def gen_cases(rng, tier):
    k = 2 if tier == "quick" else 8
    cases = []
    cases.append({"kind": "q", "xs": [0.0, -0.0, 1.0, -1.0, 1.5 * 2 ** 0.5, 2.0, 2.1213203435596424, 2.2, 5.0, 10.0, 20.0, 28.0, -3.0, -8.0, 0.3, 1e-9]
                  + [rng.uniform(-8, 30) for _ in range(40 * k)]})
    for _ in range(30 * k):
        e = _eye(rng)
        cases.append({"kind": "ook", **e, "shift": rng.choice([1.0, -2.5, 100.0]) * (e["mu1"] - e["mu0"]), "extra": _extra(rng, e)})
    for M in MS:
        for _ in range(5 * k):
            e = _eye(rng)
            cases.append({"kind": "ppm", "M": M, **e, "shift": rng.choice([1.0, -2.5, 30.0]) * (e["mu1"] - e["mu0"]), "extra": _extra(rng, e)})
    # eyes measured by the real devices.GET_EYE on a noisy waveform (they carry `threshold`, t_opt, er, ... besides mu/s)
    for mod, M in ([("ppm", 4), ("ook", 2), ("ppm", 8)] if tier == "quick" else [("ppm", 4), ("ook", 2), ("ppm", 8), ("ppm", 2), ("ook", 2), ("ppm", 16)] * 2):
        cases.append({"kind": "geteye", "modulation": mod, "M": M, "sps": 16, "R": 1e9, "nsym": 2048 // M if mod == "ppm" else 1024,
                      "sigma": rng.uniform(0.08, 0.2), "Vout": rng.choice([1.0, 0.5]), "bias": rng.choice([0.0, 0.2]),
                      "seed": rng.getrandbits(31)})
    for _ in range(6 * k):
        es = [_eye(rng) for _ in range(3)]
        cases.append({"kind": "vec", "M": rng.choice(MS), "mu": [e["mu1"] - e["mu0"] for e in es], "s0": [e["s0"] for e in es],
                      "s1": [e["s1"] for e in es], "scalar_s": rng.random() < 0.5})
    for _ in range(40 * k):
        rx = _rx(rng)
        mod = rng.choice(["ook", "ppm", "ppm"])
        cases.append({"kind": "rx", **rx, "P_avg": rng.choice([-50.0, 0.0, rng.uniform(-50, 0), rng.uniform(-40, -15)]),
                      "modulation": rng.choice([mod, mod.upper()]), "M": None if mod == "ook" and rng.random() < 0.5 else rng.choice(MS),
                      "decision": rng.choice(["hard", "soft", "Hard", "SOFT"]) if mod == "ppm" else rng.choice([None, "hard"]),
                      "threshold": rng.choice([None, None, 0.5, rng.uniform(0.05, 0.95)])})
    for _ in range(4 * k):
        rx = _rx(rng)
        cases.append({"kind": "rxvec", **rx, "P_avg": sorted(rng.uniform(-45, -5) for _ in range(3)),
                      "modulation": rng.choice(["ook", "ppm"]), "M": rng.choice(MS), "decision": rng.choice(["hard", "soft"]),
                      "threshold": None})
    for _ in range(25 * k):
        e = _eye(rng)
        eq = rng.random() < 0.3
        cases.append({"kind": "optthr", "mu0": e["mu0"], "mu1": e["mu1"], "S0": e["s0"] ** 2, "S1": e["s0"] ** 2 if eq else e["s1"] ** 2,
                      "modulation": rng.choice(["ook", "ppm", "OOK"]), "M": rng.choice(MS)})
    # optimum_threshold at RECEIVER scale (variances in V^2: 1e-12 ... 1e-8) — pure scalings of unit-scale points by alpha
    # (threshold must scale by alpha) and levels / variances taken from average_voltages / noise_variances
    for _ in range(8 * k):
        e = _eye(rng)
        ratio = rng.uniform(1.2, 10.0)
        up = rng.random() < 0.7
        cases.append({"kind": "optthr-scale", "mu0": e["mu0"], "mu1": e["mu1"], "S0": e["s0"] ** 2 * (1.0 if up else ratio),
                      "S1": e["s0"] ** 2 * (ratio if up else 1.0), "alphas": [1e-4, 1e-5, 1e-6],
                      "modulation": rng.choice(["ook", "ppm"]), "M": rng.choice(MS)})
    for _ in range(10 * k):
        amp = rng.random() < 0.4
        BW_el = rng.choice([1e9, 5e9, 10e9])
        cases.append({"kind": "optthr-rx", "amplify": amp, "give": amp, "G": rng.uniform(0.0, 6.0) if amp else None,
                      "NF": rng.uniform(3, 6) if amp else None, "BW_opt": BW_el * rng.uniform(2, 10) if amp else None,
                      "wavelength": 1550e-9, "r": rng.uniform(0.5, 1.0), "BW_el": BW_el, "R_L": rng.choice([10, 10, 50]),
                      "T": rng.choice([300, rng.uniform(5, 100), rng.uniform(20, 400)]), "NF_el": rng.choice([0, rng.uniform(0, 3)]),
                      "ER": rng.choice([None, 10.0, rng.uniform(6, 30)]), "P_avg": rng.uniform(-12, 0),
                      "modulation": rng.choice(["ook", "ppm"]), "M": rng.choice([2, 4, 16, 64])})
    for _ in range(3 * k):
        es = [_eye(rng) for _ in range(3)]
        cases.append({"kind": "optthr-vec", "mu0": 0.0, "mu1": [e["mu1"] - e["mu0"] for e in es], "S0": [e["s0"] ** 2 for e in es],
                      "S1": [es[0]["s0"] ** 2] + [e["s1"] ** 2 for e in es[1:]], "modulation": "ppm", "M": rng.choice(MS)})
    for _ in range(6 * k):
        cases.append({"kind": "device-pd", "sps": rng.choice([8, 16]), "R": rng.choice([1e9, 10e9]), "P_avg": rng.uniform(-30, 0),
                      "r": rng.uniform(0.1, 1.0), "R_L": rng.choice([50.0, rng.uniform(10, 1e4)]), "T": rng.uniform(0, 400),
                      "NF_el": rng.choice([0.0, rng.uniform(0, 10)]), "npol": rng.choice([1, 2]), "seed": rng.getrandbits(31)})
    for _ in range(4 * k):
        cases.append({"kind": "device-edfa", "sps": rng.choice([8, 16]), "R": rng.choice([1e9, 10e9]),
                      "wavelength": rng.choice([1550e-9, 1310e-9]), "G": rng.uniform(0, 40), "NF": rng.uniform(3, 10), "npol": rng.choice([1, 2]),
                      "in_noise": rng.random() < 0.5, "seed": rng.getrandbits(31)})
    # error cells
    e0 = {"mu0": 0.0, "mu1": 1.0, "s0": 0.1, "s1": 0.1}
    for M in (3, 6, 12, 100):
        cases.append({"kind": "err-ppm", "M": M, "decision": "hard", **e0})
    for dec in ("Hard", "SOFT", "medium", "softt"):
        cases.append({"kind": "err-ppm", "M": 4, "decision": dec, **e0})
    base = {"kind": "err-rx", **_rx(rng, amplify=True), "P_avg": -20.0, "modulation": "ppm", "M": 4, "decision": "hard", "threshold": None}
    for ch in ({"G": None}, {"NF": None}, {"BW_opt": None}, {"M": 3}, {"M": 1}, {"decision": "medium"}, {"threshold": 0.0}, {"threshold": 1.0},
               {"threshold": 1.5}, {"modulation": "qam"}, {"modulation": "ook", "threshold": -0.1}, {"M": None}):
        c = dict(base)
        c.update(ch)
        cases.append(c)
    rng.shuffle(cases)
    return cases


# ------------------------------------------------------------------------------------------------
# implementation side
# ------------------------------------------------------------------------------------------------

def _f(x):
    return float(np.asarray(x).reshape(()))


def _try(fn):
    try:
        with time_limit(60):
            return {"ok": fn()}
    except Timeout as e:
        return {"timeout": str(e)}
    except Exception as e:  # noqa
        return {"err": exc_enum(e), "exc": type(e).__name__, "detail": repr(e)[:160]}


def _flat(v):
    """result of a call as a flat list of floats (tuples / arrays / scalars)"""
    if isinstance(v, tuple):
        return [x for part in v for x in _flat(part)]
    return [float(x) for x in np.ravel(np.asarray(v, dtype=float))]


def _positional(res, name, fn, kwargs, extra_kw=None):
    """call `fn` once with `kwargs` passed POSITIONALLY in the documented order POSITIONAL[name] (plus extra_kw by keyword) and once
    purely by keyword; record both outcomes"""
    order = POSITIONAL[name]
    extra_kw = extra_kw or {}
    pos = _try(lambda: _flat(fn(*[kwargs[k] for k in order], **extra_kw)))
    kw = _try(lambda: _flat(fn(**{k: kwargs[k] for k in order}, **extra_kw)))
    res.setdefault("positional", {})[name] = {"pos": pos, "kw": kw}


class _QuadSpy:
    """records the integrand and the result of every scipy quad call made through a module's global `quad`"""

    def __init__(self, *modules):
        self.modules = modules
        self.calls = []

    def __enter__(self):
        import scipy.integrate as si
        self.orig = {}
        spy = self

        def make(orig):
            def quad(f, a, b, *args, **kw):
                out = orig(f, a, b, *args, **kw)
                xs = [0.0, 0.5, -1.0, 2.5, -3.0, 6.0]
                spy.calls.append({"a": float(a), "b": float(b), "val": float(out[0]), "abserr": float(out[1]), "xs": xs,
                                  "fx": [float(f(x)) for x in xs], "extra": bool(args or kw)})
                return out
            return quad
        for m in self.modules:
            if hasattr(m, "quad"):
                self.orig[m] = m.quad
                m.quad = make(m.quad)
        self.si = si
        self.si_orig = si.quad
        si.quad = make(si.quad)        # utils.theory_BER imports quad inside the function
        return self

    def __exit__(self, *exc):
        for m, o in self.orig.items():
            m.quad = o
        self.si.quad = self.si_orig
        return False


def _rx_kwargs(case, with_el=True, for_tb=False):
    import scipy.constants as sc
    kw = dict(ER=np.inf if case["ER"] is None else case["ER"], amplify=case["amplify"], G=case["G"], NF=case["NF"],
              BW_opt=case["BW_opt"], r=case["r"], R_L=case["R_L"])
    if for_tb:
        kw["f0"] = sc.c / case["wavelength"]
    else:
        kw["wavelength"] = case["wavelength"]
    if with_el:
        kw.update(BW_el=case["BW_el"], T=case["T"], NF_el=case["NF_el"])
    return kw


def run_impl(case):
    import scipy.constants as sc
    from opticomlib.typing import gv, eye
    from opticomlib import ook, ppm, utils
    res = {"consts": {"kB": sc.k, "e": sc.e, "h": sc.h, "c": sc.c}}
    kind = case["kind"]
    try:
        with warnings.catch_warnings():
            warnings.simplefilter("ignore")
            gv.clean()
            if kind == "q":
                res["q"] = [_f(utils.Q(x)) for x in case["xs"]]
                res["qvec"] = [float(v) for v in utils.Q(np.array(case["xs"]))]
            if kind == "geteye":
                # measure an eye with the real estimator, then treat it as an ordinary ook / ppm case on ITS mu / sigma values
                from opticomlib.devices import DAC, GET_EYE
                g = np.random.default_rng(case["seed"])
                gv(sps=case["sps"], R=case["R"])
                if case["modulation"] == "ppm":
                    sym = g.integers(0, case["M"], case["nsym"])
                    slots = np.zeros(sym.size * case["M"], dtype=int)
                    slots[np.arange(sym.size) * case["M"] + sym] = 1
                else:
                    slots = g.integers(0, 2, case["nsym"])
                x = DAC(slots, Vout=case["Vout"], bias=case["bias"], pulse_shape="rect")
                x.noise = g.normal(0, case["sigma"] * case["Vout"], x.len())
                np.random.seed(case["seed"])
                with time_limit(120):
                    e = GET_EYE(x, nslots=4096)
                vals = {k2: float(getattr(e, k2)) for k2 in ("mu0", "mu1", "s0", "s1")}
                if not all(math.isfinite(v2) for v2 in vals.values()) or not (vals["mu1"] > vals["mu0"] and min(vals["s0"], vals["s1"]) > 0):
                    res.update(status="done", geteye_unusable=vals)
                    return res
                thr_attr = getattr(e, "threshold", None)
                res["eye_threshold_attr"] = None if thr_attr is None else float(thr_attr)
                d = vals["mu1"] - vals["mu0"]
                case = {"kind": case["modulation"], "M": case["M"], **vals, "shift": d}
                res["sub"] = case
                kind = case["kind"]
                attrs = dict(vars(e))
                attrs2 = dict(attrs)
                attrs2.update(mu0=vals["mu0"] + d, mu1=vals["mu1"] + d)
                if thr_attr is not None:
                    attrs2["threshold"] = thr_attr + d
                e2 = eye(**attrs2)
                mu = d
            elif kind in ("ook", "ppm", "err-ppm"):
                extra = case.get("extra") or {}
                e = eye(mu0=case["mu0"], mu1=case["mu1"], s0=case["s0"], s1=case["s1"], **extra)
                d = case.get("shift", 0.0)
                extra2 = dict(extra)
                if extra2.get("threshold") is not None:
                    extra2["threshold"] = extra2["threshold"] + d
                e2 = eye(mu0=case["mu0"] + d, mu1=case["mu1"] + d, s0=case["s0"], s1=case["s1"], **extra2)
                mu = case["mu1"] - case["mu0"]
            if kind in ("ook", "ppm", "err-ppm"):
                if kind == "ook":
                    res["thr"] = _try(lambda: _f(ook.THRESHOLD_EST(e)))
                    res["est"] = _try(lambda: _f(ook.BER_analizer("estimator", eye_obj=e)))
                    res["thr_shift"] = _try(lambda: _f(ook.THRESHOLD_EST(e2)))
                    res["est_shift"] = _try(lambda: _f(ook.BER_analizer("estimator", eye_obj=e2)))
                    res["theory"] = _try(lambda: _f(ook.theory_BER(mu, case["s0"], case["s1"])))
                    res["theory_up"] = _try(lambda: _f(ook.theory_BER(mu * 1.07, case["s0"], case["s1"])))
                    _positional(res, "ook.theory_BER", ook.theory_BER, {"mu1": mu, "s0": case["s0"], "s1": case["s1"]})
                    _positional(res, "ook.THRESHOLD_EST", ook.THRESHOLD_EST, {"eye_obj": e})
                    _positional(res, "ook.BER_analizer", ook.BER_analizer, {"mode": "estimator"}, {"eye_obj": e})
                else:
                    M = case["M"]
                    decs = [case["decision"]] if kind == "err-ppm" else ["hard", "soft"]
                    res["thr"] = _try(lambda: _f(ppm.THRESHOLD_EST(e, M)))
                    res["thr_shift"] = _try(lambda: _f(ppm.THRESHOLD_EST(e2, M)))
                    for dec in decs:
                        with _QuadSpy(ppm) as sp:
                            res["est_" + dec] = _try(lambda: _f(ppm.BER_analizer("estimator", eye_obj=e, M=M, decision=dec)))
                        res["quad_est_" + dec] = sp.calls
                        with _QuadSpy(ppm) as sp:
                            res["est_shift_" + dec] = _try(lambda: _f(ppm.BER_analizer("estimator", eye_obj=e2, M=M, decision=dec)))
                        with _QuadSpy(ppm) as sp:
                            res["theory_" + dec] = _try(lambda: _f(ppm.theory_BER(mu, case["s0"], case["s1"], M, dec)))
                        res["quad_theory_" + dec] = sp.calls
                        res["theory_up_" + dec] = _try(lambda: _f(ppm.theory_BER(mu * 1.07, case["s0"], case["s1"], M, dec)))
                    if kind == "ppm":
                        pdec = "hard" if (case["M"] + int(1e6 * abs(mu))) % 2 else "soft"
                        _positional(res, "ppm.theory_BER", ppm.theory_BER, {"mu1": mu, "s0": case["s0"], "s1": case["s1"], "M": M, "decision": pdec})
                        _positional(res, "ppm.THRESHOLD_EST", ppm.THRESHOLD_EST, {"eye_obj": e, "M": M})
                        _positional(res, "ppm.BER_analizer", ppm.BER_analizer, {"mode": "estimator"}, {"eye_obj": e, "M": M, "decision": pdec})
            elif kind == "vec":
                mu, s0, s1 = np.array(case["mu"]), np.array(case["s0"]), np.array(case["s1"])
                if case["scalar_s"]:
                    s0, s1 = float(s0[0]), float(s1[0])
                pick = (lambda a, i: a if np.ndim(a) == 0 else a[i])
                res["ook_vec"] = _try(lambda: [float(v) for v in np.atleast_1d(ook.theory_BER(mu, s0, s1))])
                res["ook_each"] = [_try(lambda i=i: _f(ook.theory_BER(float(mu[i]), float(pick(s0, i)), float(pick(s1, i))))) for i in range(3)]
                for dec in ("hard", "soft"):
                    res["ppm_vec_" + dec] = _try(lambda: [float(v) for v in np.atleast_1d(ppm.theory_BER(mu, s0, s1, case["M"], dec))])
                    res["ppm_each_" + dec] = [_try(lambda i=i: _f(ppm.theory_BER(float(mu[i]), float(pick(s0, i)), float(pick(s1, i)), case["M"], dec)))
                                              for i in range(3)]
            elif kind in ("rx", "err-rx", "rxvec"):
                mod, M = case["modulation"], case["M"]
                P = np.array(case["P_avg"]) if kind == "rxvec" else case["P_avg"]
                lst = (lambda v: [float(a) for a in np.atleast_1d(v)])
                res["pase"] = _try(lambda: float(utils.p_ase(case["amplify"], case["wavelength"], case["G"], case["NF"], case["BW_opt"])))
                res["avg"] = _try(lambda: (lambda mu, ma: {"mu": [lst(mu[0]), lst(mu[1])], "mu_ase": float(ma)})(
                    *utils.average_voltages(P, mod, M, **_rx_kwargs(case, with_el=False))))
                res["nvar"] = _try(lambda: (lambda S: [lst(S[0]), lst(S[1])])(utils.noise_variances(P, mod, M, **_rx_kwargs(case))))
                with _QuadSpy() as sp:
                    res["tb"] = _try(lambda: lst(utils.theory_BER(P, mod, M, case["decision"], case["threshold"], **_rx_kwargs(case, for_tb=True))))
                res["quad_tb"] = sp.calls
                if kind == "rx":
                    a = dict(P_avg=P, modulation=mod, M=M, decision=case["decision"], threshold=case["threshold"],
                             ER=np.inf if case["ER"] is None else case["ER"], amplify=case["amplify"], wavelength=case["wavelength"],
                             f0=sc.c / case["wavelength"], G=case["G"], NF=case["NF"], BW_opt=case["BW_opt"], r=case["r"], BW_el=case["BW_el"],
                             R_L=case["R_L"], T=case["T"], NF_el=case["NF_el"])
                    for nm, fn in (("utils.p_ase", utils.p_ase), ("utils.average_voltages", utils.average_voltages),
                                   ("utils.noise_variances", utils.noise_variances), ("utils.theory_BER", utils.theory_BER)):
                        _positional(res, nm, fn, a)
                    up = dict(case)
                    res["tb_up"] = _try(lambda: lst(utils.theory_BER(case["P_avg"] + 1.0, mod, M, case["decision"], case["threshold"],
                                                                     **_rx_kwargs(case, for_tb=True))))
                if kind == "rxvec":
                    res["tb_each"] = [_try(lambda p=p: lst(utils.theory_BER(p, mod, M, case["decision"], None, **_rx_kwargs(case, for_tb=True))))
                                      for p in case["P_avg"]]
            elif kind == "optthr":
                _positional(res, "utils.optimum_threshold", utils.optimum_threshold,
                            {k2: case[k2] for k2 in ("mu0", "mu1", "S0", "S1", "modulation", "M")})
                res["thr"] = _try(lambda: _f(utils.optimum_threshold(case["mu0"], case["mu1"], case["S0"], case["S1"], case["modulation"], case["M"])))
            elif kind in ("optthr-scale", "optthr-rx"):
                if kind == "optthr-scale":
                    pts = [(1.0, case["mu0"], case["mu1"], case["S0"], case["S1"])] + \
                          [(a, case["mu0"] * a, case["mu1"] * a, case["S0"] * a * a, case["S1"] * a * a) for a in case["alphas"]]
                else:
                    Mv = 2 if case["modulation"] == "ook" else case["M"]
                    res["avg"] = _try(lambda: [float(v) for v in utils.average_voltages(case["P_avg"], case["modulation"], Mv,
                                                                                        **_rx_kwargs(case, with_el=False))[0]])
                    res["nvar"] = _try(lambda: [float(v) for v in utils.noise_variances(case["P_avg"], case["modulation"], Mv, **_rx_kwargs(case))])
                    pts = []
                    if "ok" in res["avg"] and "ok" in res["nvar"]:
                        pts = [(1.0, res["avg"]["ok"][0], res["avg"]["ok"][1], res["nvar"]["ok"][0], res["nvar"]["ok"][1])]
                res["pts"] = [{"alpha": a, "mu0": m0, "mu1": m1, "S0": S0, "S1": S1,
                               "thr": _try(lambda m0=m0, m1=m1, S0=S0, S1=S1: _f(utils.optimum_threshold(m0, m1, S0, S1, case["modulation"], case["M"])))}
                              for a, m0, m1, S0, S1 in pts]
            elif kind == "optthr-vec":
                res["thr"] = _try(lambda: [float(v) for v in utils.optimum_threshold(case["mu0"], np.array(case["mu1"]), np.array(case["S0"]),
                                                                                      np.array(case["S1"]), case["modulation"], case["M"])])
                res["each"] = [_try(lambda i=i: _f(utils.optimum_threshold(case["mu0"], case["mu1"][i], case["S0"][i], case["S1"][i],
                                                                           case["modulation"], case["M"]))) for i in range(3)]
            elif kind == "device-pd":
                res.update(_device_pd(case))
            elif kind == "device-edfa":
                res.update(_device_edfa(case))
            res["status"] = "done"
    except Timeout as e:
        res.update(status="timeout", detail=str(e))
    except Exception as e:  # noqa
        res.update(status="harness-err", detail=repr(e)[:300])
    finally:
        try:
            gv.clean()
        except Exception:
            pass
    return res


def _device_pd(case):
    """PD on a CW field of power p_ON (OOK, ER=inf): spied sigmas (A) vs the utils model with B = fs/2"""
    from opticomlib.typing import gv, optical_signal
    from opticomlib.devices import PD
    from opticomlib import utils
    gv(sps=case["sps"], R=case["R"])
    fs = float(gv.fs)
    p_on = 2 * 10 ** (case["P_avg"] / 10 - 3)
    n = 64
    g = np.random.default_rng(case["seed"])
    ph = np.exp(1j * g.uniform(0, 2 * np.pi, (n,) if case["npol"] == 1 else (2, n)))
    amp = np.sqrt(p_on) if case["npol"] == 1 else np.sqrt(p_on / 2)
    x = optical_signal(amp * ph, n_pol=case["npol"])
    calls = []
    orig = np.random.normal

    def spy(loc=0.0, scale=1.0, size=None):
        calls.append({"loc": float(loc), "scale": float(scale), "size": int(size)})
        return orig(loc, scale, size)
    np.random.normal = spy
    try:
        out = _try(lambda: PD(x, 0.25 * fs, r=case["r"], T=case["T"], R_load=case["R_L"], include_noise="thermal-shot", i_dark=0.0,
                              Fn=case["NF_el"]).len())
    finally:
        np.random.normal = orig
    kw = dict(ER=np.inf, amplify=False, r=case["r"], BW_el=fs / 2, R_L=case["R_L"], T=case["T"], NF_el=case["NF_el"])
    return {"fs": fs, "pd": out, "pd_calls": calls,
            "nvar": _try(lambda: [float(v) for v in utils.noise_variances(case["P_avg"], "ook", **kw)]),
            "avg": _try(lambda: [float(v) for v in utils.average_voltages(case["P_avg"], "ook", ER=np.inf, amplify=False, r=case["r"], R_L=case["R_L"])[0]])}


def _device_edfa(case):
    """EDFA with the unit-variance draw replaced by ones: the noise it adds has total power exactly P_ase"""
    from opticomlib.typing import gv, optical_signal
    from opticomlib.devices import EDFA
    from opticomlib import utils
    gv(sps=case["sps"], R=case["R"], wavelength=case["wavelength"])
    fs, f0 = float(gv.fs), float(gv.f0)
    n = 32
    shape = n if case["npol"] == 1 else (2, n)
    nz = None
    if case.get("in_noise"):          # a receiver input that already carries optical noise: the ASE the EDFA ADDS must still have power P_ase
        g = np.random.default_rng(case.get("seed", 1))
        nz = 1e-3 * (g.normal(size=shape) + 1j * g.normal(size=shape))
    x = optical_signal(np.ones(shape) * 0.01, nz, n_pol=case["npol"])
    orig = np.random.randn
    np.random.randn = lambda *shape: np.ones(shape)

    def added_power(y):
        amp = np.sqrt(10 ** (case["G"] / 10))
        base = np.zeros_like(y.noise)
        if nz is not None:
            base[0 if case["npol"] == 1 else slice(None)] = amp * nz
        return float(np.mean(np.sum(np.abs(y.noise - base) ** 2, axis=0)))
    try:
        out = _try(lambda: added_power(EDFA(x, case["G"], case["NF"])))
    finally:
        np.random.randn = orig
    return {"fs": fs, "f0": f0, "edfa_pase": out,
            "pase": _try(lambda: float(utils.p_ase(True, case["wavelength"], case["G"], case["NF"], fs)))}


# ------------------------------------------------------------------------------------------------
# model side
# ------------------------------------------------------------------------------------------------

def _F(*xs):
    return " ".join(enc_f(x) for x in xs)


def _dec_tok(d):
    if d is None:
        return "none"
    if d in ("hard", "soft"):
        return d
    if d.lower() in ("hard", "soft"):
        return d.lower() + "Case"
    return "other"


def _rx_tok(case, res, G=None):
    c = res["consts"]
    z = (lambda v: 0.0 if v is None else float(v))
    return " ".join([_F(c["kB"], c["e"], c["h"]), enc_bool(case["amplify"]),
                     _F(c["c"] / case["wavelength"], z(case["G"]), z(case["NF"]), z(case["BW_opt"]), case["r"], case["BW_el"], case["R_L"],
                        case["T"], case["NF_el"])])


def _er(case):
    return float("inf") if case["ER"] is None else 10 ** (np.array(case["ER"]) / 10)


def _idb(x):
    return float(10 ** (np.array(x) / 10))


def model_requests(case, res):
    if res.get("status") != "done":
        return []
    if case["kind"] == "geteye":
        return model_requests(res["sub"], res) if "sub" in res else []
    k = case["kind"]
    if k == "q":
        return ["ber.q " + enc_f(x) for x in case["xs"]]
    if k == "ook":
        a = (case["mu0"], case["mu1"], case["s0"], case["s1"])
        d = case["shift"]
        b = (case["mu0"] + d, case["mu1"] + d, case["s0"], case["s1"])
        mu = case["mu1"] - case["mu0"]
        return ["ber.ook_thr " + _F(*a), "ber.ook_est " + _F(*a), "ber.ook_thr " + _F(*b), "ber.ook_est " + _F(*b),
                "ber.ook_theory " + _F(mu, case["s0"], case["s1"]), "ber.ook_theory " + _F(mu * 1.07, case["s0"], case["s1"])]
    if k in ("ppm", "err-ppm"):
        M = case["M"]
        a = (case["mu0"], case["mu1"], case["s0"], case["s1"])
        d = case.get("shift", 0.0)
        b = (case["mu0"] + d, case["mu1"] + d, case["s0"], case["s1"])
        mu = case["mu1"] - case["mu0"]
        reqs = [f"ber.ppm_thr {M} " + _F(*a), f"ber.ppm_thr {M} " + _F(*b)]
        for dec in ([case["decision"]] if k == "err-ppm" else ["hard", "soft"]):
            qe = res.get("quad_est_" + dec) or []
            qt = res.get("quad_theory_" + dec) or []
            ie = qe[0]["val"] if qe else 0.0
            it = qt[0]["val"] if qt else 0.0
            reqs.append(f"ber.ppm_est {M} {_dec_tok(dec)} " + _F(*a, ie))
            reqs.append(f"ber.ppm_theory {M} {_dec_tok(dec)} " + _F(mu, case["s0"], case["s1"], it))
            if qe:
                reqs.append(f"ber.integrand {M} " + _F(mu, case["s0"], case["s1"]) + " " + enc_flist(qe[0]["xs"]))
            if qt:
                reqs.append(f"ber.integrand {M} " + _F(mu, case["s0"], case["s1"]) + " " + enc_flist(qt[0]["xs"]))
        return reqs
    if k in ("rx", "err-rx"):
        rx = _rx_tok(case, res)
        mod = case["modulation"].lower()
        Mv = 2 if mod == "ook" else case["M"]
        given = all(case[n] is not None for n in ("G", "NF", "BW_opt"))
        reqs = ["ber.pase " + rx] if (given or not case["amplify"]) else []
        if Mv is not None and reqs:
            tail = " " + _F(case["P_avg"], float(Mv), _er(case))
            reqs += ["ber.avg " + rx + tail, "ber.nvar " + rx + tail, "ber.tb_model " + rx + tail]
        q = res.get("quad_tb") or []
        dec = case["decision"]
        reqs.append(" ".join(["ber.tb", rx, enc_bool(given), _F(case["P_avg"], _er(case)), mod if mod in ("ook", "ppm") else "other",
                              "none" if case["M"] is None else f"some {case['M']}", _dec_tok(dec),
                              "none" if case["threshold"] is None else "some " + enc_f(case["threshold"]), enc_f(q[0]["val"] if q else 0.0)]))
        return reqs
    if k == "optthr":
        M = 2 if case["modulation"].lower() == "ook" else case["M"]
        return [f"ber.opt_thr " + _F(case["mu0"], case["mu1"], case["S0"], case["S1"]) + f" {M}"]
    if k == "optthr-vec":
        return [f"ber.opt_thr " + _F(case["mu0"], case["mu1"][i], case["S0"][i], case["S1"][i]) + f" {case['M']}" for i in range(3)]
    if k in ("optthr-scale", "optthr-rx"):
        M = 2 if case["modulation"].lower() == "ook" else case["M"]
        return [f"ber.opt_thr " + _F(p["mu0"], p["mu1"], p["S0"], p["S1"]) + f" {M}" for p in res.get("pts", [])]
    return []


def _close(a, b, rel=1e-9, abs_=0.0, nan_ok=False):
    """|a-b| <= rel*max(|a|,|b|) + abs_.  A NaN / inf on either side is a MISMATCH (never silently equal); only the
    model-vs-implementation comparison passes nan_ok=True, where both sides producing NaN (or the same infinity) for a
    degenerate input (s0 = 0, ...) is agreement"""
    if a is None or b is None:
        return False
    if not (math.isfinite(a) and math.isfinite(b)):
        return nan_ok and ((math.isnan(a) and math.isnan(b)) or a == b)
    # below the normal range of binary64 (|x| < 2.3e-308) results are subnormal or flushed to zero and carry no relative
    # accuracy at all (seed 30 of a sweep: model 4.0e-318, scipy's erfc 0.0): the underflow threshold is the only
    # absolute floor left in any tolerance of this module
    return abs(a - b) <= rel * max(abs(a), abs(b)) + abs_ + 1e-300


def _gt(a, b):
    """a > b, TRUE when either side is NaN (a plain `a > b` is silently False then)"""
    return not (a <= b)


def _lt(a, b):
    return not (a >= b)


def _opt_reply(rep):
    """`ok some <f>` | `ok none` | `err E` -> ('ok', value) | ('err', E)"""
    p = rep.split()
    if p[0] == "ok":
        if p[1] == "some":
            return "ok", Toks(p[2]).f()
        if p[1] == "none":
            return "ok", None
        return "ok", Toks(p[1]).f()
    if p[0] == "err":
        return "err", p[1]
    return "bad", rep


def _cmp_val(name, rep, impl, rel=1e-9, abs_=0.0):
    st, val = _opt_reply(rep)
    if st == "bad":
        return [f"{name}: model reply {rep[:60]}"]
    if st == "err":
        if impl.get("err") != val:
            return [f"{name}: model raises {val}, implementation {impl}"]
        return []
    if "ok" not in impl:
        return [f"{name}: model returns {val!r}, implementation {impl}"]
    if not _close(val, impl["ok"], rel, abs_, nan_ok=True):
        return [f"{name}: model {val!r} implementation {impl['ok']!r}"]
    return []


def _cmp_thr(name, rep, impl, obj, span):
    """thresholds are grid points: equal, or a numerical tie of the objective between two grid points"""
    st, val = _opt_reply(rep)
    if st != "ok" or "ok" not in impl or val is None:
        return _cmp_val(name, rep, impl)
    if abs(val - impl["ok"]) <= 1e-9 * max(span, abs(val)):          # (False for NaN: falls through to the report)
        return []
    fa, fb = obj(val), obj(impl["ok"])
    if abs(fa - fb) <= 1e-9 * max(abs(fa), abs(fb)) + (1e-14 if fa > 1e-6 else 0.0):
        return []
    return [f"{name}: model {val!r} (objective {fa!r}) implementation {impl['ok']!r} (objective {fb!r})"]


def compare(case, res, reqs, replies):
    if not reqs:
        return []
    if case["kind"] == "geteye":
        return [f"eye measured by GET_EYE (threshold attribute {res.get('eye_threshold_attr')!r}): {d}"
                for d in compare(res["sub"], res, reqs, replies)]
    from opticomlib.utils import Q
    k = case["kind"]
    out = []
    if k == "q":
        for x, rep, v in zip(case["xs"], replies, res["q"]):
            st, val = _opt_reply(rep)
            if st != "ok" or not _close(val, v, 1e-11, 1e-300, nan_ok=True):
                out.append(f"Q({x!r}): model {val!r} implementation {v!r}")
        return out
    if k == "ook":
        span = case["mu1"] - case["mu0"]
        d = case["shift"]
        obj = (lambda m0, m1: (lambda r: _f(0.5 * (Q((m1 - r) / case["s1"]) + Q((r - m0) / case["s0"])))))
        out += _cmp_thr("ook.THRESHOLD_EST", replies[0], res["thr"], obj(case["mu0"], case["mu1"]), span)
        out += _cmp_val("ook.BER_analizer(estimator)", replies[1], res["est"])
        out += _cmp_thr("ook.THRESHOLD_EST(shifted)", replies[2], res["thr_shift"], obj(case["mu0"] + d, case["mu1"] + d), span)
        out += _cmp_val("ook.BER_analizer(estimator, shifted)", replies[3], res["est_shift"])
        out += _cmp_val("ook.theory_BER", replies[4], res["theory"])
        out += _cmp_val("ook.theory_BER(1.07 mu)", replies[5], res["theory_up"])
        return out
    if k in ("ppm", "err-ppm"):
        M = case["M"]
        span = case["mu1"] - case["mu0"]
        d = case.get("shift", 0.0)
        obj = (lambda m0, m1: (lambda r: _f(1 - Q((r - m1) / case["s1"]) * (1 - Q((r - m0) / case["s0"])) ** (M - 1))))
        out += _cmp_thr("ppm.THRESHOLD_EST", replies[0], res["thr"], obj(case["mu0"], case["mu1"]), span)
        out += _cmp_thr("ppm.THRESHOLD_EST(shifted)", replies[1], res["thr_shift"], obj(case["mu0"] + d, case["mu1"] + d), span)
        i = 2
        for dec in ([case["decision"]] if k == "err-ppm" else ["hard", "soft"]):
            out += _cmp_val(f"ppm.BER_analizer(estimator,{dec})", replies[i], res["est_" + dec], 1e-9, 1e-13)
            out += _cmp_val(f"ppm.theory_BER({dec})", replies[i + 1], res["theory_" + dec], 1e-9, 1e-13)
            i += 2
            for q in (res.get("quad_est_" + dec) or [], res.get("quad_theory_" + dec) or []):
                if q:
                    rep = replies[i]
                    i += 1
                    if not rep.startswith("ok "):
                        out.append(f"integrand: model reply {rep[:60]}")
                        continue
                    vals = Toks(rep[3:]).flist()
                    if any(c["a"] != -math.inf or c["b"] != math.inf or c["extra"] for c in q):   # (np.vectorize probes its first element twice)
                        out.append(f"quad called {len(q)} times / limits ({q[0]['a']}, {q[0]['b']})")
                    for x, a, b in zip(q[0]["xs"], vals, q[0]["fx"]):
                        if not _close(a, b, 1e-9, 1e-15, nan_ok=True):
                            out.append(f"integrand handed to quad at x={x}: model {a!r} implementation {b!r} ({dec}, M={M})")
        return out
    if k in ("rx", "err-rx"):
        if len(replies) > 1:
            out += _cmp_val("utils.p_ase", replies[0], res["pase"])
        if len(replies) > 2:
            for name, rep, impl, n in (("average_voltages", replies[1], res["avg"], 3), ("noise_variances", replies[2], res["nvar"], 2)):
                if "ok" in impl and rep.startswith("ok "):
                    t = Toks(rep[3:])
                    vals = [t.f() for _ in range(n)]
                    iv = ([impl["ok"]["mu"][0][0], impl["ok"]["mu"][1][0], impl["ok"]["mu_ase"]] if name == "average_voltages"
                          else [impl["ok"][0][0], impl["ok"][1][0]])
                    for a, b in zip(vals, iv):
                        if not _close(a, b, 1e-9, 1e-300, nan_ok=True):
                            out.append(f"utils.{name}: model {vals} implementation {iv}")
                            break
                elif "ok" in impl:
                    out.append(f"utils.{name}: model reply {rep[:60]}, implementation returned {impl['ok']}")
                else:
                    out.append(f"utils.{name}: implementation {impl} (model: {rep[:60]})")
            i = 4
        rep = replies[-1]
        impl = dict(res["tb"])
        if "ok" in impl:
            impl["ok"] = impl["ok"][0]
        # KeyError / AttributeError are `Other` on both sides
        out += _cmp_val("utils.theory_BER", rep, impl, 1e-9, 1e-13 if str(case["modulation"]).lower() == "ppm" else 0.0)
        return out
    if k == "optthr":
        return _cmp_val("utils.optimum_threshold", replies[0], res["thr"], 1e-9, 1e-12 * abs(case["mu1"]))
    if k in ("optthr-scale", "optthr-rx"):
        for p, rep in zip(res["pts"], replies):
            out += _cmp_val(f"utils.optimum_threshold(scale {p['alpha']:g})", rep, p["thr"], 1e-9, 1e-12 * abs(p["mu1"]))
        return out
    if k == "optthr-vec":
        if "ok" not in res["thr"]:
            return [f"utils.optimum_threshold(arrays): {res['thr']}"]
        for i2, rep in enumerate(replies):
            out += _cmp_val(f"utils.optimum_threshold[{i2}]", rep, {"ok": res["thr"]["ok"][i2]}, 1e-9, 1e-12 * abs(case["mu1"][i2]))
        return out
    return out


# ------------------------------------------------------------------------------------------------
# oracle (scipy reference; independent of the Lean model)
# ------------------------------------------------------------------------------------------------

def _Q(x):
    from scipy.stats import norm
    return norm.sf(x)


def _true_min(f, lo, hi):
    """minimum of a smooth function over [lo, hi]: dense scan, then golden-section polish around the best point"""
    from scipy.optimize import minimize_scalar
    xs = np.linspace(lo, hi, 40001)
    ys = f(xs)
    i = int(np.argmin(ys))
    a, b = xs[max(i - 1, 0)], xs[min(i + 1, len(xs) - 1)]
    best = float(ys[i])
    if b > a:
        r = minimize_scalar(lambda x: float(f(np.array(x))), bounds=(a, b), method="bounded", options={"xatol": (hi - lo) * 1e-12})
        best = min(best, float(r.fun))
    return best


def _grid_ref(f, lo, hi, n):
    return float(np.min(f(np.linspace(lo, hi, n))))


def _val(d):
    return d.get("ok") if isinstance(d, dict) else None


def _need(v, name, d):
    if "ok" not in d:
        v.append((f"C13:raises:{name}", f"{name} failed on valid input: {d}"))
        return False
    return True


def oracle(case, res):
    if res.get("status") == "timeout":
        return [("C13:timeout", "call did not return")]
    if res.get("status") != "done":
        return [("C13:harness", f"harness failure: {res.get('detail')}")]
    v = []
    # positional twins: the documented argument order is part of the interface
    for name, t in ((res.get("positional") or {}) if case["kind"] != "geteye" else {}).items():
        a, b = t["pos"], t["kw"]
        same = ("ok" in a and "ok" in b and len(a["ok"]) == len(b["ok"]) and
                all((x == y) or (x != x and y != y) for x, y in zip(a["ok"], b["ok"]))) or \
               ("ok" not in a and "ok" not in b and a.get("exc") == b.get("exc"))
        if not same:
            v.append((f"C13:positional:{name}", f"{name}({', '.join(POSITIONAL[name])}) called positionally in the documented order gives "
                      f"{a}, the same arguments by keyword give {b}"))
    return v + _oracle_kind(case, res)


def _oracle_kind(case, res):
    v = []
    k = case["kind"]
    if k == "geteye":
        if "sub" not in res:
            return v          # GET_EYE could not measure this waveform: not this property's business
        return [(sig, f"eye measured by devices.GET_EYE (it carries threshold = {res.get('eye_threshold_attr')!r} and other attributes): {msg}")
                for sig, msg in oracle(res["sub"], res)]
    if k == "q":
        for x, a, b in zip(case["xs"], res["q"], res["qvec"]):
            ref = float(_Q(x))
            if _gt(abs(a - ref), 1e-12 * ref + 1e-300) or not (a == b):
                v.append(("C13:Q", f"utils.Q({x}) = {a!r} (vectorised {b!r}), Gaussian tail {ref!r}"))
        return v
    if k == "ook":
        return _oracle_ook(case, res)
    if k == "ppm":
        return _oracle_ppm(case, res)
    if k == "err-ppm":
        want = "ValueError"
        for name in ("thr", "est_" + case["decision"], "theory_" + case["decision"]):
            d = res[name]
            bad_m = case["M"] & (case["M"] - 1) != 0
            bad_dec = case["decision"].lower() not in ("hard", "soft")
            if name == "thr" and not bad_m:
                continue
            if (bad_m or bad_dec) and d.get("err") != want:
                v.append((f"C13:ppm-validation:{name.split('_')[0]}", f"M={case['M']} decision={case['decision']!r}: ValueError documented, got {d}"))
        return v
    if k == "vec":
        for name, vec, each in (("ook", res["ook_vec"], res["ook_each"]), ("ppm-hard", res["ppm_vec_hard"], res["ppm_each_hard"]),
                                ("ppm-soft", res["ppm_vec_soft"], res["ppm_each_soft"])):
            if "ok" not in vec or any("ok" not in e for e in each):
                v.append((f"C13:vectorise:{name}", f"array call {vec} / scalar calls {each}"))
            elif len(vec["ok"]) != 3 or any(not _close(a, e["ok"], 1e-12, 0.0) for a, e in zip(vec["ok"], each)):
                v.append((f"C13:vectorise:{name}", f"theory_BER on arrays {vec['ok']} != element-wise {[e['ok'] for e in each]}"))
        return v
    if k == "rx":
        return _oracle_rx(case, res)
    if k == "rxvec":
        # T = 0 with ER = inf and no ASE: a noise-free OFF level (s0 = 0), outside "s0, s1 > 0" — the code returns NaN there
        degenerate = "ok" in res["nvar"] and any(x <= 0 for x in res["nvar"]["ok"][0])
        if "ok" not in res["tb"] or any("ok" not in e for e in res["tb_each"]):
            v.append(("C13:vectorise:utils", f"utils.theory_BER array call {res['tb']} / scalar {res['tb_each']}"))
        elif len(res["tb"]["ok"]) != 3 or any(not _close(a, e["ok"][0], 1e-12, 0.0, nan_ok=degenerate) for a, e in zip(res["tb"]["ok"], res["tb_each"])):
            v.append(("C13:vectorise:utils", f"utils.theory_BER on arrays {res['tb']['ok']} != element-wise {[e['ok'][0] for e in res['tb_each']]}"))
        for name in ("avg", "nvar"):
            if "ok" not in res[name]:
                v.append((f"C13:vectorise:{name}", f"array P_avg: {res[name]}"))
        if not case["amplify"] and not case["give"] and ("ok" not in res["avg"] or "ok" not in res["nvar"]):
            v.append(("C13:unamplified-ignores-amplify-flag", "average_voltages / noise_variances fail for amplify=False without G/NF/BW_opt"))
        return v
    if k == "err-rx":
        d = res["tb"]
        if case["modulation"] not in ("ook", "ppm"):
            if "err" not in d:
                v.append(("C13:rx-validation", f"invalid modulation accepted: {d}"))
            return v
        if case["M"] is None and case["modulation"] == "ppm":
            if "err" not in d:
                v.append(("C13:rx-validation", f"M=None accepted for ppm: {d}"))
            return v
        if d.get("err") != "ValueError":
            v.append(("C13:rx-validation", f"ValueError documented for G={case['G']} NF={case['NF']} BW_opt={case['BW_opt']} M={case['M']} "
                      f"decision={case['decision']} threshold={case['threshold']}; got {d}"))
        return v
    if k in ("optthr", "optthr-vec", "optthr-scale", "optthr-rx"):
        return _oracle_optthr(case, res)
    if k == "device-pd":
        return _oracle_device_pd(case, res)
    if k == "device-edfa":
        if "ok" not in res["edfa_pase"] or "ok" not in res["pase"]:
            return [("C13:raises:device-edfa", f"{res['edfa_pase']} {res['pase']}")]
        a, b = res["edfa_pase"]["ok"], res["pase"]["ok"]
        # with incoming noise the added ASE is a difference of two arrays: rounding relative to the amplified incoming noise power
        slack = 1e-9 + (1e-12 * 10 ** (case["G"] / 10) * 4e-6 / max(b, 1e-300) if case.get("in_noise") else 0.0)
        if not _close(a, b, slack):
            v.append(("C13:p_ase-vs-EDFA", f"EDFA adds ASE power {a!r} W (incoming noise: {bool(case.get('in_noise'))}), utils.p_ase(BW_opt=fs) = {b!r} W"))
        return v
    return v


def _oracle_ook(case, res):
    v = []
    mu0, mu1, s0, s1 = case["mu0"], case["mu1"], case["s0"], case["s1"]
    mu = mu1 - mu0
    for name in ("thr", "est", "thr_shift", "est_shift", "theory", "theory_up"):
        if not _need(v, "ook." + name, res[name]):
            return v
    f = lambda r: 0.5 * (_Q((mu - r) / s1) + _Q(r / s0))     # noqa: E731  (objective in the shift-free variable)
    thr, est, th = res["thr"]["ok"], res["est"]["ok"], res["theory"]["ok"]
    tmin = _true_min(f, 0.0, mu)
    gmin = _grid_ref(f, 0.0, mu, 1000)
    tol = 1e-9 * tmin + 1e-300
    if _lt(th, tmin - tol):
        v.append(("C13:ook-below-min", f"ook.theory_BER({mu},{s0},{s1}) = {th!r} is below the true minimum {tmin!r}"))
    if _gt(th, gmin * (1 + 1e-9) + 1e-300):
        v.append(("C13:ook-grid", f"ook.theory_BER({mu},{s0},{s1}) = {th!r} exceeds the minimum over the 1000-point grid {gmin!r}"))
    if s0 == s1:
        q = float(_Q(mu / (2 * s0)))
        h = mu / 999
        # grid error: some grid point lies within h/2 of the midpoint
        up = float(f(mu / 2 + h / 2))
        if _lt(th, q * (1 - 1e-9)) or _gt(th, up * (1 + 1e-9) + 1e-300):
            v.append(("C13:ook-equal-sigma", f"ook.theory_BER({mu},{s0},{s0}) = {th!r}, Q(mu/2s) = {q!r} (grid bound {up!r})"))
        if _gt(abs(thr - (mu0 + mu1) / 2), h / 2 * (1 + 1e-6) + 1e-12 * abs(mu1)):
            v.append(("C13:ook-threshold-mid", f"equal sigmas: threshold {thr!r} is not the midpoint {(mu0 + mu1) / 2!r} (grid step {h!r})"))
    if not (mu0 - 1e-12 * abs(mu0) <= thr <= mu1 + 1e-12 * abs(mu1)):
        v.append(("C13:ook-threshold-range", f"threshold {thr!r} outside [{mu0}, {mu1}]"))
    # estimator = objective at the returned threshold; within grid error of the minimum, never below
    fe = float(f(thr - mu0))
    if not _close(est, fe, 1e-7, 1e-300):
        v.append(("C13:ook-estimator", f"BER_analizer(estimator) = {est!r}, error integral at the returned threshold = {fe!r}"))
    if _lt(est, tmin - tol) or _gt(est, gmin * (1 + 1e-9) + 1e-300):
        v.append(("C13:ook-estimator-min", f"BER_analizer(estimator) = {est!r} not in [true minimum {tmin!r}, grid minimum {gmin!r}]"))
    if not _close(est, th, 1e-9, 1e-300):
        v.append(("C13:ook-estimator-theory", f"estimator {est!r} != theory_BER(mu1-mu0) {th!r}"))
    # shift invariance
    d = case["shift"]
    es, ts = res["est_shift"]["ok"], res["thr_shift"]["ok"]
    slack = 1e-12 * (abs(d) + abs(mu1)) / min(s0, s1) * 40 + 1e-9
    if not _close(es, est, slack, 1e-300):
        v.append(("C13:ook-shift", f"estimator changes under a common shift of the levels by {d}: {est!r} -> {es!r}"))
    if _gt(abs((ts - d) - thr), 1e-9 * (abs(d) + abs(mu1))) and not _close(float(f(ts - d - mu0)), fe, 1e-9 + slack, 1e-300):
        v.append(("C13:ook-shift-threshold", f"threshold does not follow a common shift by {d}: {thr!r} -> {ts!r}"))
    # bounds, monotone in mu
    if not (0 <= th <= 0.5 * (1 + 1e-12)):
        v.append(("C13:ook-bound", f"ook.theory_BER = {th!r} outside [0, 1/2]"))
    if _gt(res["theory_up"]["ok"], th * (1 + 1e-12) + 1e-300):
        v.append(("C13:ook-monotone", f"ook.theory_BER increases with mu: {th!r} at {mu}, {res['theory_up']['ok']!r} at {1.07 * mu}"))
    return v


def _oracle_ppm(case, res):
    v = []
    M = case["M"]
    mu0, mu1, s0, s1 = case["mu0"], case["mu1"], case["s0"], case["s1"]
    mu = mu1 - mu0
    names = ["thr", "thr_shift"] + [p + d for p in ("est_", "est_shift_", "theory_", "theory_up_") for d in ("hard", "soft")]
    for name in names:
        if not _need(v, "ppm." + name, res[name]):
            return v
    f = lambda r: 1 - _Q((r - mu) / s1) * (1 - _Q(r / s0)) ** (M - 1)      # noqa: E731
    fac = M / 2 / (M - 1)
    thr = res["thr"]["ok"]
    hard, soft = res["theory_hard"]["ok"], res["theory_soft"]["ok"]
    eh, es = res["est_hard"]["ok"], res["est_soft"]["ok"]
    tmin = _true_min(f, 0.0, mu) * fac
    gmin = _grid_ref(f, 0.0, mu, 1000) * fac
    a14 = 4e-14      # 1 - (1 - x): absolute rounding
    if _lt(hard, tmin - 1e-9 * tmin - a14):
        v.append(("C13:ppm-below-min", f"ppm.theory_BER(hard, M={M}) = {hard!r} below the true minimum {tmin!r}"))
    if _gt(hard, gmin * (1 + 1e-9) + a14):
        v.append(("C13:ppm-grid", f"ppm.theory_BER(hard, M={M}) = {hard!r} exceeds the 1000-point grid minimum {gmin!r}"))
    if not (mu0 - 1e-12 * abs(mu0) <= thr <= mu1 + 1e-12 * abs(mu1)):
        v.append(("C13:ppm-threshold-range", f"threshold {thr!r} outside [{mu0}, {mu1}]"))
    fe = float(f(thr - mu0)) * fac
    if not _close(eh, fe, 1e-7, a14):
        v.append(("C13:ppm-estimator", f"BER_analizer(estimator, hard) = {eh!r}, formula at the returned threshold = {fe!r}"))
    if not _close(eh, hard, 1e-9, a14):
        v.append(("C13:ppm-estimator-theory", f"estimator(hard) {eh!r} != theory_BER(mu1-mu0, hard) {hard!r}"))
    if not _close(es, soft, 1e-9, 1e-12):
        v.append(("C13:ppm-estimator-theory", f"estimator(soft) {es!r} != theory_BER(mu1-mu0, soft) {soft!r}"))
    # soft decision: closed form for M = 2, never larger than hard.  `1 - I/sqrt(2 pi)` has an absolute rounding of a few 1e-16
    # and quad is observed to deliver the integral to ~1e-14 on these integrands (its documented default 1.5e-8 would hide an
    # error in every BER below 1e-8): 1e-12 absolute
    # The library integrates with scipy's quad at its DEFAULT tolerances: the result is guaranteed to max(1.49e-8, 1.49e-8*|I|)
    # absolute, no better (seed 133 of a sweep: 7.74e-11 returned for an exact 7.57e-11 on the unchanged tree — an absolute error
    # of 1.7e-12).  A tighter absolute tolerance (1e-12, tried after round 3) demands more than the code promises.  What keeps the
    # tail honest is a separate order-of-magnitude clause: for M = 2 and Q >= 1e-11 the value must stay within a factor 2 of the closed form.
    qtol = 1.5e-8 * fac + 1e-9 * abs(soft)
    if M == 2:
        q = float(_Q(mu / math.sqrt(s0 ** 2 + s1 ** 2)))
        if _gt(abs(soft - q), qtol + 1e-9 * q):
            v.append(("C13:ppm-soft-M2", f"ppm.theory_BER(soft, M=2) = {soft!r}, Q(mu/sqrt(s0^2+s1^2)) = {q!r}"))
        elif q > 1e-11 and not (0.5 * q <= soft <= 2.0 * q):      # below ~1e-13 the code's 1 - I/sqrt(2 pi) is pure rounding (4.4e-16 floor)
            v.append(("C13:ppm-soft-M2-magnitude", f"ppm.theory_BER(soft, M=2) = {soft!r} is not within a factor 2 of Q(mu/sqrt(s0^2+s1^2)) = {q!r}"))
    if _gt(soft, hard + qtol + a14):
        v.append(("C13:ppm-soft-le-hard", f"M={M}: soft {soft!r} > hard {hard!r}"))
    for name, val in (("hard", hard), ("soft", soft), ("est-hard", eh), ("est-soft", es)):
        if not (-qtol - a14 <= val <= fac * (1 + 1e-12)):
            v.append(("C13:ppm-bound", f"{name}: BER {val!r} outside [0, M/(2(M-1)) = {fac}]"))
    for dec, val in (("hard", hard), ("soft", soft)):
        up = res["theory_up_" + dec]["ok"]
        if _gt(up, val * (1 + 1e-9) + (a14 if dec == "hard" else 2 * qtol)):
            v.append((f"C13:ppm-monotone:{dec}", f"ppm.theory_BER({dec}) increases with mu: {val!r} at {mu}, {up!r} at {1.07 * mu}"))
    # shift invariance
    d = case["shift"]
    slack = 1e-12 * (abs(d) + abs(mu1)) / min(s0, s1) * 40 * M + 1e-9
    for dec, tol in (("hard", a14), ("soft", 1e-12)):
        a, b = res["est_" + dec]["ok"], res["est_shift_" + dec]["ok"]
        if not _close(a, b, slack, tol):
            v.append(("C13:ppm-shift", f"estimator({dec}) changes under a common shift by {d}: {a!r} -> {b!r}"))
    ts = res["thr_shift"]["ok"]
    if _gt(abs((ts - d) - thr), 1e-9 * (abs(d) + abs(mu1))) and not _close(float(f(ts - d - mu0)) * fac, fe, 1e-9 + slack, a14):
        v.append(("C13:ppm-shift-threshold", f"threshold does not follow a common shift by {d}: {thr!r} -> {ts!r}"))
    return v


def _oracle_rx(case, res):
    v = []
    c = res["consts"]
    mod = case["modulation"].lower()
    M = 2 if mod == "ook" else case["M"]
    if not case["amplify"] and ("ok" not in res["avg"] or "ok" not in res["nvar"]):
        return [("C13:unamplified-ignores-amplify-flag", f"average_voltages / noise_variances fail for amplify=False "
                 f"(G={case['G']}, BW_opt={case['BW_opt']}): {res['avg']} {res['nvar']}")]
    for name in ("pase", "avg", "nvar", "tb"):
        if not _need(v, "utils." + name, res[name]):
            return v
    # --- closed forms of the statement, evaluated independently
    er = math.inf if case["ER"] is None else 10 ** (case["ER"] / 10)
    pavg = 10 ** (case["P_avg"] / 10 - 3)
    p_on = pavg * M / (1 + (M - 1) / er)
    p_off = p_on / er
    if case["amplify"]:
        g, nf = 10 ** (case["G"] / 10), 10 ** (case["NF"] / 10)
        pase = nf * c["h"] * (c["c"] / case["wavelength"]) * (g - 1) * case["BW_opt"]
        l = case["BW_el"] / case["BW_opt"]
    else:
        g, pase, l = 1.0, 0.0, 1.0
    r, RL, B = case["r"], case["R_L"], case["BW_el"]
    mu_ase = r * pase * RL
    mu = [r * g * p_off * RL + mu_ase, r * g * p_on * RL + mu_ase]
    nfel = 10 ** (case["NF_el"] / 10)
    S = [4 * c["kB"] * case["T"] * B * RL * nfel + 2 * c["e"] * m * B * RL + 2 * mu_ase * (m - mu_ase) * l + mu_ase ** 2 * (1 - l / 2) * l for m in mu]
    if not _close(res["pase"]["ok"], pase, 1e-9, 1e-300):
        v.append(("C13:p_ase", f"utils.p_ase = {res['pase']['ok']!r}, closed form {pase!r}"))
    got_mu = [res["avg"]["ok"]["mu"][0][0], res["avg"]["ok"]["mu"][1][0]]
    if not all(_close(a, b, 1e-9, 1e-300) for a, b in zip(got_mu, mu)) or not _close(res["avg"]["ok"]["mu_ase"], mu_ase, 1e-9, 1e-300):
        tag = "C13:unamplified-ignores-amplify-flag" if not case["amplify"] else "C13:levels"
        v.append((tag, f"average_voltages = {got_mu} / {res['avg']['ok']['mu_ase']!r}, receiver model: {mu} / {mu_ase!r} (amplify={case['amplify']}, G={case['G']})"))
    got_S = [res["nvar"]["ok"][0][0], res["nvar"]["ok"][1][0]]
    if not all(_close(a, b, 1e-9, 1e-300) for a, b in zip(got_S, S)):
        tag = "C13:unamplified-ignores-amplify-flag" if not case["amplify"] else "C13:variances"
        v.append((tag, f"noise_variances = {got_S}, thermal+shot+sig-ASE+ASE-ASE of the receiver model = {S} (amplify={case['amplify']})"))
    # --- theory_BER = error integral on the levels / variances returned by average_voltages / noise_variances
    if not all(math.isfinite(x) for x in got_S + got_mu):
        return v or [("C13:variances", f"average_voltages / noise_variances returned non-finite values: {got_mu} {got_S}")]
    if min(got_S) <= 0:
        return v          # T = 0 with ER = inf and no ASE: a noise-free OFF level, outside "s0, s1 > 0" of the error-integral clauses
    s0, s1 = math.sqrt(got_S[0]), math.sqrt(got_S[1])
    m0, m1 = got_mu
    tb = res["tb"]["ok"][0]
    fac = M / 2 / (M - 1)
    dec = (case["decision"] or "").lower()
    if mod == "ook":
        f = lambda x: 0.5 * (_Q((m1 - x) / s1) + _Q((x - m0) / s0))    # noqa: E731
        a_abs = 0.0
    else:
        f = lambda x: (1 - _Q((x - m1) / s1) * (1 - _Q((x - m0) / s0)) ** (M - 1)) * fac     # noqa: E731
        a_abs = 4e-14
    if mod == "ppm" and dec == "soft":
        from scipy.integrate import quad
        I = quad(lambda x: (1 - _Q((m1 - m0 + s1 * x) / s0)) ** (M - 1) * math.exp(-x * x / 2), -np.inf, np.inf)[0]
        want = (1 - I / math.sqrt(2 * math.pi)) * fac
        if _gt(abs(tb - want), 1e-12 * fac + 1e-9 * want):
            v.append(("C13:tb-soft", f"utils.theory_BER(soft) = {tb!r}, Gaussian integral on the model's levels/variances = {want!r}"))
    elif case["threshold"] is not None:
        want = float(f(case["threshold"] * m1 + (1 - case["threshold"]) * m0))
        if not _close(tb, want, 1e-7, a_abs):
            v.append(("C13:tb-threshold", f"utils.theory_BER(threshold={case['threshold']}) = {tb!r}, error integral at that level = {want!r}"))
    else:
        tmin = _true_min(f, m0, m1)
        gmin = _grid_ref(f, m0, m1, 5000)
        if _lt(tb, tmin - 1e-9 * tmin - a_abs) or _gt(tb, gmin * (1 + 1e-9) + a_abs):
            v.append(("C13:tb-integral", f"utils.theory_BER = {tb!r} not in [true minimum {tmin!r}, 5000-point grid minimum {gmin!r}] of the error "
                      f"integral on the levels/variances of average_voltages/noise_variances"))
    if not (-1e-12 <= tb <= fac * (1 + 1e-12)):
        v.append(("C13:tb-bound", f"utils.theory_BER = {tb!r} outside [0, {fac}]"))
    # --- decreasing with received power (optimum threshold only)
    if case["threshold"] is None and "ok" in res.get("tb_up", {}):
        up = res["tb_up"]["ok"][0]
        slack = 1e-12 * fac if dec == "soft" and mod == "ppm" else a_abs
        if _gt(up, tb * (1 + 1e-3) + slack):
            v.append(("C13:tb-monotone", f"utils.theory_BER increases with received power: {tb!r} at {case['P_avg']} dBm, {up!r} one dB above"))
    return v


def _oracle_optthr(case, res):
    v = []
    items = []
    if case["kind"] == "optthr":
        if not _need(v, "utils.optimum_threshold", res["thr"]):
            return v
        items.append((case["mu0"], case["mu1"], case["S0"], case["S1"], res["thr"]["ok"]))
    elif case["kind"] in ("optthr-scale", "optthr-rx"):
        if case["kind"] == "optthr-rx" and not res.get("pts"):
            return [("C13:raises:optthr-rx", f"average_voltages / noise_variances failed: {res.get('avg')} {res.get('nvar')}")]
        for p in res["pts"]:
            if not _need(v, "utils.optimum_threshold", p["thr"]):
                return v
            items.append((p["mu0"], p["mu1"], p["S0"], p["S1"], p["thr"]["ok"]))
        # scale covariance: (mu, S) -> (alpha mu, alpha^2 S) must give alpha times the threshold
        base = res["pts"][0]
        for p in res["pts"][1:]:
            a, t0, t1 = p["alpha"], base["thr"]["ok"], p["thr"]["ok"]
            if math.isnan(t0) and math.isnan(t1):
                continue
            cond = max(1.0, (base["S0"] + base["S1"]) / abs(base["S1"] - base["S0"]))
            if not abs(t1 - a * t0) <= 1e-9 * cond * a * max(abs(t0), abs(base["mu1"]), abs(base["mu0"])):
                v.append(("C13:optthr-scale", f"optimum_threshold is not scale covariant: levels ({base['mu0']},{base['mu1']}), variances "
                          f"({base['S0']},{base['S1']}) give {t0!r}; scaled by alpha={a:g} (variances by alpha^2) give {t1!r}, expected {a * t0!r}"))
    else:
        if not _need(v, "utils.optimum_threshold(arrays)", res["thr"]) or any("ok" not in e for e in res["each"]):
            return v or [("C13:raises:optimum_threshold", f"{res['each']}")]
        for i in range(3):
            items.append((case["mu0"], case["mu1"][i], case["S0"][i], case["S1"][i], res["thr"]["ok"][i]))
            if not _close(res["thr"]["ok"][i], res["each"][i]["ok"], 1e-12, 0.0, nan_ok=True):
                v.append(("C13:vectorise:optimum_threshold", f"array result {res['thr']['ok']} != element-wise {[e['ok'] for e in res['each']]}"))
                break
    M = 2 if case["modulation"].lower() == "ook" else case["M"]
    for mu0, mu1, S0, S1, thr in items:
        disc = (mu1 - mu0) ** 2 + 2 * (S1 - S0) * math.log(math.sqrt(S1 / S0) * (M - 1))
        if S0 != S1 and disc < 0:
            continue          # the two densities do not cross: outside the clause
        if math.isnan(thr):
            v.append(("C13:optthr-nan", f"optimum_threshold({mu0},{mu1},{S0},{S1},M={M}) = nan"))
            continue
        # (M-1) N(r;mu0,S0) = N(r;mu1,S1) in the log domain
        lhs = math.log(M - 1) - (thr - mu0) ** 2 / (2 * S0) - 0.5 * math.log(2 * math.pi * S0) if M > 2 else \
            -(thr - mu0) ** 2 / (2 * S0) - 0.5 * math.log(2 * math.pi * S0)
        rhs = -(thr - mu1) ** 2 / (2 * S1) - 0.5 * math.log(2 * math.pi * S1)
        scale = max(abs((thr - mu0) ** 2 / (2 * S0)), abs((thr - mu1) ** 2 / (2 * S1)), abs(math.log(2 * math.pi * S0)), 1.0)
        # cancellation in the closed form when S1 -> S0
        cond = 1.0 if S0 == S1 else max(1.0, (S0 + S1) / abs(S1 - S0))
        if _gt(abs(lhs - rhs), 1e-9 * scale * cond):
            v.append(("C13:optthr-crossing", f"optimum_threshold({mu0},{mu1},{S0},{S1},M={M}) = {thr!r} does not solve (M-1)N(r;mu0,S0) = N(r;mu1,S1): "
                      f"log sides {lhs!r} vs {rhs!r}"))
        if S0 == S1 and M == 2 and _gt(abs(thr - (mu0 + mu1) / 2), 1e-12 * max(abs(mu0), abs(mu1))):
            v.append(("C13:optthr-midpoint", f"equal variances, OOK: threshold {thr!r} is not the midpoint {(mu0 + mu1) / 2!r}"))
    return v


def _oracle_device_pd(case, res):
    v = []
    if "ok" not in res["pd"] or "ok" not in res["nvar"] or "ok" not in res["avg"] or len(res["pd_calls"]) != 2:
        if not ("ok" in res["nvar"] and "ok" in res["avg"]):
            return [("C13:unamplified-ignores-amplify-flag", f"noise_variances / average_voltages fail for an unamplified receiver: {res['nvar']} {res['avg']}")]
        return [("C13:raises:device-pd", f"{res['pd']} calls={len(res['pd_calls'])}")]
    RL = case["R_L"]
    th, sh = res["pd_calls"][0]["scale"] ** 2, res["pd_calls"][1]["scale"] ** 2        # A^2
    c = res["consts"]
    B = res["fs"] / 2
    mu_on = res["avg"]["ok"][1]
    want_on = res["nvar"]["ok"][1]
    got_on = (th + sh) * RL ** 2
    if not _close(got_on, want_on, 1e-9):
        v.append(("C13:units-pd", f"PD noise power (sigma_th^2 + sigma_sh^2) R_L^2 = {got_on!r} V^2, utils.noise_variances(ON slot, B=fs/2) = {want_on!r} V^2"))
    th_v = 4 * c["kB"] * case["T"] * B * RL * 10 ** (case["NF_el"] / 10)
    if not _close(th * RL ** 2, th_v, 1e-9, 1e-300):
        v.append(("C13:units-pd-thermal", f"PD thermal sigma^2 R_L^2 = {th * RL ** 2!r}, 4 kB T B R_L Fn = {th_v!r}"))
    if not _close(sh * RL ** 2, 2 * c["e"] * mu_on * B * RL, 1e-9, 1e-300):
        v.append(("C13:units-pd-shot", f"PD shot sigma^2 R_L^2 = {sh * RL ** 2!r}, 2 e mu B R_L = {2 * c['e'] * mu_on * B * RL!r}"))
    return v


def features(case, res):
    f = ["kind=" + case["kind"], "status=" + str(res.get("status"))]
    k = case["kind"]
    if k == "geteye":
        f.append("geteye=" + ("measured:" + case["modulation"] if "sub" in res else "unusable"))
        f.append("geteye-threshold-attr=" + ("none" if res.get("eye_threshold_attr") is None else "number"))
        return f
    if k in ("ook", "ppm"):
        x = case.get("extra") or {}
        f.append("eye-extra=" + ("none" if not x else "threshold-only" if len(x) == 1 else "GET_EYE-like"))
        if x:
            t = x.get("threshold")
            f.append("eye-threshold=" + ("None" if t is None else "inside" if case["mu0"] < t < case["mu1"] else "outside-or-edge"))
    if k in ("ook", "ppm"):
        f.append("equal-sigma" if case["s0"] == case["s1"] else "unequal-sigma")
        f.append("mu0=0" if case["mu0"] == 0 else "mu0!=0")
        x = (case["mu1"] - case["mu0"]) / max(case["s0"], case["s1"])
        f.append("snr<3" if x < 3 else "snr<10" if x < 10 else "snr>=10")
    if k in ("ppm", "err-ppm", "vec"):
        f.append(f"M={case['M']}")
    if k in ("rx", "rxvec", "err-rx"):
        f += ["amplified" if case["amplify"] else ("unamplified+args" if case["give"] else "unamplified-bare"),
              "mod=" + str(case["modulation"]).lower(), "dec=" + str(case["decision"]).lower(),
              "thr=given" if case["threshold"] is not None else "thr=optimum", "ER=inf" if case["ER"] is None else "ER=finite",
              "tb=" + ("ok" if "ok" in res.get("tb", {}) else str(res.get("tb", {}).get("exc")))]
    if k == "optthr":
        f.append("S0==S1" if case["S0"] == case["S1"] else "S0!=S1")
    if k in ("optthr-scale", "optthr-rx"):
        for p in res.get("pts", []):
            f.append("optthr S~1e%d" % round(math.log10(max(p["S0"], 1e-300))))
            f.append("optthr S1/S0 " + ("<1.2" if p["S1"] / p["S0"] < 1.2 and p["S1"] >= p["S0"] else "in[1.2,10]" if 1.2 <= p["S1"] / p["S0"] <= 10 else "other"))
    return f


def nontrivial_key(case, res):
    if res.get("status") != "done" or case["kind"].startswith("err") or (case["kind"] == "geteye" and "sub" not in res):
        return None
    return (case["kind"], repr(sorted((k, repr(v)) for k, v in case.items())))
