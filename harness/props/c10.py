"""C10 — EDFA applies gain G to all of its input and adds ASE of the documented power."""
import math
import warnings

import numpy as np

from harness.common.wire import enc_f, enc_flist, exc_enum, Toks
from harness.common.watchdog import time_limit, Timeout
from harness.props import _optfield as F

ID = "C10"
MANIFEST = {
    "text": "Lean 4 theorems (Props/C10.lean) over the generic model Model/Edfa.lean (one definition, read at R:=Real for proofs and "
            "run at R:=Float against the real EDFA with the spied np.random.randn(4,N) draw as input; the gain, P_ase and ASE-scale "
            "expressions, the draw shape and the row pairing are translated from the source on every run into Gen/OptDev.lean): out.signal = sqrt(G) in.signal "
            "on the polarisations present, y row identically zero for a one-polarisation input, power gain exactly 10^(G_dB/10) per "
            "sample; out.noise = sqrt(G) in.noise (same polarisations, nothing on y for 1-pol) + ASE with ASE_x = s(d0+j d2), "
            "ASE_y = s(d1+j d3), s = sqrt(P_ase/4); output always two rows of the input length with a noise part; P_ase = "
            "10^(NF/10) h f0 (10^(G/10)-1) fs, >= 0 for G_dB >= 0; the four real components carry s^2 = P_ase/4 each, total P_ase "
            "(also on realisations: unit sample second moments => sample power N P_ase); G Ps/(G Pn+P_ase) <= Ps/Pn (strict when ASE>0); "
            "TypeError exactly for non-optical input.  Tie: Float run of the same definitions vs EDFA on random fields (1/2 pol, "
            "+-noise, int/float/complex), gv set explicitly, randn spied; oracle uses the statement's noise-free twin call.",
    "note": "Trusted: Lean kernel + Mathlib, translator tools/extractors/optdev.py, harness, numpy arithmetic = textbook formulas to 1e-9 relative, scipy.constants.h, libm. "
            "BW: model = C11's filter model composed after the EDFA model (coefficients spied, draw replayed) + oracle composition check. "
            "Sample ASE power / independence / zero mean: oracle only, 6-sigma bands on >= 2^16 samples. "
            "Axioms: propext, Classical.choice, Quot.sound.",
    "technique": "Lean 4 proof over a generic numeric model (algebra over R, induction over sample lists); Float differential "
                 "correspondence run with the random draw spied and replayed; statistical oracle for the distributional clause",
    "design": "§5 C10",
}
GEN = ["OptDev"]
RULE = ("cases = EDFA calls on random optical fields (N in {1,2,3,5,8,16,33,64,257}, 1/2 pol, incoming noise none/random/zero-sum/zero, "
        "dtype complex/float/int/mixed = real-dtype signal with complex-dtype noise attached after construction) x G_dB in [0,40] (incl. 0 and 40) x NF_dB in [3,10] x gv set explicitly in every form ((sps,R), (sps,fs), (R,fs) incl. fs not a multiple of R, fs alone; with/without slot count N; wavelength) x numpy seed; "
        "plus long records (65537, 100003, 131073 samples; per-sample ASE bookkeeping), chains of two amplifiers (second stage fed with the first stage's output object, draws of both spied), BW cases (BW partly from a small fixed set so that it recurs under different sampling rates; reference = Bessel filter designed afresh by scipy for the rate in force), BW histories (one BW under 2-3 sampling rates in sequence and back, within one process), non-optical inputs (ndarray, electrical_signal, list, scalar, None, binary_sequence) and "
        "ASE soaks of 2^16..2^18 samples. non-trivial = accepted call with N>=2, non-zero field; distinct by (n_pol, noise kind, dtype, N, G, NF, gv)")
PARTIAL = [
    "sample ASE power = P_ase, zero mean, equal variance P_ase/4 of the four real components and their mutual independence: "
    "statistical oracle (6-sigma bands, >= 2^16 samples; several seeds and 2^18 samples in the thorough tier), not a theorem; the "
    "theorem states the scale factors handed to the unit-variance generator",
    "BW argument: modelled as C11's Filter.bpf after edfa with the sections / zi / pad length spied from scipy (theorems edfa_bw_*: "
    "definitional composition, all four rows filtered alike, out.noise = bpf(sqrt(G) in.noise + ase) = bpf(sqrt(G) in.noise) + bpf(ase), "
    "lengths); the oracle also checks EDFA(x,G,NF,BW) == BPF(EDFA(x,G,NF),BW) on the same draw; the shape of the Bessel response is "
    "C11's (oracle-only) subject",
    "OSNR clause is proved as the power-budget inequality G Ps/(G Pn+P_ase) <= Ps/Pn (expected powers), not on sample powers",
    "floating-point rounding: theorems are over the reals; the Float run agrees with numpy to 1e-9 relative",
]
ASSUMPTIONS = [
    "np.random.randn returns independent unit-variance normal samples (numpy RNG trusted; its draw is an input of the model)",
    "numpy computes real*complex, sqrt and 10**x as the textbook formulas up to a few ulp",
    "the driver evaluates the same Lean definitions the theorems are about (Lean code generator, Float instance of Transc)",
]
BUDGET = {"quick": 120, "thorough": 900}
EXHAUSTIVE = {"quick": False, "thorough": False}

LENS = [1, 2, 3, 5, 8, 16, 33, 64, 257]
BW_FIXED = [2e9, 3e9, 4e9, 10e9, 25e9]
# documented positional order of EDFA (signature of /repo HEAD 8caea4c, recorded here as a literal)
POSITIONAL = {"EDFA": ["input", "G", "NF", "BW"]}
BAD_INPUTS = ["ndarray", "ndarray2d", "esig", "list", "float", "int", "none", "binseq", "str", "complex"]


def _gvspec(rng):
    """every way of configuring gv: (sps, R), (sps, fs), (R, fs) — also with fs NOT an integer multiple of R —, fs alone (R stays
    at its 1e9 default), each optionally with a slot count N in force.  Absent arguments are None."""
    wl = rng.choice([1550e-9, 1550e-9, 1310e-9, 1530.33e-9])
    form = rng.choice(["sps,R", "sps,R", "sps,fs", "R,fs", "R,fs", "fs"])
    g = {"form": form, "sps": None, "R": None, "fs": None, "N": rng.choice([None, None, 4, 10]), "wavelength": wl}
    if form == "sps,R":
        g.update(sps=rng.choice([4, 8, 16, 32]), R=rng.choice([1e9, 2.5e9, 10e9, 40e9]))
    elif form == "sps,fs":
        g.update(sps=rng.choice([4, 8, 16, 32]), fs=rng.choice([16e9, 25e9, 40e9, 64e9, 12.4e9]))
    elif form == "R,fs":
        R, fs = rng.choice([(10e9, 25e9), (10e9, 35e9), (10e9, 40e9), (2.5e9, 16e9), (1e9, 12.4e9), (10e9, 80e9), (4e9, 30e9)])
        g.update(R=R, fs=fs)
    else:
        g.update(fs=rng.choice([12.4e9, 16e9, 20.5e9, 33.3e9]))
    return g


def _fs_req(g):
    """the sampling rate the configuration asks for"""
    return float(g["fs"]) if g.get("fs") else float(g["sps"]) * float(g["R"])


def _gv_apply(g):
    from opticomlib.typing import gv
    gv.clean()
    gv(**{k: g[k] for k in ("sps", "R", "fs", "N", "wavelength") if g.get(k) is not None})


def _gnf(rng):
    return (rng.choice([0.0, 40.0, 20.0, 3.0, 10.0, rng.uniform(0, 40), rng.uniform(0, 40)]),
            rng.choice([3.0, 10.0, 5.0, rng.uniform(3, 10)]))


def gen_cases(rng, tier):
    cases = []
    n_main = 150 if tier == "quick" else 3000
    lens = LENS if tier == "quick" else LENS + [7, 31, 100, 1024]
    for _ in range(n_main):
        n = rng.choice(lens)
        npol = rng.choice([1, 2])
        nk = rng.choice(["none", "none", "random", "random", "zerosum", "zero"])
        dt = rng.choice(["complex", "complex", "complex", "float", "int", "mixed"])
        if dt == "mixed" and nk in ("none", "zero"):
            nk = "random"                 # real-dtype signal with a genuinely complex noise part
        sc = rng.choice([1.0, 1e-3, 1e-2, 30.0])
        G, NF = _gnf(rng)
        dark = rng.choice([0, 1]) if (npol == 2 and rng.random() < 0.2) else None      # x-only / y-only field, noise on both rows
        cases.append({"kind": "edfa", "field": F.gen_field(rng, n, npol, nk, dt, sc, dark), "G": G, "NF": NF, "BW": None,
                      "gv": _gvspec(rng), "np_seed": rng.randrange(1 << 31)})
    # chains of two amplifiers: the second one receives what the first returned (for a real-dtype field: real .signal, complex .noise)
    for _ in range(30 if tier == "quick" else 400):
        n = rng.choice(lens)
        dt = rng.choice(["float", "float", "int", "complex", "mixed"])
        nk = rng.choice(["none", "random", "zerosum"]) if dt != "mixed" else "random"
        G, NF = _gnf(rng)
        G2, NF2 = _gnf(rng)
        cases.append({"kind": "edfa", "field": F.gen_field(rng, n, rng.choice([1, 2]), nk, dt, rng.choice([1.0, 1e-3])), "G": G, "NF": NF,
                      "BW": None, "stage2": {"G": G2, "NF": NF2}, "gv": _gvspec(rng), "np_seed": rng.randrange(1 << 31)})
    for _ in range(30 if tier == "quick" else 300):
        n = rng.choice([16, 17, 33, 64, 128, 257, 8, 15])       # 4th-order Bessel: padding 15 -> rows of <= 15 samples are rejected
        g = _gvspec(rng)
        G, NF = _gnf(rng)
        fs_ = _fs_req(g)
        bw = rng.uniform(0.05, 0.8) * fs_
        if rng.random() < 0.5:
            # a small fixed set, so that the same BW value recurs in one process under different sampling rates
            fit = [b for b in BW_FIXED if b < 0.9 * fs_]
            bw = rng.choice(fit) if fit else bw
        cases.append({"kind": "edfa_bw", "field": F.gen_field(rng, n, rng.choice([1, 2]), rng.choice(["none", "random", "random", "zerosum"]),
                                                                rng.choice(["complex", "complex", "float"]), rng.choice([1.0, 1e-3])),
                      "G": G, "NF": NF, "BW": bw, "gv": g, "np_seed": rng.randrange(1 << 31)})
    # histories: the SAME BW under 2-3 different sampling rates in sequence and back to the first, within one run_impl
    for _ in range(8 if tier == "quick" else 60):
        n = rng.choice([16, 33, 64, 128])
        rates = rng.sample([(4, 1e9), (8, 1e9), (16, 1e9), (32, 1e9), (4, 2.5e9), (16, 2.5e9), (8, 10e9), (64, 1e9)], rng.choice([2, 3]))
        seq = rates + [rates[0]]
        fmin = min(a * b for a, b in seq)
        bw = rng.choice([b for b in BW_FIXED if b < 0.9 * fmin] + [rng.uniform(0.1, 0.85) * fmin])
        G, NF = _gnf(rng)
        cases.append({"kind": "edfa_hist", "field": F.gen_field(rng, n, rng.choice([1, 2]), rng.choice(["none", "random", "zerosum"]), "complex", 1.0),
                      "G": G, "NF": NF, "BW": bw, "seq": [{"sps": a, "R": b, "wavelength": 1550e-9} for a, b in seq],
                      "gv": {"sps": seq[0][0], "R": seq[0][1], "wavelength": 1550e-9}, "np_seed": rng.randrange(1 << 31)})
    for b in BAD_INPUTS:
        G, NF = _gnf(rng)
        cases.append({"kind": "edfa_bad", "bad": b, "field": None, "G": G, "NF": NF, "BW": None, "gv": _gvspec(rng),
                      "np_seed": rng.randrange(1 << 31)})
    # long records (beyond 2^16 samples, lengths that are not multiples of a power of two): every sample of the noise part must
    # carry its ASE — per-sample reconstruction from the spied draw; fields are built from a numpy seed, only summaries are kept
    longs = [65537, 100003, 131073] if tier == "quick" else [65537, 65536, 98304, 100003, 131072, 131073, 147456, 200000]
    for n in longs:
        for npol in (1, 2):
            cases.append({"kind": "edfa_long", "field": {"npol": npol, "n": n, "dtype": "complex", "sig": None, "noise": None,
                                                         "noise_kind": rng.choice(["none", "random", "zero"]), "seed": rng.randrange(1 << 31),
                                                         "scale": rng.choice([1.0, 1e-2])},
                          "G": rng.choice([20.0, 40.0, 3.0, rng.uniform(1, 40)]), "NF": rng.uniform(3, 10), "BW": None, "gv": _gvspec(rng),
                          "np_seed": rng.randrange(1 << 31)})
    soaks = [(1 << 16, 1)] if tier == "quick" else [(1 << 16, 6), (1 << 18, 3)]
    for n, k in soaks:
        for _ in range(k):
            npol = rng.choice([1, 2])
            # constant field: the soak looks at the noise part only
            fld = {"npol": npol, "n": n, "dtype": "complex", "noise_kind": "none", "const": [1e-2, 0.0], "sig": None, "noise": None}
            cases.append({"kind": "soak", "field": fld, "G": rng.choice([20.0, 30.0, rng.uniform(5, 40)]), "NF": rng.uniform(3, 10),
                          "BW": None, "gv": _gvspec(rng), "np_seed": rng.randrange(1 << 31)})
    rng.shuffle(cases)
    # histories first: a violation that depends on what the process did before is then first reported on a self-contained
    # (replayable) case rather than on an ordinary case that merely inherited the state
    cases.sort(key=lambda c: c["kind"] != "edfa_hist")
    return cases


# ------------------------------------------------------------------------------------------------
# implementation side
# ------------------------------------------------------------------------------------------------

def _bad_input(kind):
    from opticomlib.typing import electrical_signal, binary_sequence
    return {"ndarray": np.ones(8, dtype=complex), "ndarray2d": np.ones((2, 8)), "esig": electrical_signal(np.ones(8)),
            "list": [1.0, 2.0, 3.0], "float": 1.5, "int": 2, "none": None, "binseq": binary_sequence([1, 0, 1]),
            "str": "1 2 3", "complex": 1 + 2j}[kind]


def _call(fn, *a, **k):
    try:
        with time_limit(30):
            y = fn(*a, **k)
        return y, None
    except Timeout as e:
        return None, {"status": "timeout", "detail": str(e)}
    except Exception as e:  # noqa
        return None, {"status": "err", "err": exc_enum(e), "detail": repr(e)[:200]}


def _fresh_bpf(y, bw, fs, order=4):
    """the documented optical filter applied by scipy itself, designed NOW for the sampling rate in force (unspied originals):
    an n-th order Bessel low-pass (norm='mag') of cut-off BW/2, forward-backward; JSON dump or error record"""
    import scipy.signal as ssg
    try:
        sos = ssg.bessel(N=order, Wn=bw / 2, btype="low", fs=fs, output="sos", norm="mag")
        sig = ssg.sosfiltfilt(sos, np.asarray(y.signal), axis=-1)
        noi = None if y.noise is None else ssg.sosfiltfilt(sos, np.asarray(y.noise), axis=-1)
        return {"status": "ok", "sig": F.rows_of_array(sig), "noise": None if noi is None else F.rows_of_array(noi)}
    except Exception as e:  # noqa
        return {"status": "err", "err": exc_enum(e), "detail": repr(e)[:200]}


def _dumps_equal(a, b):
    """same error, or bit-identical signal / noise arrays (NaN == NaN)"""
    if a.get("status") != b.get("status"):
        return False
    if a.get("status") == "err":
        return a.get("err") == b.get("err")
    if a.get("status") != "ok":
        return True
    for part in ("sig", "noise"):
        if (a.get(part) is None) != (b.get(part) is None):
            return False
        if a.get(part) is not None and not np.array_equal(np.array(a[part], dtype=float), np.array(b[part], dtype=float), equal_nan=True):
            return False
    return a.get("shape") == b.get("shape")


LONG_WINDOW = 4096


def _run_long(case, res):
    """a long record: per-sample bookkeeping done here with numpy on the real output, only summaries are returned"""
    from opticomlib.typing import gv, optical_signal
    from opticomlib.devices import EDFA
    import scipy.constants as sc
    g_ = case["gv"]
    _gv_apply(g_)
    res.update(h=float(sc.h), f0=float(gv.f0), fs=float(gv.fs), fs_req=_fs_req(g_), sps_R=float(gv.sps) * float(gv.R))
    fl = case["field"]
    n, npol = fl["n"], fl["npol"]
    rs = np.random.RandomState(fl["seed"])
    shape = (n,) if npol == 1 else (2, n)
    sig = (rs.standard_normal(shape) + 1j * rs.standard_normal(shape)) * fl["scale"]
    noise = None
    if fl["noise_kind"] == "random":
        noise = (rs.standard_normal(shape) + 1j * rs.standard_normal(shape)) * 0.3 * fl["scale"]
    elif fl["noise_kind"] == "zero":
        noise = np.zeros(shape, dtype=complex)
    x = optical_signal(sig.copy(), None if noise is None else noise.copy())
    orig = np.random.randn
    rec = []

    def spy(*shp):
        v = orig(*shp)
        rec.append(v)
        return v
    np.random.seed(case["np_seed"])
    np.random.randn = spy
    try:
        y, err = _call(EDFA, x, case["G"], case["NF"])
    finally:
        np.random.randn = orig
    res["calls"] = [{"shape": [int(k) for k in v.shape]} for v in rec]
    if err:
        res["main"] = err
        return
    ys, yn = np.asarray(y.signal), (None if y.noise is None else np.asarray(y.noise))
    res["main"] = {"status": "ok", "cls": type(y).__name__, "npol": int(y.n_pol), "shape": list(ys.shape),
                   "noise_shape": None if yn is None else list(yn.shape)}
    if ys.shape != (2, n) or yn is None or yn.shape != (2, n):
        return
    g = math.sqrt(10.0 ** (case["G"] / 10.0))
    P = _p_ase(case, res)
    s = math.sqrt(P / 4) if P >= 0 else float("nan")
    sg = sig if npol == 2 else np.array([sig, np.zeros(n, dtype=complex)])
    nz = np.zeros((2, n), dtype=complex) if noise is None else (noise if npol == 2 else np.array([noise, np.zeros(n, dtype=complex)]))
    L = {"n": n, "sig_err": float(np.max(np.abs(ys - g * sg))) if np.all(np.isfinite(ys)) else float("nan"),
         "sig_scale": float(g * np.max(np.abs(sg)))}
    resid = yn - g * nz                      # what is left of the noise part after the amplified incoming noise: the ASE
    tolabs = 8 * 2.3e-16 * float(np.max(np.abs(g * nz)))
    L["tolabs"] = tolabs
    L["finite"] = bool(np.all(np.isfinite(yn)))
    empty = np.abs(resid) <= tolabs
    L["empty"] = [int(np.count_nonzero(empty[0])), int(np.count_nonzero(empty[1]))]
    L["first_empty"] = [int(np.argmax(empty[k])) if empty[k].any() else None for k in (0, 1)]
    tot = sum(int(v.size) for v in rec)
    L["drawn"] = tot
    if len(rec) == 1 and rec[0].shape == (4, n):
        d = rec[0]
        ref = np.array([s * (d[0] + 1j * d[2]), s * (d[1] + 1j * d[3])])
        dev = np.abs(resid - ref)
        L["ase_dev"] = float(np.max(np.where(np.isnan(dev), np.inf, dev)))
        L["ase_dev_at"] = [int(k) for k in np.unravel_index(int(np.argmax(np.where(np.isnan(dev), np.inf, dev))), dev.shape)]
        L["ase_mode"] = "per-sample"
    elif tot == 4 * n:
        dd = np.sort(np.abs(np.concatenate([v.ravel() for v in rec])))
        comp = np.sort(np.abs(np.concatenate([resid.real.ravel(), resid.imag.ravel()])))
        dev = np.abs(comp - s * dd)
        L["ase_dev"] = float(np.max(np.where(np.isnan(dev), np.inf, dev)))
        L["ase_dev_at"] = [int(np.argmax(np.where(np.isnan(dev), np.inf, dev)))]
        L["ase_mode"] = "order-statistics"
    else:
        L["ase_dev"], L["ase_mode"] = None, "draw-not-4N"
    L["dmax"] = float(max((np.max(np.abs(v)) for v in rec if v.size), default=0.0))
    pw = np.abs(resid[0]) ** 2 + np.abs(resid[1]) ** 2
    wins = []
    for a in range(0, n, LONG_WINDOW):
        w = pw[a:a + LONG_WINDOW]
        if w.size >= 256:
            wins.append([int(a), int(w.size), float(np.mean(w))])
    L["windows"] = wins
    res["long"] = L


def _run_hist(case, res):
    """EDFA(x, G, NF, BW) with one BW under a sequence of sampling rates (gv re-configured in between, back to the first at the end)"""
    from opticomlib.typing import gv
    import opticomlib.devices as dev
    import scipy.constants as sc
    from harness.props import c11
    x = F.build_field(case["field"])
    orig = np.random.randn
    steps = []
    res["steps"] = steps
    res["main"] = {"status": "ok"}
    for i, g in enumerate(case["seq"]):
        st = {"i": i}
        steps.append(st)
        gv.clean()
        gv(sps=g["sps"], R=g["R"], wavelength=g["wavelength"])
        st.update(h=float(sc.h), f0=float(gv.f0), fs=float(gv.fs), fs_req=float(g["sps"]) * float(g["R"]))
        rec = []

        def spy(*shape):
            v = orig(*shape)
            rec.append(v)
            return v
        np.random.seed(case["np_seed"] + i)
        np.random.randn = spy
        try:
            y0, err = _call(dev.EDFA, x, case["G"], case["NF"])
        finally:
            np.random.randn = orig
        st["unfiltered"] = err if err else {"status": "ok", **F.dump_signal(y0)}
        if err or len(rec) != 1 or rec[0].shape != (4, case["field"]["n"]):
            continue
        draw = rec[0]
        st["draw"] = [[float(v) for v in row] for row in draw]
        np.random.randn = lambda *shape: draw.copy()
        try:
            with c11._Spy(dev) as fspy:
                yb, err = _call(dev.EDFA, x, case["G"], case["NF"], case["BW"])
                fspy.on = False
                st["fparams"], st["fremarks"] = c11._params(fspy)
        finally:
            np.random.randn = orig
        st["bw"] = err if err else {"status": "ok", **F.dump_signal(yb)}
        st["ref"] = _fresh_bpf(y0, case["BW"], st["fs"])


def run_impl(case):
    from opticomlib.typing import gv, optical_signal
    from opticomlib.devices import EDFA, BPF
    import scipy.constants as sc
    res = {"status": "ok"}
    orig = np.random.randn
    spied = []

    def spy(*shape):
        v = orig(*shape)
        spied.append({"shape": [int(s) for s in shape], "values": v})
        return v

    try:
        with warnings.catch_warnings():
            warnings.simplefilter("ignore")
            if case["kind"] == "edfa_hist":
                _run_hist(case, res)
                return res
            if case["kind"] == "edfa_long":
                _run_long(case, res)
                return res
            g = case["gv"]
            _gv_apply(g)
            res.update(h=float(sc.h), f0=float(gv.f0), fs=float(gv.fs), fs_req=_fs_req(g), sps_R=float(gv.sps) * float(gv.R))
            if case["kind"] == "edfa_bad":
                x = _bad_input(case["bad"])
            elif case["kind"] == "soak":
                fl = case["field"]
                a = np.full(fl["n"], complex(*fl["const"]))
                x = optical_signal(a if fl["npol"] == 1 else np.array([a, a]))
            else:
                x = F.build_field(case["field"])
            np.random.seed(case["np_seed"])
            np.random.randn = spy
            y, err = _call(EDFA, x, case["G"], case["NF"])
            np.random.randn = orig
            res["calls"] = [{"shape": s["shape"]} for s in spied]
            if err:
                res["main"] = err
                if case["kind"] != "edfa_bad":
                    _, errk = _call(EDFA, **dict(zip(POSITIONAL["EDFA"][:3], (x, case["G"], case["NF"]))))
                    if not errk or errk.get("err") != err.get("err"):
                        res["positional"] = f"positional call {err.get('err')}, keyword call {(errk or {'err': 'ok'}).get('err')}"
                return res
            if case["kind"] == "soak":
                res["main"] = {"status": "ok", "cls": type(y).__name__, "npol": int(y.n_pol), "shape": list(y.signal.shape)}
                res["soak"] = _soak_stats(y, case["field"]["n"])
                return res
            res["main"] = {"status": "ok", **F.dump_signal(y)}
            # positional twin: the harness's main call passes (input, G, NF) by POSITION in the documented order; the same call
            # by keyword under the same numpy seed must give the identical result
            np.random.seed(case["np_seed"])
            yk, errk = _call(EDFA, **dict(zip(POSITIONAL["EDFA"][:3], (x, case["G"], case["NF"]))))
            kw = errk if errk else {"status": "ok", **F.dump_signal(yk)}
            if not _dumps_equal(res["main"], kw):
                res["positional"] = f"positional call ok, keyword call {str({k: kw.get(k) for k in ('status', 'err', 'detail')})[:160]}" + \
                    (" with different arrays" if kw.get("status") == "ok" else "")
            if len(spied) == 1 and spied[0]["values"].shape == (4, case["field"]["n"]):
                res["draw"] = [[float(v) for v in row] for row in spied[0]["values"]]
            # the statement's twin: same signal, no noise, same numpy seed -> its noise is the ASE realisation
            xt = optical_signal(x.signal.copy(), None, n_pol=x.n_pol)
            np.random.seed(case["np_seed"])
            t, err = _call(EDFA, xt, case["G"], case["NF"])
            res["twin"] = err if err else {"status": "ok", **F.dump_signal(t)}
            if case["BW"] is not None and len(spied) == 1:
                draw = spied[0]["values"]
                np.random.randn = lambda *shape: draw.copy()
                import opticomlib.devices as dev
                from harness.props import c11
                with c11._Spy(dev) as fspy:          # sections / padding scipy actually used (parameters of the C11 model)
                    yb, err = _call(EDFA, x, case["G"], case["NF"], case["BW"])
                    fspy.on = False
                    res["fparams"], res["fremarks"] = c11._params(fspy)
                res["bw"] = err if err else {"status": "ok", **F.dump_signal(yb)}
                ybk, errk = _call(EDFA, **dict(zip(POSITIONAL["EDFA"], (x, case["G"], case["NF"], case["BW"]))))
                kwb = errk if errk else {"status": "ok", **F.dump_signal(ybk)}
                if not _dumps_equal(res["bw"], kwb):
                    res["positional"] = f"with BW: positional call {res['bw'].get('status')}, keyword call {str({k: kwb.get(k) for k in ('status', 'err', 'detail')})[:160]}"
                np.random.randn = orig
                yf, err = _call(BPF, y, case["BW"])
                res["bpf"] = err if err else {"status": "ok", **F.dump_signal(yf)}
                res["ref"] = _fresh_bpf(y, case["BW"], res["fs"])
            if case.get("stage2"):
                g2 = case["stage2"]
                rec2 = []

                def spy2(*shape):
                    v = orig(*shape)
                    rec2.append(v)
                    return v
                st = {"status": "ok", "h": res["h"], "f0": res["f0"], "fs": res["fs"], "input": F.dump_signal(y),
                      "in_dtypes": [str(np.asarray(y.signal).dtype), None if y.noise is None else str(np.asarray(y.noise).dtype)]}
                np.random.seed(case["np_seed"] + 1)
                np.random.randn = spy2
                y2, err = _call(EDFA, y, g2["G"], g2["NF"])
                np.random.randn = orig
                st["calls"] = [{"shape": [int(k) for k in v.shape]} for v in rec2]
                st["main"] = err if err else {"status": "ok", **F.dump_signal(y2)}
                if not err:
                    if len(rec2) == 1 and rec2[0].shape == (4, case["field"]["n"]):
                        st["draw"] = [[float(v) for v in row] for row in rec2[0]]
                    xt2 = optical_signal(np.asarray(y.signal).copy(), None, n_pol=2)
                    np.random.seed(case["np_seed"] + 1)
                    t2, err = _call(EDFA, xt2, g2["G"], g2["NF"])
                    st["twin"] = err if err else {"status": "ok", **F.dump_signal(t2)}
                res["stage2"] = st
            after = F.dump_signal(x)
            if case["field"]["dtype"] == "complex" and (after["sig"] != case["field"]["sig"] or after["noise"] != case["field"]["noise"]):
                res["input_modified"] = True
    except Exception as e:  # noqa  (harness-level problem)
        res.update(status="err", err=exc_enum(e), detail=repr(e)[:300])
    finally:
        np.random.randn = orig
        gv.clean()
    return res


def _soak_stats(y, n):
    nz = np.asarray(y.noise)
    comps = np.array([nz[0].real, nz[1].real, nz[0].imag, nz[1].imag])      # d0, d1, d2, d3 order of the code
    c = np.corrcoef(comps)
    return {"n": int(n), "shape": list(nz.shape), "mean_power": float(np.mean(np.abs(nz[0]) ** 2 + np.abs(nz[1]) ** 2)),
            "var": [float(np.mean(v ** 2)) for v in comps], "mean": [float(np.mean(v)) for v in comps],
            "maxcorr": float(np.max(np.abs(c - np.eye(4)))),
            "lag1": [float(np.mean(v[1:] * v[:-1])) for v in comps],
            "sig_y_max": float(np.max(np.abs(np.asarray(y.signal)[1]))), "sig_x0": [float(np.asarray(y.signal)[0][0].real), float(np.asarray(y.signal)[0][0].imag)]}


# ------------------------------------------------------------------------------------------------
# model side
# ------------------------------------------------------------------------------------------------

def _secs(p):
    secs = [str(len(p["sos"]))]
    for row, z in zip(p["sos"], p["zi"]):
        secs += [enc_f(row[0]), enc_f(row[1]), enc_f(row[2]), enc_f(row[4]), enc_f(row[5]), enc_f(z[0]), enc_f(z[1])]
    return f"{p['edge']} " + " ".join(secs)


def _stage2(case, res):
    """the second amplifier of a chain as a case of its own: (case2, res2) or None"""
    st = res.get("stage2")
    if not case.get("stage2") or not st or (res.get("main") or {}).get("status") != "ok":
        return None
    inp = st["input"]
    fld = {"npol": 2, "n": case["field"]["n"], "dtype": "/".join(str(d) for d in st["in_dtypes"]), "noise_kind": "stage-1 output",
           "dark": None, "sig": inp["sig"], "noise": inp["noise"]}
    case2 = {"kind": "edfa", "field": fld, "G": case["stage2"]["G"], "NF": case["stage2"]["NF"], "BW": None, "gv": case["gv"],
             "np_seed": case["np_seed"] + 1}
    return case2, st


def model_requests(case, res):
    if res.get("status") != "ok" or "main" not in res:
        return []
    s2 = _stage2(case, res)
    if s2 is not None:
        first = model_requests(dict(case, stage2=None), res)
        return first + model_requests(*s2)
    if case["kind"] == "edfa_hist":
        reqs = []
        for st in res.get("steps", []):
            if st.get("fparams") and "draw" in st:
                consts = " ".join([enc_f(case["G"]), enc_f(case["NF"]), enc_f(st["h"]), enc_f(st["f0"]), enc_f(st["fs"])])
                reqs.append("edfa.runbw " + consts + " " + " ".join(enc_flist(r) for r in st["draw"]) + " " + _secs(st["fparams"]) + " "
                            + F.enc_field(case["field"]["sig"], case["field"]["noise"]))
        return reqs
    consts = " ".join([enc_f(case["G"]), enc_f(case["NF"]), enc_f(res["h"]), enc_f(res["f0"]), enc_f(res["fs"])])
    if case["kind"] == "edfa_bad":
        return ["edfa.run 0 " + consts + " 0 0 0 0"]
    if case["kind"] == "edfa_long":
        return []
    if case["kind"] == "soak":
        return ["edfa.pase " + " ".join([enc_f(case["NF"]), enc_f(case["G"]), enc_f(res["h"]), enc_f(res["f0"]), enc_f(res["fs"])])]
    if "draw" not in res:
        return []      # randn was not called as (4, N): the oracle reports it
    d = res["draw"]
    extra = []
    if case["kind"] == "edfa_bw" and res.get("fparams"):
        p = res["fparams"]
        secs = [str(len(p["sos"]))]
        for row, z in zip(p["sos"], p["zi"]):
            secs += [enc_f(row[0]), enc_f(row[1]), enc_f(row[2]), enc_f(row[4]), enc_f(row[5]), enc_f(z[0]), enc_f(z[1])]
        extra = ["edfa.runbw " + consts + " " + " ".join(enc_flist(r) for r in d) + f" {p['edge']} " + " ".join(secs) + " "
                 + F.enc_field(case["field"]["sig"], case["field"]["noise"])]
    return extra + ["edfa.run 1 " + consts + " " + " ".join(enc_flist(r) for r in d) + " " + F.enc_field(case["field"]["sig"], case["field"]["noise"]),
            "edfa.pase " + " ".join([enc_f(case["NF"]), enc_f(case["G"]), enc_f(res["h"]), enc_f(res["f0"]), enc_f(res["fs"])])]


def _compare_bw(case, res, rep):
    """EDFA(x, G, NF, BW) on the replayed draw against the model `edfaBW` (= C11's bpf after the EDFA model)"""
    from harness.props import c11
    out = ["BW: model parameters: " + rm for rm in res.get("fremarks") or []]
    bw = res.get("bw") or {}
    if bw.get("status") == "timeout":
        return out + ["BW: implementation timed out"]
    if bw.get("status") == "err":
        return out + ([] if rep == "err " + bw["err"] else [f"BW: implementation raised {bw['err']} ({bw.get('detail', '')[:80]}), model says {rep[:60]!r}"])
    if bw.get("status") != "ok":
        return out
    if not rep.startswith("ok "):
        return out + [f"BW: implementation returned a signal, model says {rep[:60]!r}"]
    m_rows, m_noise = c11._read_sig(rep, True)
    isig = F.c_rows(bw["sig"])
    inoise = None if bw["noise"] is None else F.c_rows(bw["noise"])
    un = res["main"]
    scale = F.scales(F.c_rows(un["sig"]), None if un.get("noise") is None else F.c_rows(un["noise"]))
    return out + F.diff_fields("edfa_bw", isig, inoise, [np.array(a, dtype=complex) for a in m_rows],
                               None if m_noise is None else [np.array(a, dtype=complex) for a in m_noise], scale)


def compare(case, res, reqs, replies):
    s2 = _stage2(case, res)
    if s2 is not None:
        k = len(model_requests(dict(case, stage2=None), res))
        return compare(dict(case, stage2=None), res, reqs[:k], replies[:k]) + \
            ["second amplifier of the chain (input dtypes " + s2[0]["field"]["dtype"] + "): " + d for d in compare(s2[0], s2[1], reqs[k:], replies[k:])]
    if case["kind"] == "edfa_hist":
        out, pos = [], 0
        for st in res.get("steps", []):
            tag = f"history step {st['i']} (fs={st.get('fs', 0):.4g}): "
            if st.get("fparams") and "draw" in st:
                sub = {"bw": st.get("bw"), "fremarks": st.get("fremarks"), "main": st["unfiltered"]}
                out += [tag + d for d in _compare_bw(case, sub, replies[pos])]
                pos += 1
            elif (st.get("bw") or {}).get("status") == "ok":
                out.append(tag + "a filtered signal was returned but scipy.signal.sosfiltfilt was never observed")
        return out
    pre = []
    if reqs and reqs[0].startswith("edfa.runbw"):
        pre = _compare_bw(case, res, replies[0])
        reqs, replies = reqs[1:], replies[1:]
    elif case["kind"] == "edfa_bw" and (res.get("bw") or {}).get("status") == "ok":
        pre = ["BW: the implementation returned a filtered signal but scipy.signal.sosfiltfilt was never observed"]
    return pre + _compare_main(case, res, reqs, replies)


def _compare_main(case, res, reqs, replies):
    if not reqs:
        return []
    m = res["main"]
    rep = replies[0]
    if case["kind"] == "soak":
        if not rep.startswith("ok "):
            return [f"model says {rep[:60]!r}"]
        t = Toks(rep[3:]); p = t.f()
        # the statistical oracle uses its own reference value; here the model's P_ase is tied to the measured power at 6 sigma
        n = res["soak"]["n"]
        if not (abs(res["soak"]["mean_power"] - p) <= 6 * p / math.sqrt(2 * n)):
            return [f"soak: measured ASE power {res['soak']['mean_power']:.6g} vs model P_ase {p:.6g} (6 sigma = {6 * p / math.sqrt(2 * n):.3g})"]
        return []
    if m["status"] == "timeout":
        return [f"implementation timed out, model says {rep[:40]}"]
    if m["status"] == "err":
        return [] if rep == "err " + m["err"] else [f"implementation raised {m['err']} ({m.get('detail', '')[:80]}), model says {rep[:60]!r}"]
    if not rep.startswith("ok "):
        return [f"implementation returned a signal, model says {rep[:60]!r}"]
    t = Toks(rep[3:])
    mx, my, mnx, mny = (np.array(t.clist(), dtype=complex) for _ in range(4))
    out = []
    if m["npol"] != 2 or m["noise"] is None:
        return [f"implementation returned n_pol={m['npol']} noise={'present' if m['noise'] is not None else 'absent'}; the model always returns two rows with noise"]
    isig = F.c_rows(m["sig"]); inoise = F.c_rows(m["noise"])
    fl = case["field"]
    g_ = math.sqrt(10.0 ** (case["G"] / 10.0))
    # signal relative to sqrt(G)*|input signal|; noise relative to what the model itself puts there (sqrt(G)*noise + ASE)
    scale = (max(g_ * F.maxabs(F.c_rows(fl["sig"])), 1e-300), max(F.maxabs([mnx, mny]), 1e-300))
    out += F.diff_fields("edfa", isig, inoise, [mx, my], [mnx, mny], scale)
    # scale factor sqrt(P_ase/4): reconstructed from the twin's ASE and the recorded draw
    if len(replies) > 1 and replies[1].startswith("ok ") and res.get("twin", {}).get("status") == "ok" and res["twin"]["noise"] is not None:
        t2 = Toks(replies[1][3:]); _p, s_model = t2.f(), t2.f()
        ase = F.c_rows(res["twin"]["noise"])
        d = np.array(res["draw"])
        den = np.concatenate([d[0], d[1], d[2], d[3]])
        num = np.concatenate([ase[0].real, ase[1].real, ase[0].imag, ase[1].imag])
        ok = np.abs(den) > 1e-3
        if np.any(ok):
            s_impl = float(np.median(num[ok] / den[ok]))
            if not (abs(s_impl - s_model) <= 1e-9 * abs(s_model)):
                out.append(f"ASE scale factor: implementation {s_impl:.12g}, model sqrt(P_ase/4) = {s_model:.12g}")
    return out


# ------------------------------------------------------------------------------------------------
# oracle (numpy reference, independent of the Lean model)
# ------------------------------------------------------------------------------------------------

def _p_ase(case, res):
    return 10.0 ** (case["NF"] / 10.0) * res["h"] * res["f0"] * (10.0 ** (case["G"] / 10.0) - 1.0) * res["fs"]


def _oracle_ref(tag, un, bw, ref):
    """`with a bandwidth argument the whole output is band-limited by the optical filter`: the output must be the documented
    Bessel filter — designed by scipy for the sampling rate in force NOW — of the unfiltered output on the same draw"""
    if not un or not bw or not ref or un.get("status") != "ok":
        return []
    if bw.get("status") == "timeout":
        return [("C10:timeout", f"{tag}: EDFA(..., BW) did not return")]
    if ref["status"] == "err":
        if not (bw.get("status") == "err" and bw.get("err") == ref["err"]):
            return [("C10:bw-short", f"{tag}: scipy rejects the row ({ref['err']}) but EDFA(x, BW) gives {str(bw)[:80]}")]
        return []
    if bw.get("status") != "ok":
        return [("C10:bw-accept", f"{tag}: EDFA(..., BW) failed: {str(bw)[:120]}")]
    sc = F.scales(F.c_rows(un["sig"]), None if un["noise"] is None else F.c_rows(un["noise"]))
    d = F.diff_fields("output vs bessel(BW/2, fs=gv.fs) applied to the unfiltered output", F.c_rows(bw["sig"]),
                      None if bw["noise"] is None else F.c_rows(bw["noise"]), F.c_rows(ref["sig"]),
                      None if ref["noise"] is None else F.c_rows(ref["noise"]), sc)
    if d:
        return [("C10:bw-filter", f"{tag}: " + "; ".join(d)[:300])]
    return []


def _oracle_long(case, res):
    """long record: gain on the signal, and EVERY sample of out.noise - sqrt(G)*in.noise is a fresh draw times sqrt(P_ase/4)"""
    v = []
    m, fl = res["main"], case["field"]
    n = fl["n"]
    tag = f"N={n}, n_pol={fl['npol']}, incoming noise {fl['noise_kind']}, G={case['G']:.4g} dB: "
    if m["status"] != "ok":
        return [("C10:accept", tag + f"EDFA rejected a valid optical input: {str(m)[:160]}")]
    if m["cls"] != "optical_signal" or m["npol"] != 2 or m["shape"] != [2, n] or m["noise_shape"] != [2, n]:
        return [("C10:layout", tag + f"output {m['cls']} n_pol={m['npol']} shape={m['shape']} noise_shape={m['noise_shape']}")]
    L = res.get("long")
    if not L:
        return [("C10:harness", tag + "no summary")]
    P = _p_ase(case, res)
    s = math.sqrt(P / 4)
    if not (L["sig_err"] <= 1e-12 * L["sig_scale"]):
        v.append(("C10:signal-gain:x", tag + f"signal is not sqrt(G)*input on the present polarisations / zero on y (max diff {L['sig_err']:.3e})"))
    if not L["finite"]:
        v.append(("C10:non-finite", tag + "the noise part contains NaN/inf"))
    if P > 0 and (L["empty"][0] or L["empty"][1]):
        k = 0 if L["empty"][0] else 1
        v.append(("C10:ase-missing", tag + f"{L['empty'][0]} x-samples and {L['empty'][1]} y-samples of the noise part carry no ASE at all "
                                         f"(out.noise - sqrt(G)*in.noise = 0, first at index {L['first_empty'][k]} of polarisation {'xy'[k]}); "
                                         f"{L['drawn']} standard-normal values were drawn for 4*{n} real components"))
    if L["ase_dev"] is not None and not (L["ase_dev"] <= 1e-9 * s * L["dmax"] + L["tolabs"]):
        v.append(("C10:ase-scale", tag + f"({L['ase_mode']}) out.noise - sqrt(G)*in.noise is not the unit-variance draws times sqrt(P_ase/4) = {s:.6g}: "
                                       f"deviation {L['ase_dev']:.3e} at {L['ase_dev_at']}"))
    for a, w, pm in L["windows"]:
        if not (abs(pm - P) <= 6 * P / math.sqrt(2 * w)):
            v.append(("C10:ase-power:window", tag + f"samples {a}..{a + w - 1}: mean ASE power {pm:.6g}, documented {P:.6g} (6 sigma = {6 * P / math.sqrt(2 * w):.3g})"))
            break
    return v


def oracle(case, res):
    v = []
    if res.get("status") != "ok":
        return [("C10:harness", f"could not build the inputs: {res.get('detail')}")]
    s2 = _stage2(case, res)
    if s2 is not None:
        # the statement applied to the second amplifier of the chain, whose input is what the first one returned
        v += [(sig + ":chain", f"second amplifier of a chain (its input = output of the first, dtypes signal/noise {s2[0]['field']['dtype']}): " + msg)
              for sig, msg in oracle(*s2)]
        return oracle(dict(case, stage2=None), res) + v
    m = res["main"]
    if m["status"] == "timeout":
        return [("C10:timeout", "EDFA did not return")]
    if res.get("positional"):
        v.append(("C10:positional:EDFA", f"EDFA called by position in the documented order {POSITIONAL['EDFA']} and by keyword gives different "
                                         f"outcomes: {res['positional']}"))
    if "fs_req" in res and not (abs(res["fs"] - res["fs_req"]) <= 1e-12 * res["fs_req"]):
        v.append(("C10:gv-fs", f"gv configured with {case['gv']} reports fs={res['fs']!r}, requested {res['fs_req']!r}"))
    for path, part, row, idx in F.nonfinite_outputs({k: res[k] for k in ("main", "twin", "bw", "bpf", "steps") if k in res})[:3]:
        # every generated input is finite, G/NF/gv inside the statement's ranges: the documented formulas give finite outputs
        v.append(("C10:non-finite", f"{path}: {part} row {row} sample {idx} is NaN/inf although all inputs are finite"))
    if case["kind"] == "edfa_long":
        return v + _oracle_long(case, res)
    if case["kind"] == "edfa_hist":
        for st in res.get("steps", []):
            tag = f"call {st['i']} of the history {[g['sps'] * g['R'] for g in case['seq']]} (fs={st.get('fs', 0):.4g}, BW={case['BW']:.4g})"
            v += _oracle_ref(tag, st.get("unfiltered"), st.get("bw"), st.get("ref"))
        return v
    if case["kind"] == "edfa_bad":
        if not (m["status"] == "err" and m["err"] == "TypeError"):
            v.append((f"C10:type-error:{case['bad']}", f"EDFA({case['bad']}) must raise TypeError, got {str(m)[:120]}"))
        return v
    if m["status"] != "ok":
        return [("C10:accept", f"EDFA rejected a valid optical input (G={case['G']}, NF={case['NF']}): {str(m)[:160]}")]
    fl = case["field"]
    n, npol = fl["n"], fl["npol"]
    # (how the generator is called, and whether the input object is touched, are not part of the statement: the first is
    #  checked by the correspondence with the model, the second belongs to C14 — both only appear in `features`)
    g = math.sqrt(10.0 ** (case["G"] / 10.0))
    P = _p_ase(case, res)
    if case["kind"] == "soak":
        s = res["soak"]
        if m["cls"] != "optical_signal" or m["npol"] != 2 or m["shape"] != [2, n] or s["shape"] != [2, n]:
            return v + [("C10:layout", f"output {m['cls']} n_pol={m['npol']} shape={m['shape']} noise={s['shape']}")]
        band = 6 * P / math.sqrt(2 * n)
        if not (abs(s["mean_power"] - P) <= band):
            v.append(("C10:ase-power", f"sample ASE power {s['mean_power']:.6g} W over {n} samples, documented NF*h*f0*(G-1)*fs = {P:.6g} W (6 sigma band {band:.3g})"))
        for k, (var, mean, l1) in enumerate(zip(s["var"], s["mean"], s["lag1"])):
            if not (abs(var - P / 4) <= 6 * (P / 4) * math.sqrt(2.0 / n)):
                v.append((f"C10:ase-variance:{k}", f"component {k}: variance {var:.6g}, documented P_ase/4 = {P / 4:.6g}"))
            if not (abs(mean) <= 6 * math.sqrt(P / 4 / n)):
                v.append((f"C10:ase-mean:{k}", f"component {k}: mean {mean:.3g} not zero within 6 sigma"))
            if not (abs(l1) <= 6 * (P / 4) / math.sqrt(n)):
                v.append((f"C10:ase-white:{k}", f"component {k}: lag-1 autocovariance {l1:.3g} not zero within 6 sigma"))
        if not (s["maxcorr"] <= 6 / math.sqrt(n)):
            v.append(("C10:ase-independence", f"correlation {s['maxcorr']:.3g} between ASE components exceeds 6/sqrt(N)"))
        c = complex(*fl["const"])
        if not (abs(complex(*s["sig_x0"]) - g * c) <= 1e-12 * abs(g * c)):
            v.append(("C10:signal-gain", "soak: x signal is not sqrt(G) * input"))
        if npol == 1 and not (s["sig_y_max"] == 0.0):
            v.append(("C10:y-zero", "soak: y-polarisation of a one-polarisation input carries signal"))
        return v
    # layout
    if m["cls"] != "optical_signal" or m["npol"] != 2 or m["shape"] != [2, n] or (m["noise"] is not None and m["noise_shape"] != [2, n]):
        return v + [("C10:layout", f"output {m['cls']} n_pol={m['npol']} shape={m['shape']} noise_shape={m['noise_shape']}, required two polarisations of {n} samples")]
    sig_in = F.c_rows(fl["sig"])
    noise_in = None if fl["noise"] is None else F.c_rows(fl["noise"])
    zeros2 = [np.zeros(n, dtype=complex), np.zeros(n, dtype=complex)]
    so = F.c_rows(m["sig"])
    no = zeros2 if m["noise"] is None else F.c_rows(m["noise"])      # no noise part == zero noise
    ssc = max(F.maxabs(sig_in) * g, 1e-300)
    # signal part
    if not F.close(so[0], g * sig_in[0], ssc, rel=1e-12, abs_=0.0):
        v.append(("C10:signal-gain:x", f"x signal is not sqrt(G)*input (max diff {F._maxdiff(so[0], g * sig_in[0]):.3e})"))
    if npol == 2:
        if not F.close(so[1], g * sig_in[1], ssc, rel=1e-12, abs_=0.0):
            v.append(("C10:signal-gain:y", f"y signal is not sqrt(G)*input (max diff {F._maxdiff(so[1], g * sig_in[1]):.3e})"))
    elif np.any(so[1] != 0):
        v.append(("C10:y-zero", f"y-polarisation of a one-polarisation input carries signal (max {np.max(np.abs(so[1])):.3g})"))
    # noise part through the twin call
    tw = res.get("twin", {})
    if tw.get("status") != "ok" or (tw.get("noise") is not None and tw.get("noise_shape") != [2, n]):
        v.append(("C10:twin", f"noise-free twin call failed or has no (2,N) noise: {str(tw)[:120]}"))
        return v
    ase = zeros2 if tw["noise"] is None else F.c_rows(tw["noise"])
    nsc = max(F.maxabs(no, ase), 1e-300)
    for k, name in ((0, "x"), (1, "y")):
        if noise_in is None:
            want = np.zeros(n, dtype=complex)
        elif k == 0 or npol == 2:
            want = g * noise_in[k]
        else:
            want = np.zeros(n, dtype=complex)
        got = no[k] - ase[k]
        if not F.close(got, want, nsc, rel=1e-9, abs_=0.0):
            what = "incoming noise is not amplified by sqrt(G)" if noise_in is not None and (k == 0 or npol == 2) else "noise beyond the ASE realisation"
            v.append((f"C10:noise-gain:{name}", f"{name}: out.noise - ASE(twin) differs from the required {'sqrt(G)*in.noise' if (noise_in is not None and (k == 0 or npol == 2)) else '0'} by {F._maxdiff(got, want):.3e} ({what}; noise {fl['noise_kind']})"))
    # ASE realisation: its 4N real components are the unit-variance draws times sqrt(P_ase/4) — whichever draw feeds whichever
    # component (the statement fixes the distribution, not the bookkeeping): compare the sorted magnitudes.
    # Only when the generator was observed to hand out exactly 4N standard-normal values; otherwise the soak decides.
    if "draw" in res:
        d = np.sort(np.abs(np.array(res["draw"]).ravel()))
        comp = np.sort(np.abs(np.concatenate([ase[0].real, ase[0].imag, ase[1].real, ase[1].imag])))
        s = math.sqrt(P / 4) if P >= 0 else float("nan")
        if not F.close(comp, s * d, max(s * float(d[-1]) if d.size else 0.0, 1e-300), rel=1e-9, abs_=0.0):
            k = int(np.argmax(np.where(np.isfinite(comp - s * d), np.abs(comp - s * d), np.inf)))
            v.append(("C10:ase-scale", f"the real components of the ASE are not the unit-variance draws times sqrt(NF*h*f0*(G-1)*fs/4) = {s:.6g} "
                                       f"(P_ase={P:.6g}); e.g. order statistic {k}: {comp[k]:.6g} vs {s * d[k]:.6g}"))
    # the same with an input that already carries noise (an all-zero noise array included): what is left of out.noise after the
    # amplified incoming noise must again be the unit draws times sqrt(P_ase/4) — the ASE is added, never amplified
    if "draw" in res and noise_in is not None:
        gn = [g * noise_in[0], g * noise_in[1] if npol == 2 else np.zeros(n, dtype=complex)]
        left = [no[0] - gn[0], no[1] - gn[1]]
        d = np.sort(np.abs(np.array(res["draw"]).ravel()))
        comp = np.sort(np.abs(np.concatenate([left[0].real, left[0].imag, left[1].real, left[1].imag])))
        s = math.sqrt(P / 4) if P >= 0 else float("nan")
        # |sqrt(G) n| may exceed the ASE by many orders: the subtraction above carries its rounding (8 eps of the larger operand)
        tolabs = 8 * 2.3e-16 * max(F.maxabs(gn), F.maxabs(no))
        if not F.close(comp, s * d, max(s * float(d[-1]) if d.size else 0.0, 1e-300), rel=1e-9, abs_=tolabs):
            k = int(np.argmax(np.where(np.isfinite(comp - s * d), np.abs(comp - s * d), np.inf)))
            v.append(("C10:ase-scale:noisy-input", f"input with noise ({fl['noise_kind']}): out.noise - sqrt(G)*in.noise is not the unit-variance draws times "
                                                   f"sqrt(P_ase/4) = {s:.6g}; e.g. order statistic {k}: {comp[k]:.6g} vs {s * d[k]:.6g}"))
    # BW: the documented filter for the rate in force (fresh scipy design), and composition with the library's own BPF
    if case["BW"] is not None:
        v += _oracle_ref(f"fs={res['fs']:.4g}, BW={case['BW']:.4g}", m, res.get("bw"), res.get("ref"))
        bw, bp = res.get("bw", {}), res.get("bpf", {})
        if bp.get("status") == "err":
            # rows not longer than the filter's padding: scipy rejects them, with or without the amplifier around
            if not (bw.get("status") == "err" and bw.get("err") == bp["err"]):
                v.append(("C10:bw-short", f"BPF(EDFA(x)) raises {bp['err']} (N={n}) but EDFA(x, BW) gives {str(bw)[:80]}"))
        elif bw.get("status") != "ok" or bp.get("status") != "ok":
            v.append(("C10:bw-accept", f"EDFA(..., BW) or BPF failed: {str(bw)[:80]} / {str(bp)[:80]}"))
        else:
            d = F.diff_fields("EDFA(x,G,NF,BW) vs BPF(EDFA(x,G,NF),BW)", F.c_rows(bw["sig"]), None if bw["noise"] is None else F.c_rows(bw["noise"]),
                              F.c_rows(bp["sig"]), None if bp["noise"] is None else F.c_rows(bp["noise"]),
                              F.scales(so, no))
            if d:
                v.append(("C10:bw-compose", "; ".join(d)[:300]))
    return v


def features(case, res):
    f = ["kind=" + case["kind"], "status=" + str(res.get("status"))]
    m = res.get("main", {})
    f.append("result=" + str(m.get("status")) + (":" + m["err"] if m.get("status") == "err" else ""))
    if case["kind"] == "edfa_long":
        f.append("long:" + str((res.get("long") or {}).get("ase_mode")))
    if case["kind"] == "edfa_hist":
        f.append(f"history={len(case['seq'])}")
        for st in res.get("steps", []):
            f.append("hist-step=" + str((st.get("bw") or {}).get("status")))
    if case["kind"] == "edfa_bad":
        f.append("bad=" + case["bad"])
    else:
        fl = case["field"]
        f += [f"npol={fl['npol']}", "noise=" + fl["noise_kind"], "dtype=" + fl["dtype"], f"N={fl['n']}"]
        if fl.get("dark") is not None:
            f.append("dark-pol" + ("+noise" if fl["noise"] is not None else ""))
    f.append("G=" + ("0" if case["G"] == 0 else "40" if case["G"] == 40 else "mid"))
    f.append("gv=" + str(case["gv"].get("form", "sps,R")) + ("+N" if case["gv"].get("N") else ""))
    if "sps_R" in res and res.get("fs") is not None:
        f.append("fs==sps*R" if res["sps_R"] == res["fs"] else "fs!=sps*R")
    if case.get("stage2"):
        f.append("chain2:" + str(((res.get("stage2") or {}).get("main") or {}).get("status")) + ":" + "/".join(str(d) for d in (res.get("stage2") or {}).get("in_dtypes", [])))
    if case["BW"] is not None:
        f.append("BW:" + str((res.get("bw") or {}).get("status")) + (":model" if res.get("fparams") else ""))
    if res.get("input_modified"):
        f.append("input-modified-in-place")
    for c in res.get("calls", []):
        f.append("randn" + str(tuple(c["shape"][:1])) if c["shape"][:1] == [4] else "randn-other")
    return f


def nontrivial_key(case, res):
    m = res.get("main", {})
    if m.get("status") != "ok" or case["kind"] == "edfa_bad":
        return None
    fl = case["field"]
    if fl["n"] < 2:
        return None
    if case["kind"] == "edfa_long":
        return ("edfa_long", fl["npol"], fl["n"], fl["noise_kind"], case["G"], case["NF"])
    if fl["sig"] is not None and not any(abs(re) + abs(im) > 0 for row in fl["sig"] for re, im in row):
        return None
    g = case["gv"]
    return (case["kind"], fl["npol"], fl["noise_kind"], fl["dtype"], fl["n"], case["G"], case["NF"], g.get("sps"), g.get("R"), g.get("fs"), g.get("N"), g["wavelength"],
            case.get("BW"), tuple((q["sps"], q["R"]) for q in case.get("seq", [])),
            None if not case.get("stage2") else (case["stage2"]["G"], case["stage2"]["NF"]))
