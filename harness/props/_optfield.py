"""Helpers shared by the optical-device properties C06 and C10: JSON specs of optical fields <-> optical_signal objects
<-> wire format of `Model/Modulators.lean` (`W.field`)."""
import numpy as np

from harness.common.wire import enc_clist, enc_flist, Toks


def gen_field(rng, n, npol, noise_kind, dtype="complex", scale=1.0, dark=None):
    """JSON spec of an optical field: rows of [re, im] pairs.
    noise_kind: none | random | zerosum (samples of every row sum to exactly 0) | zero (all-zero noise array)
    dark: None | 0 | 1 — for npol=2 the signal of that polarisation is identically zero while the noise (if any) still
    occupies both rows (an x-only / y-only field accompanied by two-polarisation noise)
    dtype: complex | float | int | mixed — `mixed` = REAL-dtype .signal with a COMPLEX-dtype .noise (the noise is attached after
    construction, as a device does that adds complex noise to a real field: e.g. what EDFA returns for a real-valued input)"""
    def val():
        if dtype == "int":
            return [float(rng.randrange(-5, 6)), 0.0]
        if dtype in ("float", "mixed"):
            return [rng.gauss(0, 1) * scale, 0.0]
        return [rng.gauss(0, 1) * scale, rng.gauss(0, 1) * scale]

    def row():
        r = [val() for _ in range(n)]
        if n >= 3 and rng.random() < 0.2:
            r[rng.randrange(n)] = [0.0, 0.0]
        return r

    sig = [row() for _ in range(npol)]
    if dark is not None and npol == 2:
        sig[dark] = [[0.0, 0.0] for _ in range(n)]
    noise = None
    def nval(sd):
        if dtype == "int":
            return [float(rng.randrange(-3, 4)), 0.0]
        return [rng.gauss(0, sd) * scale, 0.0 if dtype not in ("complex", "mixed") else rng.gauss(0, sd) * scale]

    if noise_kind == "random":
        noise = [[nval(0.3) for _ in range(n)] for _ in range(npol)]
    elif noise_kind == "zero":
        noise = [[[0.0, 0.0] for _ in range(n)] for _ in range(npol)]
    elif noise_kind == "zerosum":
        noise = []
        for _ in range(npol):
            r = []
            for k in range(n // 2):
                if dtype == "int":
                    a = [float(rng.randrange(1, 5)), 0.0]
                else:
                    a = [float(rng.randrange(1, 9)) / 8 * scale, 0.0 if dtype not in ("complex", "mixed") else float(rng.randrange(-8, 9)) / 8 * scale]
                r += [a, [-a[0], -a[1]]]
            if n % 2:
                r.append([0.0, 0.0])
            rng.shuffle(r)
            noise.append(r)
    return {"npol": npol, "n": n, "dtype": dtype, "noise_kind": noise_kind, "dark": dark if npol == 2 else None, "sig": sig, "noise": noise}


def _arr(rows, dtype):
    a = np.array([[complex(re, im) for re, im in r] for r in rows])
    if dtype == "float":
        a = a.real.astype(float)
    elif dtype == "int":
        a = a.real.astype(int)
    return a if len(rows) == 2 else a[0]


def build_field(spec):
    """the optical_signal object of a spec (imports opticomlib lazily: VERIF_REPO decides which tree)"""
    from opticomlib.typing import optical_signal
    if spec["dtype"] == "mixed":
        x = optical_signal(_arr(spec["sig"], "float"))
        if spec["noise"] is not None:
            x.noise = _arr(spec["noise"], "complex")          # dtypes deliberately not harmonised by the constructor
        assert x.n_pol == spec["npol"] and (x.noise is None or x.noise.shape == x.signal.shape)
        return x
    sig = _arr(spec["sig"], spec["dtype"])
    noise = None if spec["noise"] is None else _arr(spec["noise"], spec["dtype"])
    x = optical_signal(sig, noise)
    assert x.n_pol == spec["npol"], (x.n_pol, spec["npol"])
    return x


def rows_of_array(a):
    """ndarray (N,) or (2,N) -> list of rows of [re, im]"""
    a = np.asarray(a)
    if a.ndim == 1:
        a = a[np.newaxis]
    a = a.astype(complex)
    return [[[float(z.real), float(z.imag)] for z in r] for r in a]


def dump_signal(y):
    """JSON view of an optical_signal result"""
    return {"cls": type(y).__name__, "npol": int(y.n_pol), "shape": list(np.shape(y.signal)),
            "sig": rows_of_array(y.signal), "noise": None if y.noise is None else rows_of_array(y.noise),
            "noise_shape": None if y.noise is None else list(np.shape(y.noise))}


def c_rows(rows):
    """rows of [re, im] -> list of numpy complex arrays"""
    return [np.array([complex(re, im) for re, im in r], dtype=complex) for r in rows]


def enc_rows(rows):
    return f"{len(rows)} " + " ".join(enc_clist(complex(re, im) for re, im in r) for r in rows)


def enc_field(sig_rows, noise_rows):
    s = enc_rows(sig_rows)
    return s + (" 0" if noise_rows is None else " 1 " + enc_rows(noise_rows))


def dec_rows(t: Toks):
    k = t.nat()
    return [np.array(t.clist(), dtype=complex) for _ in range(k)]


def dec_field(t: Toks):
    sig = dec_rows(t)
    has = t.nat()
    noise = dec_rows(t) if has else None
    return sig, noise


def close(a, b, scale, rel=1e-9, abs_=0.0):
    """|a-b| <= rel*scale + abs_ elementwise, same shape.  NaN-safe: written as `all(err <= tol)`, so a NaN/inf on one side only
    is never "close"; non-finite values agree only with the same non-finite pattern on the other side (a model that mirrors
    numpy's inf/nan) — oracles additionally reject every non-finite output (`nonfinite_outputs`)."""
    a = np.asarray(a, dtype=complex)
    b = np.asarray(b, dtype=complex)
    if a.shape != b.shape:
        return False
    if a.size == 0:
        return True
    tol = rel * scale + abs_ + 1e-300      # underflow threshold of binary64: subnormal results carry no relative accuracy
    fa, fb = np.isfinite(a), np.isfinite(b)
    if not (np.all(fa) and np.all(fb)):
        if not np.array_equal(fa, fb):
            return False
        return bool(np.all(np.abs(np.where(fa, a, 0) - np.where(fb, b, 0)) <= tol))
    return bool(np.all(np.abs(a - b) <= tol))


def _maxdiff(a, b):
    with np.errstate(all="ignore"):
        d = np.abs(np.asarray(a, dtype=complex) - np.asarray(b, dtype=complex))
    if d.size == 0:
        return 0.0
    return float(np.max(np.where(np.isnan(d), np.inf, d)))


def nonfinite_outputs(obj, path="result"):
    """every implementation output dump (dict with 'sig' rows) below `obj` that contains a NaN/inf: [(path, part, row, index)]"""
    hits = []
    if isinstance(obj, dict):
        if isinstance(obj.get("sig"), list) and obj.get("status", "ok") == "ok":
            for part in ("sig", "noise"):
                rows = obj.get(part)
                if rows:
                    for k, r in enumerate(rows):
                        a = np.array([complex(re, im) for re, im in r], dtype=complex)
                        bad = np.flatnonzero(~np.isfinite(a))
                        if bad.size:
                            hits.append((path, "signal" if part == "sig" else "noise", k, int(bad[0])))
        for key, v in obj.items():
            if key not in ("sig", "noise") and isinstance(v, (dict, list)):
                hits += nonfinite_outputs(v, f"{path}.{key}")
    elif isinstance(obj, list):
        for i, v in enumerate(obj):
            if isinstance(v, (dict, list)):
                hits += nonfinite_outputs(v, f"{path}[{i}]")
    return hits


def maxabs(*rowsets):
    m = 0.0
    for rs in rowsets:
        if rs is None:
            continue
        for r in rs:
            r = np.asarray(r, dtype=complex)
            if r.size:
                v = float(np.max(np.abs(r)))
                if np.isfinite(v):
                    m = max(m, v)
    return m


def scales(sig_rows, noise_rows):
    """(signal scale, noise scale): each component is judged relative to its own magnitude (a weak noise next to a strong
    signal is not hidden); an all-zero component must come out exactly zero (floor 1e-300)"""
    return (max(maxabs(sig_rows), 1e-300), max(maxabs(noise_rows), 1e-300))


def diff_fields(tag, impl_sig, impl_noise, model_sig, model_noise, scale):
    """list of disagreement strings between an implementation result and a model / reference result.
    `scale`: one number, or (signal scale, noise scale)."""
    ssc, nsc = scale if isinstance(scale, tuple) else (scale, scale)
    out = []
    if len(impl_sig) != len(model_sig):
        return [f"{tag}: n_pol impl {len(impl_sig)} model {len(model_sig)}"]
    for k, (a, b) in enumerate(zip(impl_sig, model_sig)):
        if not close(a, b, ssc):
            a = np.asarray(a); b = np.asarray(b)
            d = "shape" if a.shape != b.shape else f"max|diff|={_maxdiff(a, b):.3e}"
            out.append(f"{tag}: signal row {k} differs ({d}, scale {ssc:.3g})")
    if (impl_noise is None) != (model_noise is None):
        out.append(f"{tag}: noise presence impl {impl_noise is not None} model {model_noise is not None}")
    elif impl_noise is not None:
        if len(impl_noise) != len(model_noise):
            out.append(f"{tag}: noise n_pol impl {len(impl_noise)} model {len(model_noise)}")
        else:
            for k, (a, b) in enumerate(zip(impl_noise, model_noise)):
                if not close(a, b, nsc):
                    a = np.asarray(a); b = np.asarray(b)
                    d = "shape" if a.shape != b.shape else f"max|diff|={_maxdiff(a, b):.3e}"
                    out.append(f"{tag}: noise row {k} differs ({d}, scale {nsc:.3g})")
    return out
