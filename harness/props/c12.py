"""C12 — PPM encode/decode is a bijection on whole symbols; HDD/SDD emit valid codewords."""
import itertools
import warnings

from harness.common.wire import exc_enum
from harness.common.watchdog import time_limit, Timeout

ID = "C12"
MANIFEST = {
    "text": "Lean 4 theorems (Props/C12.lean; incl. encode_append / decode_append: both maps are homomorphisms at symbol boundaries; hdd_idempotent) over an exact model of ppm.PPM_ENCODER/PPM_DECODER/HDD/SDD and utils.dec2bin, "
            "unbounded (every order, every length, every bit list, every pick oracle obeying numpy's contract, every linearly "
            "ordered sample type): one-hot block at the big-endian value per k-bit row; decoder(encoder(b)) = b truncated to whole "
            "symbols; encoder(decoder(c)) = c on valid codewords (bijection); HDD output is a valid codeword, leaves one-ON "
            "symbols unchanged, keeps a slot that was ON, identity on valid codewords for any draws; SDD turns ON the first slot "
            "of largest summed energy per symbol and is the identity on noiseless waveforms of any pulse shape with larger ON "
            "energy; exact ValueError conditions of HDD/SDD; dec2bin.  Tie: exact differential run of the compiled model "
            "against the real functions (all bit strings <= 8/12, all slot patterns with all picks, random long inputs, every "
            "container form, numpy's random draws spied and replayed into the model).",
    "note": "Trusted: Lean kernel, translator tools/extractors/ppm.py (the `M < 1 or not M & (M-1) == 0` test of HDD and SDD, the three expressions of the "
            "dec2bin loop), harness, numpy semantics of reshape/sum/where/argmax/fancy assignment, int(np.log2(M)) = "
            "floor(log2 M) for M < 2^31; float sums are exact on the generated dyadic samples.  DAC-rendered waveforms "
            "(gaussian/rz/nrz) are checked by the oracle only.  Orders below 1 are refused by `M < 1 or …` (translated from the source).  "
            "Axioms: propext, Classical.choice, Quot.sound.",
    "technique": "Lean 4 proof by induction over an executable model; differential correspondence run with spied RNG; exhaustive small domains",
    "design": "§5 C12",
}
GEN = ["Ppm"]
RULE = ("cases = codec (bits, M, container form) exhaustively over all bit strings up to 8 (quick) / 12 (thorough) bits for "
        "M in 2..16 / 2..256 plus random long ones in 9 container forms; decoder on arbitrary slot patterns; HDD on all slot "
        "patterns up to 8 (quick) / 16 (thorough) slots, M<=8, with numpy's own draws (spied) and with every combination of "
        "draws the code's own randint/choice calls allow (stub enumerating the requested range/array) for patterns up to 8 slots; SDD on exact dyadic samples with ties, 4 input forms, "
        "and on DAC waveforms; every length 1..4*M*sps for M in 2..16, sps in {1,2,3,5,8,16} (SDD) and 0..4*M (HDD); rejected orders; malformed inputs.  non-trivial = accepted call on a non-empty input, "
        "distinct by (kind, M, input, draws)")
PARTIAL = [
    "arguments are left unchanged by PPM_ENCODER / PPM_DECODER / HDD / SDD: runtime monitor on every call (bytes of ndarray inputs and of "
    "a container's .data / .signal / .noise, repr of lists, before and after), not a theorem (the model is functional); repeated "
    "SDD calls on the same object must repeat the first decision (oracle + model tie)",
    "container forms agree: list/tuple/ndarray/binary_sequence are one model input; for strings the theorem (`forms_agree`) covers "
    "plain bit strings over the characters 0 1 space comma; strings of the other str2array classes (tabs, ';', digits 2-9, "
    "floats) are modelled (Model/BinSeqStr.lean) and tied by the differential run only",
    "SDD on float samples: theorem is over any linear order with exact sums; float rounding of np.sum is outside (generated samples "
    "are dyadic so sums are exact); DAC gaussian waveforms are oracle-only",
]
ASSUMPTIONS = [
    "numpy's contract for the spied draws: randint(M) in [0,M), choice(j) in j (checked on every spied value)",
    "int(np.log2(M)) == floor(log2(M)) for 1 <= M < 2^31 (checked by the differential run for the generated orders)",
    "the driver evaluates the same Lean definitions the theorems are about",
]
BUDGET = {"quick": 120, "thorough": 900}
EXHAUSTIVE = {"quick": True, "thorough": True}

SEQ_FORMS = ["list", "tuple", "ndarray", "ndarray_bool", "ndarray_float", "bs", "list_bool"]
STR_FORMS = ["str", "str_sep"]
SCALE = 16  # SDD samples are integers / SCALE
# documented positional order of the anchored functions at /repo HEAD 8caea4c (a literal: never read from the code under test)
SIGNATURES = {
    "PPM_ENCODER": ["input", "M"],
    "PPM_DECODER": ["input", "M"],
    "HDD": ["input", "M"],
    "SDD": ["input", "M"],
    "dec2bin": ["num", "digits"],
}


# ------------------------------------------------------------------------------------------------ helpers

def _mk_input(data):
    """the Python object handed to the real function"""
    import numpy as np
    from opticomlib.typing import binary_sequence
    form = data["form"]
    if form in STR_FORMS or form == "text":
        return data["text"]
    vals = data["vals"]
    if form == "list":
        return list(vals)
    if form == "tuple":
        return tuple(vals)
    if form == "ndarray":
        return np.array(vals, dtype=np.int64) if all(isinstance(v, int) for v in vals) else np.array(vals)
    if form == "ndarray_bool":
        return np.array(vals, dtype=bool)
    if form == "ndarray_float":
        return np.array(vals, dtype=float)
    if form == "list_bool":
        return [bool(v) for v in vals]
    if form == "bs":
        return binary_sequence(list(vals))
    if form == "scalar":
        return vals[0]
    if form == "none":
        return None
    if form == "dict":
        return {"a": 1}
    raise ValueError(form)


def _data(form, bits, rng=None, text=None):
    """case payload for a bit string in a container form"""
    if form == "str":
        return {"form": form, "text": bits, "bits": bits}
    if form == "str_sep":
        if text is None:
            seps = ["", " ", ",", "  ", ", ", " ,"]
            text = "".join(b + rng.choice(seps) for b in bits) or " "
            text = rng.choice(["", " ", ","]) + text
        return {"form": form, "text": text, "bits": bits}
    return {"form": form, "vals": [int(c) for c in bits], "bits": bits}


def _wire_input(data):
    form = data["form"]
    if form in STR_FORMS or form == "text":
        cps = [ord(c) for c in data["text"]]
        return "str " + " ".join([str(len(cps))] + [str(c) for c in cps])
    if form in ("scalar", "none", "dict"):
        return "other"
    truth = [1 if bool(v) else 0 for v in data["vals"]]
    return "seq " + " ".join([str(len(truth))] + [str(t) for t in truth])


def _out(r):
    return {"bits": "".join(str(int(b)) for b in r.data), "cls": type(r).__name__, "dtype": str(r.data.dtype),
            "ndim": int(r.data.ndim)}


def _snap(x):
    """what an argument looks like from outside: bytes of arrays / of a container's .data, .signal, .noise; repr of lists"""
    import numpy as np
    from opticomlib.typing import binary_sequence, electrical_signal
    if isinstance(x, np.ndarray):
        return ("ndarray", x.tobytes(), x.shape, str(x.dtype))
    if isinstance(x, binary_sequence):
        return ("binary_sequence", _snap(x.data))
    if isinstance(x, electrical_signal):
        return ("electrical_signal", _snap(x.signal), None if x.noise is None else _snap(x.noise))
    if isinstance(x, (list, tuple, str)):
        return (type(x).__name__, repr(x))
    return None


def _guard(fn, *a):
    """call real code under the watchdog; normalise the outcome; monitor: the arguments are the same afterwards"""
    before = [_snap(x) for x in a]
    try:
        with time_limit(30):
            with warnings.catch_warnings():
                warnings.simplefilter("ignore")
                r = fn(*a)
        d = _out(r)
        d["status"] = "ok"
    except Timeout as e:
        return {"status": "timeout", "detail": str(e)}
    except Exception as e:  # noqa
        d = {"status": "err", "err": exc_enum(e), "exc": type(e).__name__, "detail": repr(e)[:160]}
    changed = [k for k, (b, x) in enumerate(zip(before, a)) if b != _snap(x)]
    d["args_unchanged"] = not changed
    if changed:
        d["changed_arg"] = f"{getattr(fn, '__name__', fn)}: argument {changed[0]} ({before[changed[0]][0]}) was modified by the call"
    return d


def _twin(fn, name, *a):
    """the same call with every argument passed by keyword under its documented name (SIGNATURES); the harness's ordinary calls
    pass them positionally in the documented order.  Returns the fields that must be identical."""
    names = SIGNATURES[name]
    d = _guard_kw(fn, dict(zip(names, a)))
    return {k: d.get(k) for k in ("status", "bits", "err", "exc", "dtype", "ndim")}


def _guard_kw(fn, kw):
    try:
        with time_limit(30):
            with warnings.catch_warnings():
                warnings.simplefilter("ignore")
                r = fn(**kw)
        d = _out(r)
        d["status"] = "ok"
        return d
    except Timeout as e:
        return {"status": "timeout", "detail": str(e)}
    except Exception as e:  # noqa
        return {"status": "err", "err": exc_enum(e), "exc": type(e).__name__, "detail": repr(e)[:160]}


def _twin_differs(pos, kw):
    return kw is not None and any(pos.get(k) != kw.get(k) for k in ("status", "bits", "err", "dtype", "ndim"))


def is_pow2(M):
    return isinstance(M, int) and M >= 1 and (M & (M - 1)) == 0


# ------------------------------------------------------------------------------------------------ generation

def _all_bits(maxlen):
    for n in range(0, maxlen + 1):
        for t in itertools.product("01", repeat=n):
            yield "".join(t)


def _rand_bits(rng, n):
    return "".join(rng.choice("01") for _ in range(n))


def _hdd_patterns(M, maxslots):
    for nsym in range(0, maxslots // M + 1):
        for t in itertools.product("01", repeat=nsym * M):
            yield "".join(t)


def gen_cases(rng, tier):
    quick = tier == "quick"
    cases = []
    # --- codec: exhaustive small domain -----------------------------------------------------------
    maxlen = 8 if quick else 12
    orders = [2, 4, 8, 16] if quick else [2, 4, 8, 16, 32, 64, 128, 256]
    forms = SEQ_FORMS + STR_FORMS
    for M in orders:
        for bits in _all_bits(maxlen):
            form = forms[rng.randrange(len(forms))]
            cases.append({"kind": "codec", "M": M, "data": _data(form, bits, rng)})
    # every form on the same word, every order (container forms agree)
    for M in [2, 4, 8, 16, 32, 64, 128, 256]:
        for _ in range(2 if quick else 20):
            bits = _rand_bits(rng, rng.randrange(1, 70))
            for form in forms:
                cases.append({"kind": "codec", "M": M, "data": _data(form, bits, rng)})
    # long random words
    for _ in range(60 if quick else 1500):
        M = rng.choice([2, 4, 8, 16, 32, 64, 128, 256])
        bits = _rand_bits(rng, rng.choice([1, 2, 7, 63, 64, 65, 255, 256, 257, rng.randrange(1, 3000)]))
        cases.append({"kind": "codec", "M": M, "data": _data(rng.choice(forms), bits, rng)})
    # orders that are not powers of two / degenerate (model tie only; outside the statement's quantifier)
    for M in [1, 3, 5, 6, 7, 9, 12, 100, 255, 257, 1000, 1024, 1 << 20, -1, -4, 0]:
        for bits in ["", "0", "1", "0111", "011110", _rand_bits(rng, 37)]:
            cases.append({"kind": "codec", "M": M, "data": _data(rng.choice(SEQ_FORMS), bits, rng), "offspec": True})
    # truthiness of list / ndarray elements (np.array(..., dtype=bool))
    for _ in range(20 if quick else 200):
        vals = [rng.choice([0, 1, 2, -1, 0.5, 0.0, 1.0, 3]) for _ in range(rng.randrange(0, 20))]
        cases.append({"kind": "codec", "M": rng.choice([2, 4, 8]), "offspec": True,
                      "data": {"form": rng.choice(["list", "tuple", "ndarray"]), "vals": vals,
                               "bits": "".join("1" if v else "0" for v in vals)}})
    # strings: other separators, other character classes, malformed
    texts = ["", " ", ",", ";", "0;1", "01;10", "0 1;1", "0\t1", "0\n1", "01\n", "\t", "0\x0b1", "0\xa01", "0 1",
             "2", "12", "0 1 2", "10 11", "+1 -0", "1,,0", ",1", "1,", "007 0", "-1", "+", "1-1", "99999999999999999999",
             "9223372036854775807", "9223372036854775808", "-9223372036854775809", "0.5", "1.0 0.0", "1.", ".5", ".", "1.2.3", "0.0",
             "-0.0", "-.0", "+.5", "0." + "0" * 330 + "1", "1e3", "a", "01a", "1+0j", "j", "1j 0", "0x1", "１", "١", "1_0",
             " 0 1 ", "0 ,1", "1  0", "1 ; 0", "1;", "\n1"]
    for t in texts:
        for M in ([2] if quick else [2, 4, 16]):
            cases.append({"kind": "codec", "M": M, "data": {"form": "text", "text": t}, "offspec": True})
    for _ in range(60 if quick else 600):
        alpha = rng.choice(["01 ,", "01 ,;", "01 ,\t", "0123456789 ,+-", "0123456789 ,.+-;", "01. "])
        t = "".join(rng.choice(alpha) for _ in range(rng.randrange(1, 12)))
        cases.append({"kind": "codec", "M": rng.choice([2, 4]), "data": {"form": "text", "text": t}, "offspec": True})
    for form, vals in [("scalar", [5]), ("scalar", [1.5]), ("none", []), ("dict", [])]:
        for kind in ["codec", "dec", "hdd"]:
            cases.append({"kind": kind, "M": 4, "data": {"form": form, "vals": vals}, "offspec": True, "np_seed": 1})

    # --- decoder on arbitrary slot patterns ---------------------------------------------------------
    for M in ([2, 4, 8] if quick else [2, 4, 8, 16]):
        for bits in _all_bits(8 if quick else 10):
            if rng.random() < (0.35 if quick else 1.0):
                cases.append({"kind": "dec", "M": M, "data": _data(rng.choice(forms), bits, rng)})
    for M in [3, 5, 6, 12, 1, 0, -2]:
        for _ in range(6):
            cases.append({"kind": "dec", "M": M, "data": _data(rng.choice(SEQ_FORMS), _rand_bits(rng, rng.randrange(0, 30)), rng),
                          "offspec": True})

    # --- HDD -------------------------------------------------------------------------------------------
    maxslots = 8 if quick else 16
    for M in [2, 4, 8]:
        for slots in _hdd_patterns(M, maxslots):
            cases.append({"kind": "hdd", "M": M, "data": _data(rng.choice(forms), slots, rng),
                          "np_seed": rng.randrange(1 << 32)})
    # every combination of draws the CODE's own calls allow (stubbed RNG): the stub answers each call with every value of
    # the range / array that call actually passed, explored depth-first over the sequence of calls
    for M in [2, 4, 8]:
        for slots in _hdd_patterns(M, 8 if M > 2 else (6 if quick else 8)):
            if all(x.count("1") == 1 for x in [slots[i:i + M] for i in range(0, len(slots), M)]) and quick and slots:
                continue      # no draw at all: covered by the spied runs
            cases.append({"kind": "hdd", "M": M, "data": _data("list", slots, rng), "enum": True})
    for _ in range(60 if quick else 1500):
        M = rng.choice([1, 2, 4, 8, 16, 32, 64, 128, 256])
        nsym = rng.randrange(0, 40)
        p1 = rng.choice([0.02, 0.1, 0.3, 0.5])
        slots = "".join("1" if rng.random() < p1 else "0" for _ in range(nsym * M))
        cases.append({"kind": "hdd", "M": M, "data": _data(rng.choice(forms), slots, rng), "np_seed": rng.randrange(1 << 32)})
    # valid codewords: identity
    for _ in range(30 if quick else 400):
        M = rng.choice([2, 4, 8, 16, 64, 256])
        nsym = rng.randrange(1, 30)
        slots = "".join("0" * j + "1" + "0" * (M - 1 - j) for j in (rng.randrange(M) for _ in range(nsym)))
        cases.append({"kind": "hdd", "M": M, "data": _data(rng.choice(forms), slots, rng), "np_seed": rng.randrange(1 << 32)})
    # rejected: not a power of two, ragged length
    for M in [0, 0, 3, 5, 6, 7, 9, 10, 12, 15, 17, 24, 100, 255, 257, -1, -2, -4, -8, -256]:
        for n in [0, 1, abs(M), 2 * abs(M), 4, rng.randrange(1, 60)]:
            cases.append({"kind": "hdd", "M": M, "data": _data(rng.choice(SEQ_FORMS), _rand_bits(rng, n), rng),
                          "np_seed": rng.randrange(1 << 32)})
    for M in [2, 4, 8, 16, 256]:
        for n in [1, M - 1, M + 1, 2 * M - 1, 3 * M + 1, rng.randrange(1, 999)]:
            if n % M:
                cases.append({"kind": "hdd", "M": M, "data": _data(rng.choice(forms), _rand_bits(rng, n), rng),
                              "np_seed": rng.randrange(1 << 32)})

    # --- SDD -------------------------------------------------------------------------------------------
    sdd_forms = ["esig", "esig_noise", "ndarray", "list"]
    for _ in range(150 if quick else 3000):
        M = rng.choice([1, 2, 4, 8, 16, 32])
        sps = rng.choice([1, 2, 3, 4, 5, 8, 16, 17])
        nsym = rng.randrange(1, 7)
        style = rng.choice(["rand", "ties", "small", "neg"])
        lo, hi = {"rand": (-400, 400), "ties": (0, 2), "small": (-3, 3), "neg": (-400, 0)}[style]
        xs = [rng.randint(lo, hi) for _ in range(nsym * M * sps)]
        form = rng.choice(sdd_forms)
        c = {"kind": "sdd", "M": M, "sps": sps, "xs": xs, "form": form, "repeat": rng.choice([0, 1, 2])}
        if form == "esig_noise":
            c["ns"] = [rng.randint(lo, hi) for _ in xs]
        cases.append(c)
    # the same container decided 2-3 times, noise close to the decision margin: the winner of signal+noise beats the runner-up
    # by less than the noise that separates them, so signal + 2*noise (or signal alone) would decide otherwise
    for _ in range(60 if quick else 1200):
        M = rng.choice([2, 4, 8, 16])
        sps = rng.choice([1, 2, 3, 4, 8])
        nsym = rng.randrange(1, 6)
        xs, ns = [], []
        for _s in range(nsym):
            a, b = rng.sample(range(M), 2)
            d = rng.randint(3, 9)
            base = rng.randint(0, 40)
            ex = [rng.randint(0, max(0, base - 10)) for _ in range(M)]      # signal energy per slot
            en = [rng.randint(-2, 2) if rng.random() < 0.3 else 0 for _ in range(M)]
            ex[a], ex[b] = base + 20 + d, base + 20
            en[a], en[b] = 0, d - 1                                        # a wins by 1; twice the noise lets b win by d - 2
            if rng.random() < 0.3:
                en[a], en[b] = -(d - 1), 0                                 # or the noise pulls the winner down
            for slot in range(M):
                for tgt, tot in ((xs, ex[slot]), (ns, en[slot])):
                    parts = [0] * sps
                    for _u in range(abs(tot)):
                        parts[rng.randrange(sps)] += 1 if tot > 0 else -1
                    tgt.extend(parts)
        cases.append({"kind": "sdd", "M": M, "sps": sps, "xs": xs, "ns": ns, "form": "esig_noise", "repeat": rng.choice([1, 2])})
    # exhaustive small SDD: all energy patterns over {0,1,2} for one/two symbols, sps = 1
    for M in [2, 4]:
        for t in itertools.product([0, 1, 2], repeat=M * (2 if M == 2 else 1)):
            cases.append({"kind": "sdd", "M": M, "sps": 1, "xs": [16 * v for v in t], "form": "ndarray"})
    # rejected
    for M in [0, 0, 3, 5, 6, 12, -1, -2, -4, 100]:
        for sps in [1, 4]:
            cases.append({"kind": "sdd", "M": M, "sps": sps, "xs": [rng.randint(0, 9) for _ in range(max(abs(M), 2) * sps * 2)],
                          "form": rng.choice(sdd_forms[:1] + sdd_forms[2:])})
    for M in [2, 4, 8]:
        for sps in [1, 3, 16]:
            for n in [1, M * sps - 1, M * sps + 1, 2 * M * sps + sps]:
                if n % (M * sps):
                    cases.append({"kind": "sdd", "M": M, "sps": sps, "xs": [rng.randint(0, 9) for _ in range(n)],
                                  "form": rng.choice(sdd_forms[:1] + sdd_forms[2:])})
    # EVERY length from 1 to 4*M*sps (quick: 3*M*sps for the two largest M) on small (M, sps): ValueError exactly when the length
    # is not a multiple of M*sps, a decision on every whole symbol otherwise
    k_forms = ["ndarray", "esig", "list"]
    for M in [2, 4, 8, 16]:
        for sps in [1, 2, 3, 5, 8, 16]:
            top = (4 if (not quick or M <= 4) else 3) * M * sps
            for L in range(1, top + 1):
                cases.append({"kind": "sdd", "M": M, "sps": sps, "xs": [rng.randint(0, 9) for _ in range(L)],
                              "form": k_forms[(L + M + sps) % 3]})
    for M in [2, 4, 8, 16]:
        for L in range(0, 4 * M + 1):
            cases.append({"kind": "hdd", "M": M, "data": _data(rng.choice(SEQ_FORMS), _rand_bits(rng, L), rng),
                          "np_seed": rng.randrange(1 << 32)})
    # noiseless waveforms of codewords: exact pulses (kron) and DAC renderings
    for _ in range(60 if quick else 1200):
        M = rng.choice([2, 4, 8, 16, 64])
        k = M.bit_length() - 1
        sps = rng.choice([1, 2, 3, 4, 8, 16, 31])
        bits = _rand_bits(rng, k * rng.randrange(1, 8))
        shape = rng.choice(["rect", "tri", "rand", "spike", "negbias"])
        if shape == "rect":
            pulse = [16] * sps
        elif shape == "tri":
            pulse = [1 + min(i, sps - 1 - i) for i in range(sps)]
        elif shape == "spike":
            pulse = [0] * sps
            pulse[rng.randrange(sps)] = 1
        else:
            pulse = [rng.randint(0, 50) for _ in range(sps)]
            pulse[rng.randrange(sps)] += 1
        cases.append({"kind": "wave", "M": M, "sps": sps, "bits": bits, "pulse": pulse,
                      "amp": rng.choice([1, 2, 16, 80]), "bias": rng.choice([0, 0, 16, -160, 7]),
                      "form": rng.choice(sdd_forms[:1] + sdd_forms[2:])})
    for _ in range(12 if quick else 300):
        M = rng.choice([2, 4, 8, 16])
        k = M.bit_length() - 1
        cases.append({"kind": "dac", "M": M, "sps": rng.choice([4, 8, 16, 32]), "bits": _rand_bits(rng, k * rng.randrange(1, 10)),
                      "pulse_shape": rng.choice(["nrz", "rz", "gaussian"]), "Vout": rng.choice([0.5, 1.0, 3.3, 5.0]),
                      "bias": rng.choice([0.0, 0.25, -1.0])})

    # --- dec2bin ---------------------------------------------------------------------------------------
    for d in range(0, 9 if quick else 11):
        for num in range(0, 2 ** d + 3):
            cases.append({"kind": "dec2bin", "num": num, "digits": d})
    for _ in range(20 if quick else 500):
        d = rng.randrange(0, 64)
        cases.append({"kind": "dec2bin", "num": rng.choice([rng.randrange(0, 2 ** d + 1), 2 ** d - 1, 2 ** d, rng.getrandbits(70)]),
                      "digits": d})
    # order 0 (fix efa5e55: `M < 1 or not M & (M-1) == 0`), the former suspect cases
    cases += [dict(c) for c in ORDER_ZERO]
    rng.shuffle(cases)
    return cases


ORDER_ZERO = [
    {"kind": "hdd", "M": 0, "data": {"form": "list", "vals": [0, 1, 0, 0], "bits": "0100"}, "np_seed": 1},
    {"kind": "hdd", "M": 0, "data": {"form": "str", "text": "0100", "bits": "0100"}, "np_seed": 1},
    {"kind": "hdd", "M": 0, "data": {"form": "list", "vals": [], "bits": ""}, "np_seed": 1},
    {"kind": "sdd", "M": 0, "sps": 2, "xs": [16, 0, 0, 16], "form": "ndarray"},
    {"kind": "sdd", "M": 0, "sps": 1, "xs": [16, 0], "form": "esig"},
]


# ------------------------------------------------------------------------------------------------ real code

ENUM_CAP = 600


def _randint_domain(a, kw):
    """the values np.random.randint(low, high=None, size=None) may return for the arguments actually passed"""
    low = a[0] if a else kw.get("low")
    high = a[1] if len(a) > 1 else kw.get("high")
    if high is None:
        low, high = 0, low
    return list(range(int(low), int(high)))


def _hdd_once(case, path):
    """one call of HDD.  path = None: numpy's own generator (spied).  Otherwise the RNG is a stub that answers call
    number k with element path[k] (0 when the path is shorter) of the domain that call asked for."""
    import numpy as np
    from opticomlib.ppm import HDD
    draws = {"r": [], "c": [], "rargs": [], "cargs": [], "order": []}
    orig_r, orig_c = np.random.randint, np.random.choice
    state = np.random.get_state()

    def pick(dom):
        k = len(draws["order"])
        idx = path[k] if path is not None and k < len(path) else 0
        draws["order"].append([idx, len(dom)])
        return dom[idx]

    def spy_randint(*a, **kw):
        dom = _randint_domain(a, kw)
        v = pick(dom) if path is not None else int(orig_r(*a, **kw))
        if path is None:
            draws["order"].append([0, 1])
        draws["r"].append(int(v))
        draws["rargs"].append([int(x) for x in a] + [int(kw[k]) for k in ("low", "high") if k in kw])
        return v

    def spy_choice(*a, **kw):
        j = [int(x) for x in a[0]]
        v = pick(j) if path is not None else int(orig_c(*a, **kw))
        if path is None:
            draws["order"].append([0, 1])
        draws["c"].append(int(v))
        draws["cargs"].append(j)
        return np.int64(v)

    try:
        if path is None:
            np.random.seed(case.get("np_seed", 0))
        np.random.randint, np.random.choice = spy_randint, spy_choice
        inp = _mk_input(case["data"])
        res = _guard(HDD, inp, case["M"])
    finally:
        np.random.randint, np.random.choice = orig_r, orig_c
        np.random.set_state(state)
    res["draws"] = draws
    # deciding twice (theorem hdd_idempotent): the result of an accepted call goes through HDD again, with the library's own
    # random source (state saved and restored: a valid codeword needs no draw at all)
    if res.get("status") == "ok" and res.get("bits"):
        st2 = np.random.get_state()
        try:
            res["again"] = _guard(HDD, [int(c) for c in res["bits"]], case["M"])
        finally:
            np.random.set_state(st2)
    return res


def _run_hdd(case):
    """list of runs: one spied run, or (case["enum"]) every sequence of draws the code's own calls allow"""
    if not case.get("enum"):
        return [_hdd_once(case, None)]
    runs, path = [], []
    while len(runs) < ENUM_CAP:
        r = _hdd_once(case, path)
        runs.append(r)
        order = r["draws"]["order"]            # [chosen index, domain size] per call made
        k = len(order) - 1
        while k >= 0 and order[k][0] + 1 >= order[k][1]:
            k -= 1
        if k < 0:
            break
        path = [o[0] for o in order[:k]] + [order[k][0] + 1]
    return runs


def _sdd_input(case, xs, ns=None):
    import numpy as np
    from opticomlib.typing import electrical_signal
    f = [v / SCALE for v in xs]
    form = case["form"]
    if form == "esig":
        return electrical_signal(f)
    if form == "esig_noise":
        return electrical_signal(f, [v / SCALE for v in ns])
    if form == "ndarray":
        return np.array(f)
    return f


def _with_sps(sps, fn):
    from opticomlib.typing import gv
    old = gv.sps
    gv.sps = sps
    try:
        return fn()
    finally:
        gv.sps = old


def _wave_samples(case):
    from opticomlib.ppm import PPM_ENCODER
    cw = [int(b) for b in PPM_ENCODER([int(c) for c in case["bits"]], case["M"]).data]
    xs = []
    for s in cw:
        xs += [case["bias"] + (case["amp"] * p if s else 0) for p in case["pulse"]]
    return cw, xs


def run_impl(case):
    kind = case["kind"]
    try:
        if kind == "codec":
            from opticomlib.ppm import PPM_ENCODER, PPM_DECODER
            from opticomlib.typing import binary_sequence
            M = case["M"]
            inp = _mk_input(case["data"])
            enc = _guard(PPM_ENCODER, inp, M)
            res = {"status": enc["status"], "enc": enc, "enc_kw": _twin(PPM_ENCODER, "PPM_ENCODER", _mk_input(case["data"]), M)}
            if enc["status"] == "ok":
                # decode the encoder's output, handed over as the object the encoder returned
                with time_limit(30):
                    eo = PPM_ENCODER(_mk_input(case["data"]), M)
                res["dec"] = _guard(PPM_DECODER, eo, M)
                res["dec_kw"] = _twin(PPM_DECODER, "PPM_DECODER", eo, M)
                # homomorphism at a symbol boundary (theorems encode_append / decode_append): the frame split after half of its
                # whole symbols, each part encoded / decoded on its own, must give the parts of the whole result
                bits = _bits_of(case["data"])
                if bits is not None and is_pow2(M) and 2 <= M <= 256 and not case.get("offspec", False):
                    k = M.bit_length() - 1
                    cut = (len(bits) // k // 2) * k
                    if 0 < cut < len(bits):
                        e1 = _guard(PPM_ENCODER, [int(c) for c in bits[:cut]], M)
                        e2 = _guard(PPM_ENCODER, [int(c) for c in bits[cut:]], M)
                        res["pieces"] = {"cut": cut, "e1": e1, "e2": e2}
                        if e1["status"] == "ok" and e2["status"] == "ok" and len(e2["bits"]) > 0:
                            res["pieces"]["d1"] = _guard(PPM_DECODER, [int(c) for c in e1["bits"]], M)
                            res["pieces"]["d2"] = _guard(PPM_DECODER, [int(c) for c in e2["bits"]], M)
            return res
        if kind == "dec":
            from opticomlib.ppm import PPM_DECODER
            r = _guard(PPM_DECODER, _mk_input(case["data"]), case["M"])
            return {"status": r["status"], "dec": r, "dec_kw": _twin(PPM_DECODER, "PPM_DECODER", _mk_input(case["data"]), case["M"])}
        if kind == "hdd":
            runs = _run_hdd(case)
            res = {"status": runs[0]["status"], "hdd": runs[0], "runs": runs}
            if not case.get("enum"):
                # keyword twin under the same numpy seed (no spies: the generator must be consumed the same way)
                import numpy as np
                from opticomlib.ppm import HDD
                state = np.random.get_state()
                try:
                    np.random.seed(case.get("np_seed", 0))
                    res["hdd_kw"] = _twin(HDD, "HDD", _mk_input(case["data"]), case["M"])
                finally:
                    np.random.set_state(state)
            return res
        if kind == "sdd":
            from opticomlib.ppm import SDD
            def go():
                obj = _sdd_input(case, case["xs"], case.get("ns"))
                # the SAME object is handed over again: every further decision must be the first one
                return [_guard(SDD, obj, case["M"]) for _ in range(1 + case.get("repeat", 0))] + \
                       [_twin(SDD, "SDD", _sdd_input(case, case["xs"], case.get("ns")), case["M"])]
            rs = _with_sps(case["sps"], go)
            return {"status": rs[0]["status"], "sdd": rs[0], "sdd_again": rs[1:-1], "sdd_kw": rs[-1]}
        if kind == "wave":
            from opticomlib.ppm import SDD, HDD, PPM_DECODER
            with time_limit(30):
                cw, xs = _wave_samples(case)
            r = _with_sps(case["sps"], lambda: _guard(SDD, _sdd_input(case, xs), case["M"]))
            res = {"status": r["status"], "sdd": r, "cw": "".join(map(str, cw)), "xs": xs}
            res["hdd"] = _guard(HDD, cw, case["M"])
            res["dec"] = _guard(PPM_DECODER, cw, case["M"])
            return res
        if kind == "dac":
            from opticomlib.ppm import SDD, PPM_ENCODER
            from opticomlib.devices import DAC

            def go():
                with time_limit(30):
                    cw = PPM_ENCODER(case["bits"], case["M"])
                    with warnings.catch_warnings():
                        warnings.simplefilter("ignore")
                        x = DAC(cw, bias=case["bias"], Vout=case["Vout"], pulse_shape=case["pulse_shape"])
                r = _guard(SDD, x, case["M"])
                r["cw"] = "".join(str(int(b)) for b in cw.data)
                return r
            r = _with_sps(case["sps"], go)
            return {"status": r["status"], "sdd": r}
        if kind == "dec2bin":
            from opticomlib.utils import dec2bin
            try:
                with time_limit(30):
                    out = dec2bin(case["num"], case["digits"])
                res = {"status": "ok", "bits": "".join(str(int(b)) for b in out), "dtype": str(out.dtype)}
            except Timeout:
                raise
            except Exception as e:  # noqa
                res = {"status": "err", "err": exc_enum(e), "detail": repr(e)[:160]}
            try:
                with time_limit(30):
                    outk = dec2bin(**dict(zip(SIGNATURES["dec2bin"], (case["num"], case["digits"]))))
                res["kw"] = {"status": "ok", "bits": "".join(str(int(b)) for b in outk), "dtype": str(outk.dtype)}
            except Timeout:
                raise
            except Exception as e:  # noqa
                res["kw"] = {"status": "err", "err": exc_enum(e)}
            return res
        return {"status": "err", "err": "Other", "detail": "unknown kind"}
    except Timeout as e:
        return {"status": "timeout", "detail": str(e)}
    except Exception as e:  # noqa  (failure while building the input object)
        return {"status": "err", "err": exc_enum(e), "detail": "setup: " + repr(e)[:160], "setup": True}


# ------------------------------------------------------------------------------------------------ model

def model_requests(case, res):
    kind = case["kind"]
    if res.get("setup"):
        return []
    if kind == "codec":
        reqs = [f"ppm.enc {case['M']} {_wire_input(case['data'])}"]
        if res["status"] == "ok" and res["enc"]["ndim"] == 1:
            b = res["enc"]["bits"]
            reqs.append(f"ppm.dec {case['M']} seq {len(b)} " + " ".join(b))
        return reqs
    if kind == "dec":
        return [f"ppm.dec {case['M']} {_wire_input(case['data'])}"]
    if kind == "hdd":
        reqs = []
        for run in res["runs"]:
            d = run["draws"]
            # each draw goes with the arguments the code passed; the model accepts it only for `randint(M)` / `choice(j)`
            rs = " ".join([str(len(d["r"]))] + [" ".join([str(v), str(len(a))] + [str(x) for x in a])
                                                for v, a in zip(d["r"], d["rargs"])])
            cs = " ".join([str(len(d["c"]))] + [" ".join([str(v), str(len(j))] + [str(x) for x in j])
                                                for v, j in zip(d["c"], d["cargs"])])
            reqs.append(f"ppm.hdd {case['M']} {rs} {cs} {_wire_input(case['data'])}")
        return reqs
    if kind == "sdd":
        xs = case["xs"] if "ns" not in case else [a + b for a, b in zip(case["xs"], case["ns"])]
        return [f"ppm.sdd {case['M']} {case['sps']} {len(xs)} " + " ".join(map(str, xs))]
    if kind == "wave":
        xs = res.get("xs")
        if xs is None:
            return []
        return [f"ppm.sdd {case['M']} {case['sps']} {len(xs)} " + " ".join(map(str, xs))]
    if kind == "dec2bin":
        return [f"ppm.dec2bin {case['num']} {case['digits']}"]
    return []


def _want(r):
    if r["status"] == "ok":
        return "ok " + r["bits"] if r["bits"] else "ok"
    if r["status"] == "err":
        return "err " + r["err"]
    return r["status"]


def _unmodelled_expected(case):
    t = case.get("data", {}).get("text")
    return t is not None and (";" in t or "j" in t or "i" in t)


def compare(case, res, reqs, replies):
    if not reqs:
        return []
    kind = case["kind"]
    out = []
    impl = {"codec": ["enc", "dec"], "dec": ["dec"], "hdd": ["hdd"], "sdd": ["sdd"], "wave": ["sdd"]}.get(kind)
    if kind == "dec2bin":
        wants = [_want(res)]
    elif kind == "hdd":
        wants = [_want(run) for run in res["runs"]]
    else:
        wants = [_want(res[k]) for k in impl[:len(reqs)]]
    if kind == "sdd" and reqs:
        for k, rr in enumerate(res.get("sdd_again", [])):
            if replies[0].strip() not in ("unmodelled",) and _want(rr) != replies[0].strip():
                out.append(f"{reqs[0][:60]}…: model {replies[0].strip()[:100]!r}, implementation on call {k + 2} of the same object {_want(rr)[:100]!r}")
                break
    for req, rep, want in zip(reqs, replies, wants):
        rep = rep.strip()
        if rep == "unmodelled":
            if not _unmodelled_expected(case):
                out.append(f"model declines {req[:80]!r}")
            continue
        if rep != want:
            out.append(f"{req[:60]}…: model {rep[:100]!r}, implementation {want[:100]!r}")
    return out


# ------------------------------------------------------------------------------------------------ oracle

def _sym(s, M):
    return [s[i:i + M] for i in range(0, len(s), M)]


def _valid_type(r, where, v):
    if r["cls"] != "binary_sequence" or r["dtype"] != "uint8" or r["ndim"] != 1:
        v.append((f"C12:type:{where}", f"{where} returned {r['cls']}/{r['dtype']}/ndim {r['ndim']}"))


def _bits_of(data):
    """the bit sequence an accepted container denotes, or None when the case is outside the statement"""
    return data.get("bits")


def _oracle_hdd(case, r, M):
    """the statement on one run of HDD; every draw was a value the code's own call asked for (numpy's, or the stub's)"""
    v = []
    dr = r.get("draws", {})
    how = f" [draws: randint{dr.get('rargs')} -> {dr.get('r')}, choice{dr.get('cargs')} -> {dr.get('c')}]" if dr.get("r") or dr.get("c") else ""
    if case["data"]["form"] in ("scalar", "none", "dict"):
        return v
    slots = _bits_of(case["data"])
    if slots is None:
        return v
    if case["data"]["form"] in STR_FORMS and case["data"]["text"] == "":
        return v
    if not is_pow2(M):
        if not (r["status"] == "err" and r["err"] == "ValueError"):
            v.append((f"C12:hdd-reject-order:{'zero' if M == 0 else 'nonpow2'}",
                      f"HDD(len {len(slots)}, M={M}): order is not a power of two, ValueError required, got "
                      f"{r.get('exc', r['status'])}"))
        return v
    if not 2 <= M <= 256:
        return v    # outside the statement's orders: model tie only
    if len(slots) % M != 0:
        if not (r["status"] == "err" and r["err"] == "ValueError"):
            v.append(("C12:hdd-reject-length", f"HDD(len {len(slots)}, M={M}): not whole symbols, ValueError required, got {r}"))
        return v
    if r["status"] != "ok":
        return [("C12:hdd-accept", f"HDD({slots!r},{M}) failed with {r.get('exc')}: {r.get('detail')}{how}")]
    _valid_type(r, "HDD", v)
    out = r["bits"]
    if len(out) != len(slots):
        return v + [("C12:hdd-length", f"HDD({slots!r},{M}) returned {len(out)} slots")]
    for i, (s, o) in enumerate(zip(_sym(slots, M), _sym(out, M))):
        if o.count("1") != 1:
            v.append(("C12:hdd-valid", f"HDD({slots!r},{M}) symbol {i}: {o!r} has {o.count('1')} ON slots{how}"))
        elif s.count("1") == 1 and o != s:
            v.append(("C12:hdd-unchanged", f"HDD({slots!r},{M}) symbol {i}: {s!r} had one ON slot but became {o!r}{how}"))
        elif s.count("1") > 1 and s[o.index("1")] != "1":
            v.append(("C12:hdd-keeps-on", f"HDD({slots!r},{M}) symbol {i}: {s!r} -> {o!r}: the kept slot was not ON{how}"))
        if len(v) > 3:
            break
    ag = r.get("again")
    if ag is not None and not v:
        if ag["status"] != "ok" or ag.get("bits") != out:
            v.append(("C12:hdd-idempotent", f"HDD(HDD({slots!r},{M}),{M}) = {ag.get('bits', ag.get('exc'))!r:.80}, but the first result "
                                            f"{out!r:.80} is a valid codeword and must come back unchanged{how}"))
    return v


def _all_results(res):
    for x in res.values():
        if isinstance(x, dict):
            yield x
        elif isinstance(x, list):
            for y in x:
                if isinstance(y, dict):
                    yield y


def oracle(case, res):
    """the statement's clauses first, then the runtime monitor (arguments unchanged by the call)"""
    v = list(_oracle_statement(case, res))
    if not res.get("setup"):
        for key, pos, name in (("enc_kw", "enc", "PPM_ENCODER"), ("dec_kw", "dec", "PPM_DECODER"), ("hdd_kw", "hdd", "HDD"),
                               ("sdd_kw", "sdd", "SDD")):
            if key in res and pos in res and _twin_differs(res[pos], res[key]):
                v.append((f"C12:positional:{name}", f"{name}({', '.join(SIGNATURES[name])}) called positionally gave "
                                                    f"{res[pos].get('bits', res[pos].get('exc'))!r:.80} but by keyword "
                                                    f"{res[key].get('bits', res[key].get('exc'))!r:.80}; case {str(case)[:200]}"))
        if case["kind"] == "dec2bin" and "kw" in res and any(res.get(k) != res["kw"].get(k) for k in ("status", "bits", "err", "dtype")):
            v.append(("C12:positional:dec2bin", f"dec2bin({case['num']}, {case['digits']}) positionally {res.get('bits', res.get('err'))!r} "
                                                f"but dec2bin(num=, digits=) {res['kw'].get('bits', res['kw'].get('err'))!r}"))
        for r in _all_results(res):
            if r.get("args_unchanged") is False:
                v.append(("C12:mutates-input:" + case["kind"], f"{r.get('changed_arg')}; case {str(case)[:240]}"))
                break
    return v


def _oracle_statement(case, res):
    v = []
    kind = case["kind"]
    if res.get("setup"):
        return v
    if res["status"] == "timeout" or any(isinstance(x, dict) and x.get("status") == "timeout"
                                         for x in list(res.values()) + list(res.get("runs", []))):
        return [("C12:timeout:" + kind, f"{kind} did not return within the time limit: {str(case)[:200]}")]
    M = case.get("M")
    offspec = case.get("offspec", False)
    if kind == "codec":
        bits = _bits_of(case["data"])
        if offspec or bits is None or not (is_pow2(M) and 2 <= M <= 256):
            return v
        if case["data"]["form"] in STR_FORMS and case["data"]["text"] == "":
            return v     # '' is not an accepted container (str2array refuses it)
        k = M.bit_length() - 1
        enc = res["enc"]
        if enc["status"] != "ok":
            return [("C12:enc-accept", f"PPM_ENCODER({case['data']['form']} {bits!r}, {M}) failed: {enc}")]
        _valid_type(enc, "PPM_ENCODER", v)
        n = len(bits) // k
        want = "".join("0" * d + "1" + "0" * (M - 1 - d) for d in (int(bits[i * k:(i + 1) * k], 2) for i in range(n)))
        if enc["bits"] != want:
            v.append(("C12:enc-onehot", f"PPM_ENCODER({case['data']['form']} {bits!r}, {M}) = {enc['bits'][:80]} but one ON slot "
                                        f"per block at the big-endian value requires {want[:80]}"))
        dec = res.get("dec")
        if dec is None or dec["status"] != "ok":
            v.append(("C12:dec-accept", f"PPM_DECODER(PPM_ENCODER({bits!r},{M}),{M}) failed: {dec}"))
        else:
            _valid_type(dec, "PPM_DECODER", v)
            if dec["bits"] != bits[:n * k]:
                v.append(("C12:dec-enc", f"PPM_DECODER(PPM_ENCODER({bits!r},{M}),{M}) = {dec['bits'][:80]!r}, required {bits[:n*k][:80]!r}"))
        pc = res.get("pieces")
        if pc:
            e1, e2 = pc["e1"], pc["e2"]
            if e1["status"] != "ok" or e2["status"] != "ok":
                v.append(("C12:enc-append", f"PPM_ENCODER of the parts {bits[:pc['cut']][:40]!r} / {bits[pc['cut']:][:40]!r} (M={M}) failed: "
                                            f"{e1 if e1['status'] != 'ok' else e2}"))
            else:
                if e1["bits"] + e2["bits"] != enc["bits"]:
                    v.append(("C12:enc-append", f"PPM_ENCODER({bits[:60]!r}, {M}) differs from the concatenation of the encodings of its "
                                                f"parts split after {pc['cut']} bits (a symbol boundary)"))
                d1, d2 = pc.get("d1"), pc.get("d2")
                if d1 is not None and dec is not None and dec["status"] == "ok":
                    if d1["status"] != "ok" or d2["status"] != "ok":
                        v.append(("C12:dec-append", f"PPM_DECODER of the encoded parts (M={M}) failed: {d1 if d1['status'] != 'ok' else d2}"))
                    elif d1["bits"] + d2["bits"] != dec["bits"]:
                        v.append(("C12:dec-append", f"PPM_DECODER of the whole codeword of {bits[:60]!r} (M={M}) differs from the "
                                                    f"concatenation of the decodings of its two parts"))
        return v
    if kind == "dec":
        bits = _bits_of(case["data"])
        if offspec or bits is None or not (is_pow2(M) and M >= 2):
            return v
        if case["data"]["form"] in STR_FORMS and case["data"]["text"] == "":
            return v
        # on valid codewords the decoder must invert the encoder (bijection on whole symbols)
        if len(bits) % M == 0 and all(s.count("1") == 1 for s in _sym(bits, M)):
            k = M.bit_length() - 1
            want = "".join(format(s.index("1"), f"0{k}b") for s in _sym(bits, M))
            d = res["dec"]
            if d["status"] != "ok" or d["bits"] != want:
                v.append(("C12:dec-valid", f"PPM_DECODER({bits!r},{M}) = {d}, required {want!r}"))
        return v
    if kind == "hdd":
        for r in res["runs"]:
            v += _oracle_hdd(case, r, M)
            if v:
                break
        return v
    if kind == "sdd":
        r = res["sdd"]
        sps = case["sps"]
        xs = case["xs"] if "ns" not in case else [a + b for a, b in zip(case["xs"], case["ns"])]
        if not is_pow2(M):
            if not (r["status"] == "err" and r["err"] == "ValueError"):
                v.append((f"C12:sdd-reject-order:{'zero' if M == 0 else 'nonpow2'}",
                          f"SDD(len {len(xs)}, M={M}, sps={sps}): ValueError required, got {r.get('exc', r['status'])}"))
            return v
        if not 2 <= M <= 256:
            return v
        if len(xs) % (M * sps) != 0:
            if not (r["status"] == "err" and r["err"] == "ValueError"):
                v.append(("C12:sdd-reject-length", f"SDD(len {len(xs)}, M={M}, sps={sps}): ValueError required, got {r}"))
            return v
        if r["status"] != "ok":
            return [("C12:sdd-accept", f"SDD(M={M}, sps={sps}, {len(xs)} samples) failed: {r}")]
        _valid_type(r, "SDD", v)
        e = [sum(xs[i:i + sps]) for i in range(0, len(xs), sps)]
        for call, rr in enumerate([r] + list(res.get("sdd_again", []))):
            nth = "" if call == 0 else f" (call {call + 1} on the same {case['form']} object)"
            if rr["status"] != "ok":
                v.append(("C12:sdd-accept", f"SDD(M={M}, sps={sps}, {len(xs)} samples) failed{nth}: {rr}"))
                break
            out = rr["bits"]
            if len(out) != len(e):
                return v + [("C12:sdd-length", f"SDD(M={M}, sps={sps}, {len(xs)} samples) returned {len(out)} slots{nth}, required {len(e)}")]
            for i in range(0, len(e), M):
                sym, o = e[i:i + M], out[i:i + M]
                # a tie leaves the choice among the maxima open in the statement (the model tie pins numpy's first maximum)
                if o.count("1") != 1 or sym[o.index("1")] != max(sym):
                    v.append(("C12:sdd-argmax", f"SDD(M={M}, sps={sps}){nth} symbol {i // M}: slot energies of signal+noise x{SCALE} = {sym} "
                                                f"(signal x{SCALE} = {case['xs'][i * sps:(i + M) * sps]}, noise = {(case.get('ns') or [])[i * sps:(i + M) * sps]}) "
                                                f"but output {o!r}: exactly the slot of largest integrated energy must be ON"))
                    break
            if call and rr["bits"] != r["bits"] and not v:
                v.append(("C12:sdd-repeat", f"SDD(M={M}, sps={sps}){nth} returned {rr['bits'][:64]} but the first call {r['bits'][:64]}"))
            if v:
                break
        return v
    if kind == "wave":
        cw = res.get("cw")
        if cw is None:
            return [("C12:wave-setup", f"could not build the waveform: {res}")]
        for name in ("sdd", "hdd"):
            r = res[name]
            if r["status"] != "ok" or r["bits"] != cw:
                v.append((f"C12:{name}-identity", f"{name.upper()} on the {'noiseless waveform of the ' if name == 'sdd' else ''}valid codeword "
                                                  f"{cw[:64]!r} (M={M}, sps={case['sps']}, pulse={case['pulse']}, amp={case['amp']}, "
                                                  f"bias={case['bias']}) gave {str(r)[:120]}"))
        k = M.bit_length() - 1
        d = res["dec"]
        want = case["bits"][:len(case["bits"]) // k * k]
        if d["status"] != "ok" or d["bits"] != want:
            v.append(("C12:dec-enc", f"PPM_DECODER of the codeword of {case['bits']!r} gave {d}"))
        return v
    if kind == "dac":
        r = res["sdd"]
        if r["status"] != "ok" or r["bits"] != r.get("cw"):
            v.append(("C12:sdd-identity-dac", f"SDD(DAC(codeword, Vout={case['Vout']}, bias={case['bias']}, {case['pulse_shape']}), M={M}), "
                                              f"sps={case['sps']}, bits={case['bits']!r}: got {str(r)[:160]}"))
        return v
    if kind == "dec2bin":
        num, d = case["num"], case["digits"]
        if num <= 2 ** d - 1:
            want = format(num, f"0{d}b") if d else ""
            if res["status"] != "ok" or res["bits"] != want:
                v.append(("C12:dec2bin", f"dec2bin({num},{d}) = {res}, required {want!r}"))
        elif not (res["status"] == "err" and res["err"] == "ValueError"):
            v.append(("C12:dec2bin-reject", f"dec2bin({num},{d}) must raise ValueError, got {res}"))
        return v
    return v


# ------------------------------------------------------------------------------------------------ statistics

def features(case, res):
    kind = case["kind"]
    f = ["kind=" + kind, "status=" + res["status"]]
    if res["status"] == "err":
        inner = next((x for x in res.values() if isinstance(x, dict) and x.get("status") == "err"), res)
        f.append(f"{kind}:err=" + inner.get("err", res.get("err", "?")))
    if "M" in case:
        M = case["M"]
        f.append("M=" + (str(M) if is_pow2(M) and M <= 256 else ("pow2>256" if is_pow2(M) else ("M<=0" if M <= 0 else "nonpow2"))))
    if "data" in case:
        f.append("form=" + case["data"]["form"])
        n = len(case["data"].get("bits") or case["data"].get("text") or "")
        f.append("len=" + ("0" if n == 0 else "1-8" if n <= 8 else "9-16" if n <= 16 else "17-256" if n <= 256 else ">256"))
    if res.get("setup") or kind not in res and kind in ("hdd", "sdd", "dec"):
        f.append("setup-failed")
        return f
    if kind == "hdd":
        d = res["hdd"].get("draws", {})
        f.append("hdd:draws=" + ("enumerated" if case.get("enum") else "numpy"))
        if case.get("enum"):
            n = len(res.get("runs", []))
            f.append("hdd:enum-runs=" + ("1" if n == 1 else "2-16" if n <= 16 else "17-128" if n <= 128 else ">128"))
        if d.get("r"):
            f.append("hdd:empty-symbol")
        if d.get("c"):
            f.append("hdd:crowded-symbol")
    if kind == "sdd":
        f.append("sdd:calls-on-same-object=" + str(1 + len(res.get("sdd_again", []))))
    if kind in ("sdd", "wave"):
        f.append("sps=" + str(case["sps"]))
        f.append("sdd-form=" + case["form"])
    if kind == "dac":
        f.append("pulse=" + case["pulse_shape"])
    return f


def nontrivial_key(case, res):
    if res["status"] != "ok" or res.get("setup"):
        return None
    kind = case["kind"]
    if kind in ("codec", "dec", "hdd"):
        body = case["data"].get("bits") or case["data"].get("text") or ""
        if not body:
            return None
        extra = ()
        if kind == "hdd":
            d = res["hdd"]["draws"]
            extra = (tuple(d["r"]), tuple(d["c"]), len(res.get("runs", [])))
        return (kind, case["M"], case["data"]["form"], body, extra)
    if kind == "sdd":
        return (kind, case["M"], case["sps"], tuple(case["xs"]), tuple(case.get("ns", ())))
    if kind in ("wave", "dac"):
        return (kind, case["M"], case["sps"], case["bits"], str(case.get("pulse", case.get("pulse_shape"))))
    if kind == "dec2bin":
        return (kind, case["num"], case["digits"])
    return None
