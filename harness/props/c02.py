"""C02 — time/frequency transforms are exact inverses on the sampling-rate FFT grid."""
import warnings

import numpy as np

from harness.common.wire import enc_clist, enc_f, enc_bool, Toks, exc_enum
from harness.common.watchdog import time_limit, Timeout

ID = "C02"
MANIFEST = {
    "text": "Lean 4 theorems (Props/C02.lean) about the generic DFT model that the driver executes at Float: idft∘dft = id and "
            "dft∘idft = id for every length n>=1, Parseval sum|X|^2 = n*sum|x|^2, ifftshift∘fftshift = id = fftshift∘ifftshift "
            "for every length (odd included) so the opposite shift recovers the unshifted transform, x(domain,shift) acts "
            "row-wise and alike on signal and noise, the w() axis is 2*pi*k*fs/n for the signed fftfreq index and its fftshift "
            "is ascending, power = mean |signal+noise|^2; the transform is additive (signal+noise transforms to the sum of the "
            "transforms, shift included) and maps an unlit row to exact zeros with power exactly 0.  Tie: the same Lean definitions run at Float against "
            "x('w'|'f'|'t', shift), x.w(shift), x.power() of the real code (tolerance 1e-9 relative to the row's magnitude).",
    "note": "numpy.fft.fft/ifft are modelled as the DFT by definition (trusted to compute it); proofs are over R/C and say nothing "
            "about rounding; Float correspondence tolerance 1e-9*scale*n. Axioms: propext, Classical.choice, Quot.sound.",
    "technique": "Lean 4 proof over R/C of a generic DFT/shift model (character orthogonality, list rotation), same definitions executed at Float in a differential run against numpy",
    "design": "§5 C02",
}
GEN = []
MODELS = ["OptiVerif.Model.Fourier"]
RULE = ("cases = (class, n_pol, length in {1,2,3,4,5,7,8,9,16,31,32,64,...}, dtype, noise?, domain, shift, gv(sps,R), amplitude regime 1e-15..1e9, dark rows: an unlit polarisation / noise cancelling the signal / all-zero record); "
        "non-trivial = length>=2; distinct by (class,n_pol,len,noise,domain,shift,dtype,gv)")
PARTIAL = ["numpy's FFT is trusted to compute the DFT (model = definition); rounding error is not covered by the theorems"]
ASSUMPTIONS = ["numpy.fft.fft/ifft compute the DFT/inverse DFT of the last axis", "IEEE double arithmetic on both sides; libm sin/cos within 1 ulp"]
THOROUGH_ROUNDS = 6      # the thorough tier draws the whole generator this many times
BUDGET = {"quick": 120, "thorough": 600}

LENS_Q = [1, 2, 3, 4, 5, 7, 8, 9, 16, 31, 64]
LENS_T = list(range(1, 41)) + [47, 53, 61, 64, 97, 127, 128, 131]


def gen_cases(rng, tier):
    cases = []
    lens = LENS_Q if tier == "quick" else LENS_T
    # every way of configuring the sampling grid: (sps,R), (sps,fs), (R,fs) with integer and NON-integer fs/R, fs alone
    gvs = [{"sps": 16, "R": 1e9}, {"sps": 8, "R": 10e9}, {"sps": 5, "R": 2.5e9}, {"sps": 8, "fs": 80e9}, {"R": 10e9, "fs": 40e9},
           {"R": 10e9, "fs": 25e9}, {"R": 2.5e9, "fs": 64e9}, {"fs": 20e9}, {"fs": 12.5e9},
           # a slot count N in force (gv.t / gv.w / gv.dw exist for N*sps points) while the signal has another length
           {"sps": 8, "R": 10e9, "N": 16}, {"sps": 16, "R": 1e9, "N": 4}, {"R": 10e9, "fs": 25e9, "N": 8}, {"sps": 4, "R": 1e9, "N": 2}]
    if tier != "quick":
        gvs += [{"sps": 33, "R": 1e6}, {"sps": 2, "R": 40e9}, {"sps": 64, "R": 1e9}, {"R": 3e9, "fs": 10e9}, {"sps": 7, "fs": 10e9}]
    for n in lens:
        for cls, npol in (("e", 1), ("o", 1), ("o", 2)):
            for noise in (False, True):
                for dom in ("w", "f", "t"):
                    for shift in (False, True):
                        if tier == "quick" and rng.random() < 0.5 and n not in (1, 2, 3, 5):
                            continue
                        dtype = rng.choice(["complex", "real", "int", "complex", "real", "int", "float32", "complex64", "uint8", "bool"])
                        # amplitude regime: rounding error of an FFT is RELATIVE to the data, so tiny and huge data must work alike
                        amp = rng.choice([1.0, 1.0, 1.0, 1e-12, 1e-15, 1e9]) if dtype not in ("int", "uint8", "bool") else 1.0
                        namp = rng.choice([0.25, 0.25, 1e-12, 1e-6])
                        g = rng.choice(gvs)
                        seed = rng.getrandbits(32)
                        # dark rows: a polarisation whose field is identically zero (unlit y, or noise cancelling the signal), all-zero records
                        zero = rng.choice([None, None, None, "x", "y", "cancel-x", "cancel-y"]) if npol == 2 else rng.choice([None] * 9 + ["all"])
                        if zero and zero.startswith("cancel") and not noise:
                            zero = zero[-1]
                        cases.append({"kind": "call", "cls": cls, "npol": npol, "n": n, "noise": noise, "dom": dom,
                                      "shift": shift, "dtype": dtype, "gv": g, "seed": seed, "amp": amp, "namp": namp, "zero": zero,
                                      "shiftkind": rng.choice(["py", "py", "np", "int", "cmp"])})
    for n in lens:
        for shift in (False, True):
            for g in ([rng.choice(gvs), rng.choice(gvs), rng.choice(gvs[-4:])] if tier == "quick" else gvs):
                cases.append({"kind": "waxis", "n": n, "shift": shift, "gv": g, "cls": "e", "npol": 1, "noise": False,
                              "dtype": "real", "seed": 1, "dom": "-", "shiftkind": rng.choice(["py", "py", "np", "int", "cmp"])})
    # signal length exactly N*sps of the grid in force (gv.w exists with that many points)
    for g in [{"sps": 8, "R": 10e9, "N": 16}, {"sps": 4, "R": 1e9, "N": 2}, {"sps": 16, "R": 1e9, "N": 4}]:
        for shift in (False, True):
            cases.append({"kind": "waxis", "n": g["sps"] * g["N"], "shift": shift, "gv": g, "cls": rng.choice(["e", "o"]), "npol": 1,
                          "noise": False, "dtype": "real", "seed": 1, "dom": "-", "shiftkind": rng.choice(["py", "np", "int"])})
    # long records (longer than any plausible internal block size): power() only — the O(n^2) DFT model is not run on them
    for n, cls, npol in ([(65537, "e", 1), (100003, "o", 2)] if tier == "quick" else
                         [(65536, "e", 1), (65537, "e", 1), (70000, "o", 1), (100003, "o", 2), (131072, "o", 2), (208953, "e", 1)]):
        cases.append({"kind": "longpower", "cls": cls, "npol": npol, "n": n, "noise": rng.random() < 0.5, "dom": "-", "shift": False,
                      "dtype": rng.choice(["complex", "real"]), "gv": {"sps": 16, "R": 1e9}, "seed": rng.getrandbits(32), "amp": 1.0, "namp": 0.25})
    # narrow floating dtypes whose SQUARED magnitude leaves the range of the narrow type (power() must not square in it)
    for dt_, amp_ in [("float16", 500.0), ("float16", 2000.0), ("float32", 1e20), ("complex64", 1e20), ("float32", 1e-30), ("complex64", 1e-28)]:
        for npol in (1, 2):
            cases.append({"kind": "narrowpower", "cls": "o" if npol == 2 else rng.choice(["e", "o"]), "npol": npol, "n": rng.choice([7, 16, 33]),
                          "noise": rng.random() < 0.5, "dom": "-", "shift": False, "dtype": dt_, "gv": {"sps": 16, "R": 1e9},
                          "seed": rng.getrandbits(32), "amp": amp_, "namp": 0.25})
    for dom in ("x", "T", "", "freq"):
        cases.append({"kind": "baddomain", "dom": dom, "n": 4, "cls": "e", "npol": 1, "noise": False, "dtype": "real",
                      "shift": False, "gv": {"sps": 16, "R": 1e9}, "seed": 3})
    rng.shuffle(cases)
    return cases


def _data(case):
    r = np.random.default_rng(case["seed"])
    shape = (case["n"],) if case["npol"] == 1 else (2, case["n"])

    def draw():
        if case["dtype"] == "int":
            return r.integers(-9, 10, size=shape)
        if case["dtype"] == "uint8":
            return r.integers(0, 200, size=shape).astype(np.uint8)
        if case["dtype"] == "bool":
            return r.integers(0, 2, size=shape).astype(bool)
        if case["dtype"] == "float32":
            return (r.normal(size=shape) * 3).astype(np.float32)
        if case["dtype"] == "float16":
            return (r.uniform(0.5, 1.0, size=shape) * r.choice([-1.0, 1.0], size=shape)).astype(np.float16)
        if case["dtype"] == "complex64":
            return (r.normal(size=shape) + 1j * r.normal(size=shape)).astype(np.complex64)
        if case["dtype"] == "real":
            return r.normal(size=shape) * 3
        return r.normal(size=shape) + 1j * r.normal(size=shape)
    amp = case.get("amp", 1.0)
    exact = case["dtype"] in ("int", "uint8", "bool")
    if case.get("kind") == "narrowpower":          # samples stay in the narrow dtype, scaled inside it
        nd = {"float16": np.float16, "float32": np.float32, "complex64": np.complex64}[case["dtype"]]
        s = (draw().astype(np.complex128 if nd is np.complex64 else np.float64) * amp).astype(nd)
        nz = (draw().astype(np.complex128 if nd is np.complex64 else np.float64) * amp * 0.25).astype(nd) if case["noise"] else None
        return s, nz
    s = draw() if exact else draw() * (np.float32(amp) if case["dtype"] in ("float32", "complex64") and 1e-30 < amp < 1e30 else amp)
    nz = draw() * (case.get("namp", 0.25) * amp) if case["noise"] else None
    if nz is not None and case["dtype"] == "int":
        nz = r.integers(-3, 4, size=shape)
    if nz is not None and case["dtype"] in ("uint8", "bool"):
        nz = r.integers(0, 3, size=shape).astype(np.uint8)
    z = case.get("zero")
    if z == "all":
        s = s * 0
        nz = None if nz is None else nz * 0
    elif z in ("x", "y"):
        s[0 if z == "x" else 1] = 0
        if nz is not None:
            nz[0 if z == "x" else 1] = 0
    elif z in ("cancel-x", "cancel-y") and nz is not None and case["dtype"] in ("uint8", "bool"):
        k = 0 if z == "cancel-x" else 1          # unsigned samples cannot cancel: an unlit row instead
        s[k] = 0
        nz[k] = 0
    elif z in ("cancel-x", "cancel-y") and nz is not None:
        k = 0 if z == "cancel-x" else 1
        nz = nz.astype(np.result_type(nz, s))
        nz[k] = -s[k]
    return s, nz


def _rows(a):
    a = np.asarray(a)
    return [list(map(complex, a))] if a.ndim == 1 else [list(map(complex, row)) for row in a]


def _obj(case, s, nz):
    from opticomlib.typing import electrical_signal, optical_signal
    if case["cls"] == "e":
        return electrical_signal(s, nz)
    return optical_signal(s, nz, n_pol=case["npol"])


def _shift_value(case):
    """the VALUE handed over as `shift`: the statement says shift=True/False; numpy booleans, 0/1 and the results of numpy
    comparisons are the same truth values and are what callers routinely pass"""
    k = case.get("shiftkind", "py")
    t = bool(case["shift"])
    return {"py": t, "np": np.bool_(t), "int": int(t), "cmp": (np.arange(2) > 0)[1 if t else 0]}[k]


def run_impl(case):
    from opticomlib.typing import gv
    res = {}
    try:
        with warnings.catch_warnings():
            warnings.simplefilter("ignore")
            gv.clean()
            gv(**case["gv"])
            s, nz = _data(case)
            x = _obj(case, s, nz)
            x0 = (np.array(x.signal, copy=True), None if x.noise is None else np.array(x.noise, copy=True))   # operand before any call
            with time_limit(30):
                if case["kind"] == "waxis":
                    sv = _shift_value(case)
                    w = x.w(sv)
                    w_first = np.array(w, dtype=float, copy=True)
                    res.update(status="ok", w=[float(v) for v in w_first], fs=float(gv.fs))
                    # the returned axis is the caller's: it must not be a view of gv's stored grid, and editing it in place
                    # must not change what the next call returns
                    gvw = getattr(gv, "w", None)
                    res["aliases_gv"] = bool(isinstance(gvw, np.ndarray) and np.shares_memory(w, gvw))
                    try:
                        w *= 0.5
                        w += 1.0
                    except Exception:  # noqa  (a read-only result cannot be edited: nothing to check)
                        pass
                    w2 = x.w(shift=sv)
                    res["w_again_same"] = bool(np.array_equal(np.asarray(w2, dtype=float), w_first))
                elif case["kind"] in ("longpower", "narrowpower"):
                    wide = np.complex128 if np.iscomplexobj(x0[0]) else np.float64       # reference in double precision
                    tot = x0[0].astype(wide) if x0[1] is None else (x0[0] + x0[1]).astype(wide)
                    x0 = (x0[0].astype(wide), None if x0[1] is None else x0[1].astype(wide))
                    res.update(status="ok", n=len(x), power=[float(v) for v in np.atleast_1d(x.power())],
                               power_sig=[float(v) for v in np.atleast_1d(x.power('signal'))],
                               power_noise=[float(v) for v in np.atleast_1d(x.power('noise'))],
                               want=[float(v) for v in np.atleast_1d(np.mean(np.abs(tot) ** 2, axis=-1))],
                               want_sig=[float(v) for v in np.atleast_1d(np.mean(np.abs(x0[0]) ** 2, axis=-1))],
                               want_noise=[float(v) for v in np.atleast_1d(np.mean(np.abs(x0[1]) ** 2, axis=-1))] if x0[1] is not None else None)
                else:
                    sv = _shift_value(case)
                    y = x(case["dom"], sv)
                    yk = x(domain=case["dom"], shift=sv)              # keyword spelling of the same request
                    res["keyword_same"] = bool(np.array_equal(yk.signal, y.signal))
                    res.update(status="ok", cls=type(y).__name__, npol=getattr(y, "n_pol", None), n=len(y),
                               sig=[[[z.real, z.imag] for z in row] for row in _rows(y.signal)],
                               noise=None if y.noise is None else [[[z.real, z.imag] for z in row] for row in _rows(y.noise)],
                               in_sig=[[[z.real, z.imag] for z in row] for row in _rows(x0[0])],
                               in_noise=None if x0[1] is None else [[[z.real, z.imag] for z in row] for row in _rows(x0[1])],
                               power=[float(v) for v in np.atleast_1d(x.power())],
                               power_sig=[float(v) for v in np.atleast_1d(x.power('signal'))])
                    y2 = x(case["dom"], sv)        # the same request again on the same object
                    res["repeat_same"] = bool(np.array_equal(y2.signal, y.signal) and
                                              ((y2.noise is None) == (y.noise is None)) and
                                              (y.noise is None or np.array_equal(y2.noise, y.noise)))
                    res["in_unchanged"] = bool(np.array_equal(x.signal, x0[0], equal_nan=True) and
                                               (x0[1] is None or np.array_equal(x.noise, x0[1], equal_nan=True)))
                    # round trip and opposite shift on the real objects
                    inv = "t" if case["dom"] in ("w", "f") else "w"
                    if case["shift"]:
                        un = np.fft.ifftshift(y.signal, axes=-1) if inv == "t" else np.fft.fftshift(y.signal, axes=-1)
                        ref = x(case["dom"], False).signal
                        res["unshift_err"] = float(np.max(np.abs(un - ref)))
                    else:
                        back = y(inv)
                        res["roundtrip_err"] = float(np.max(np.abs(back.signal - x0[0])))
                        if x0[1] is not None:
                            res["roundtrip_err_noise"] = float(np.max(np.abs(back.noise - x0[1])))
                        res["back_cls"] = type(back).__name__
    except Timeout as e:
        res.update(status="timeout", detail=str(e))
    except Exception as e:  # noqa
        res.update(status="err", err=exc_enum(e), detail=repr(e)[:200])
    finally:
        try:
            gv.clean()
        except Exception:
            pass
    return res


def _enc_rows(rows):
    return " ".join([str(len(rows))] + [enc_clist([complex(a, b) for a, b in row]) for row in rows])


def _enc_payload(sig, noise):
    return _enc_rows(sig) + (" 0" if noise is None else " 1 " + _enc_rows(noise))


def model_requests(case, res):
    if res["status"] != "ok":
        if case["kind"] == "baddomain":
            return [f"fourier.call {case['dom'] or 'empty'} 0 1 1 {enc_f(1.0)} {enc_f(0.0)} 0"]
        return []
    if case["kind"] == "waxis":
        return [f"fourier.waxis {case['n']} {enc_f(res['fs'])} {enc_bool(case['shift'])}"]
    if case["kind"] in ("longpower", "narrowpower"):
        return []
    dom = "w" if case["dom"] in ("w", "f") else "t"
    return [f"fourier.call {dom} {enc_bool(case['shift'])} {_enc_payload(res['in_sig'], res['in_noise'])}",
            f"fourier.power {_enc_payload(res['in_sig'], res['in_noise'])}"]


def _rd_rows(t):
    return [t.clist() for _ in range(t.nat())]


def compare(case, res, reqs, replies):
    out = []
    if not reqs:
        return out
    if res["status"] == "err":
        want = "err " + res["err"]
        return [] if replies[0] == want else [f"model {replies[0][:80]!r} vs implementation {want!r}"]
    if case["kind"] == "waxis":
        if not replies[0].startswith("ok "):
            return [f"model reply {replies[0][:80]}"]
        t = Toks(replies[0][3:])
        w = t.flist()
        ref = res["w"]
        if len(w) != len(ref):
            return [f"w axis length model {len(w)} impl {len(ref)}"]
        scale = max(1.0, max(abs(v) for v in ref))
        bad = [i for i, (a, b) in enumerate(zip(w, ref)) if not (abs(a - b) <= 1e-12 * scale)]
        return [f"w axis differs at {bad[:3]}: model {w[bad[0]]!r} impl {ref[bad[0]]!r}"] if bad else []
    if not replies[0].startswith("ok "):
        return [f"model reply {replies[0][:80]}"]
    t = Toks(replies[0][3:])
    msig = _rd_rows(t)
    mnoise = _rd_rows(t) if t.nat() == 1 else None
    n = case["n"]

    def cmp_rows(name, mrows, irows):
        if (mrows is None) != (irows is None):
            return [f"{name}: presence differs"]
        if mrows is None:
            return []
        if len(mrows) != len(irows):
            return [f"{name}: {len(mrows)} rows vs {len(irows)}"]
        for r, (mr, ir) in enumerate(zip(mrows, irows)):
            iv = [complex(a, b) for a, b in ir]
            if len(mr) != len(iv):
                return [f"{name} row {r}: length {len(mr)} vs {len(iv)}"]
            scale = max(1e-300, max(abs(z) for z in iv), max(abs(z) for z in mr))
            for k, (a, b) in enumerate(zip(mr, iv)):
                if not (abs(a - b) <= 1e-9 * scale * max(1, n)):
                    return [f"{name} row {r} sample {k}: model {a!r} impl {b!r}"]
        return []
    out += cmp_rows("signal", msig, res["sig"])
    out += cmp_rows("noise", mnoise, res["noise"])
    if replies[1].startswith("ok "):
        p = Toks(replies[1][3:]).flist()
        ptol = 1e-5 if case["dtype"] in ("float32", "complex64") else 1e-9
        if len(p) != len(res["power"]) or any(not (abs(a - b) <= ptol * max(1e-300, abs(b))) for a, b in zip(p, res["power"])):
            out.append(f"power: model {p} impl {res['power']}")
    else:
        out.append(f"power reply {replies[1][:60]}")
    return out


def oracle(case, res):
    v = []
    if res["status"] == "timeout":
        return [("C02:timeout", "transform did not return")]
    if case["kind"] == "baddomain":
        if not (res["status"] == "err" and res["err"] == "ValueError"):
            v.append(("C02:bad-domain", f"domain {case['dom']!r} must be rejected with ValueError, got {str(res)[:100]}"))
        return v
    if res["status"] != "ok":
        return [("C02:raises", f"valid request failed: {res}")]
    n = case["n"]
    eps = 64 * 2.2e-16
    if case["kind"] in ("longpower", "narrowpower"):
        ptol_ = {"float16": 2e-3, "float32": 1e-5, "complex64": 1e-5}.get(case["dtype"], 1e-10) if case["kind"] == "narrowpower" else 1e-10
        for name, got, want in (("all", res["power"], res["want"]), ("signal", res["power_sig"], res["want_sig"]),
                                ("noise", res["power_noise"], res["want_noise"])):
            if want is None:
                continue
            if len(got) != len(want) or not np.all(np.abs(np.array(got) - np.array(want)) <= ptol_ * np.maximum(1e-300, np.array(want))):
                v.append(("C02:power", f"power('{name}') of a {n}-sample {case['dtype']} record {got} != mean|x|^2 {want}"))
        if res["n"] != n:
            v.append(("C02:shape", f"len() = {res['n']} for a {n}-sample record"))
        return v
    if case["kind"] == "waxis":
        g = case["gv"]
        # the sampling rate now configured: the requested fs when one was given, else R*sps (R defaults to 1e9, sps to 16)
        fs = g["fs"] if "fs" in g else g.get("R", 1e9) * g.get("sps", 16)
        ref = 2 * np.pi * np.fft.fftfreq(n) * fs
        if case["shift"]:
            ref = np.fft.fftshift(ref)
        w = np.array(res["w"])
        if w.shape != ref.shape or not (np.max(np.abs(w - ref)) <= eps * max(1.0, np.max(np.abs(ref)))):
            v.append(("C02:w-axis", f"w(shift={case['shift']}) for n={n}, fs={fs} differs from 2*pi*fftfreq*fs"))
        if res.get("aliases_gv"):
            v.append(("C02:w-aliases-gv", f"w(shift={case['shift']}) returned a view of gv.w (n={n}): editing the returned axis edits the global grid"))
        if res.get("w_again_same") is False:
            v.append(("C02:w-not-fresh", f"after the returned axis was edited in place the next w() call returned different values (n={n})"))
        if not (abs(res["fs"] - fs) <= 1e-9 * fs):
            v.append(("C02:fs", f"gv.fs={res['fs']} but the configured sampling rate is {fs}"))
        return v
    want_cls = "electrical_signal" if case["cls"] == "e" else "optical_signal"
    if res["cls"] != want_cls or res["n"] != n or (case["cls"] == "o" and res["npol"] != case["npol"]):
        v.append(("C02:shape", f"result {res['cls']}/n_pol={res['npol']}/len={res['n']} for input {want_cls}/{case['npol']}/{n}"))
    if (res["noise"] is None) != (not case["noise"]):
        v.append(("C02:noise-presence", "noise component presence changed by the transform"))
    if res.get("keyword_same") is False:
        v.append(("C02:positional", f"x({case['dom']!r}, shift) and x(domain=…, shift=…) differ (n={n})"))
    if not res.get("repeat_same", True):
        v.append(("C02:repeat", f"the same transform request on the same object gave a different result the second time (n={n})"))
    if not res.get("in_unchanged", True):
        v.append(("C02:input-modified", f"x({case['dom']!r},{case['shift']}) modified the object it was applied to (n={n})"))
    fwd = case["dom"] in ("w", "f")

    def ref_tr(rows):
        a = np.array([[complex(p, q) for p, q in row] for row in rows])
        y = np.fft.fft(a, axis=-1) if fwd else np.fft.ifft(a, axis=-1)
        if case["shift"]:
            y = np.fft.fftshift(y, axes=-1) if fwd else np.fft.ifftshift(y, axes=-1)
        return a, y
    for name, inp, outp in (("signal", res["in_sig"], res["sig"]), ("noise", res["in_noise"], res["noise"])):
        if inp is None or outp is None:
            continue
        a, y = ref_tr(inp)
        o = np.array([[complex(p, q) for p, q in row] for row in outp])
        scale = max(1e-300, float(np.max(np.abs(a)))) * max(1, n)
        if o.shape != y.shape or not (np.max(np.abs(o - y)) <= eps * scale):
            v.append((f"C02:transform-{name}", f"{name} of x({case['dom']!r},{case['shift']}) differs from numpy reference (n={n})"))
        # Parseval per row
        if fwd:
            lhs = np.sum(np.abs(o) ** 2, axis=-1)
            rhs = n * np.sum(np.abs(a) ** 2, axis=-1)
        else:
            lhs = n * np.sum(np.abs(o) ** 2, axis=-1)
            rhs = np.sum(np.abs(a) ** 2, axis=-1)
        if not np.all(np.abs(lhs - rhs) <= 1e-10 * np.maximum(1e-300, rhs) * max(1, n)):
            v.append((f"C02:parseval-{name}", f"Parseval fails for {name}, n={n}: {lhs} vs {rhs}"))
    scale = max(1e-300, max(abs(complex(p, q)) for row in res["in_sig"] for p, q in row)) * max(1, n)
    nscale = scale if res["in_noise"] is None else max(1e-300, max(abs(complex(p, q)) for row in res["in_noise"] for p, q in row)) * max(1, n)
    if "roundtrip_err" in res and not (res["roundtrip_err"] <= eps * scale):
        v.append(("C02:roundtrip", f"x({case['dom']!r})(inverse) differs from x by {res['roundtrip_err']:.3e} (n={n})"))
    if not (res.get("roundtrip_err_noise", 0) <= eps * nscale):
        v.append(("C02:roundtrip-noise", f"noise round trip error {res['roundtrip_err_noise']:.3e} (n={n})"))
    if "unshift_err" in res and not (res["unshift_err"] <= eps * scale):
        v.append(("C02:unshift", f"opposite numpy shift does not recover the unshifted transform: {res['unshift_err']:.3e} (n={n}, dom={case['dom']})"))
    # power = mean |signal+noise|^2 per polarisation
    a = np.array([[complex(p, q) for p, q in row] for row in res["in_sig"]])
    tot = a if res["in_noise"] is None else a + np.array([[complex(p, q) for p, q in row] for row in res["in_noise"]])
    pw = np.mean(np.abs(tot) ** 2, axis=-1)
    # single-precision containers are squared/averaged in single precision: tolerance follows the dtype of the samples
    ptol = 1e-5 if case["dtype"] in ("float32", "complex64") else 1e-12
    if len(res["power"]) != len(pw) or not np.all(np.abs(np.array(res["power"]) - pw) <= ptol * np.maximum(1e-300, pw)):
        v.append(("C02:power", f"power() {res['power']} != mean|signal+noise|^2 {pw.tolist()}"))
    return v


def features(case, res):
    f = ["kind=" + case["kind"], "status=" + res["status"], f"n={case['n']}" if case["n"] <= 9 else ("n-odd" if case["n"] % 2 else "n-even"),
         f"cls={case['cls']}{case['npol']}", "noise" if case["noise"] else "no-noise", "dom=" + str(case["dom"]),
         "shift" if case["shift"] else "noshift", "dtype=" + case["dtype"]]
    if case["n"] % 2 and case["shift"]:
        f.append("odd-shifted")
    if case.get("zero"):
        f.append("dark=" + case["zero"])
    f.append("shift-as=" + case.get("shiftkind", "py"))
    return f


def nontrivial_key(case, res):
    if res["status"] != "ok" or case["n"] < 2:
        return None
    return (case["kind"], case["cls"], case["npol"], case["n"], case["noise"], case["dom"], case["shift"], case["dtype"], tuple(sorted(case["gv"].items())))
