"""C17 — the eye estimator GET_EYE recovers the levels of a clean two-level signal in any unit."""
import math
import types
import warnings

import numpy as np

from harness.common.wire import enc_f, enc_flist, Toks, exc_enum
from harness.common.watchdog import time_limit, Timeout

ID = "C17"
MANIFEST = {
    "text": "Lean 4 theorems (Props/C17.lean) about the generic model of everything in GET_EYE that is deterministic around the three "
            "library calls (sg.resample, sk.KMeans, gaussian_kde: parameters spied from the run; shortest_int: C18): "
            "window_mean_bound (all samples of a window within eps of a level => |mu-level|<=eps and s<=eps, any window size >=1, "
            "and its instance for mu0,s0,mu1,s1 of the model); affine_equivariance (y -> alpha*y+beta with alpha>0, the two "
            "intervals mapped likewise, identical cluster centres and pdf-argmin: state0/1, mu0, mu1, threshold map to alpha*.+beta, "
            "s0, s1, eye_h scale by alpha, t_left, t_right, t_opt, t_dist, the window and the index i are unchanged, the error "
            "branch is preserved) together with kmeans_input_invariant (the normalised (t,y) points handed to the second KMeans are "
            "literally identical, so 'identical centres' is what a deterministic clustering returns); index_in_range (t_opt the k-th "
            "grid point with sps_r/2-1 <= k < 3 sps_r/2-1 => 0 <= i < sps); mu0 < y_center < mu1 whenever both windows are "
            "non-empty; mu0 <= threshold <= mu1; snapping returns a nearest grid point and |t_opt-(t_left+t_right)/2| <= one grid step "
            "when both crossing centres lie in the span of the grid (t_opt_midway).  Tie: the same definitions executed at Float on "
            "the spied resampled waveform / centres / intervals / pdf, compared with every field of the returned eye object, with the "
            "array handed to sg.resample and with the points handed to KMeans.",
    "note": "Accuracy (8 %, sigma/2..2 sigma+3 %, crossings one slot apart within 10 %, threshold strictly between the levels, t_opt "
            "midway) and the equivariance of KMeans/KDE/resample themselves are statistical / library behaviour: checked by the "
            "oracle on the real code under fixed numpy seeds over the statement's ranges, never presented as proved. "
            "Axioms: propext, Classical.choice, Quot.sound.",
    "technique": "Lean 4 proof over R (list algebra, order-preservation of positive affine maps) of a generic model executed at Float "
                 "in a differential run against GET_EYE() with sklearn/scipy calls spied from outside",
    "design": "§5 C17",
}
GEN = ["Eye"]
MODELS = ["OptiVerif.Model.Eye", "OptiVerif.Model.NumList", "OptiVerif.Model.FiberNL", "OptiVerif.Gen.Eye"]
RULE = ("cases = two-level NRZ waveforms (random / PRBS7 patterns of 64..256 slots, one PRBS13 record of 8191 slots (longer than the 4096-slot window, carried as electrical_signal(signal, noise)), 4-5 % / 95-96 % mark density with >= 16 marks at sigma = 5 %, both symbols present, sps in {8,16,32}, "
        "sps_resamp=128 (a few without resampling, tie only), levels a<b with b-a log-uniform in [1e-3,100] V and offsets "
        "{0,-d/2,-3d,+2d} plus pedestals |a|/(b-a) in {30,100,1000} of both signs, noise sigma in [0.5%,5%] of b-a, Bessel LPF at 0.7..1.0 R) each run twice (a third of the even-length ones as ONE electrical_signal(signal, noise) object evaluated three times with the twin built from that object's arrays afterwards, operands monitored for modification): as is and scaled by "
        "alpha in [1e-3,1e3] (log-uniform) with an offset beta (up to 1000 swings, and 1e5..2e7 swings for a few), same numpy seed; call histories (earlier calls in the same process on grids of the same total size but other samples per slot, with and without sps_resamp); a positional twin GET_EYE(input, nslots, sps_resamp) for a quarter of the short records; two FIXED streams that do not depend on VERIF_SEED: 1 mV eyes at alpha=1000 vs alpha=0.3 with identical timing demanded, and one record swept over 150 numpy seeds; degenerate inputs (constant, single level) for "
        "the error branches.  non-trivial = both runs returned finite estimates; distinct by all parameters")
PARTIAL = ["'scaling leaves the timing outputs unchanged' is demanded EXACTLY (identical t_left, t_right, t_opt, i) on every equivariance twin: "
           "any alpha in [1e-3, 1e3] and any offset drawn from VERIF_SEED, and a fixed stream of 1 mV eyes compared at 1 V (alpha=1000) and "
           "at 0.3 mV (alpha=0.3), 200 records in quick / 900 in thorough.  (Until the fix 47f89c3 the absolute 1e-10 tie tolerance of "
           "shortest_int moved the timing by one grid step on 0.06 %..1.7 % of the records at scaled amplitudes of 0.1 mV..1 uV — found by "
           "this check, corpus/C17/tie_tolerance_small_amplitude.json; with the relative tolerance: 0 differences in 4000 record/amplitude "
           "pairs down to 1 uV.)  It remains an oracle clause: the equivariance of KMeans/KDE/resample themselves is library behaviour",
           "the clauses are demanded for every state of numpy's global RNG only on a sweep of one fixed record under 150 numpy seeds "
           "(quick) plus two records x 1000 seeds (thorough); all other cases run under one numpy seed each",
           "accuracy clauses (mu within 8 % of b-a, s in [sigma/2, 2 sigma + 3 %], mu0<threshold<mu1 strictly, t_right-t_left within "
           "10 % of 1, t_opt midway within one grid step): oracle under fixed seeds, statistical",
           "equivariance of KMeans / gaussian_kde / sg.resample themselves (library behaviour): oracle compares the scaled run "
           "with the unscaled one (levels within 1 % of b-a, timing within one resampled grid step)",
           "shortest_int is modelled by C18; here its two results are inputs spied from the run",
           "y_left / y_right (snapping of the crossing amplitude to the set of raw sample values) and er are not modelled",
           "the index uses exact integer arithmetic in the model: int(instant/sps_r*sps) in floats is the same whenever sps_r is a "
           "power of two (128 in the statement)"]
ASSUMPTIONS = ["sklearn KMeans / scipy gaussian_kde / scipy resample results are model inputs (spied)",
               "np.unique(t) is the linspace grid (strictly increasing)", "IEEE doubles on both sides (tolerance 1e-9*scale)",
               "KMeans runs single-threaded in the harness (threadpoolctl limit; same results, no oversubscription)"]
BUDGET = {"quick": 120, "thorough": 900}

R_BIT = 10e9
# fixed streams
BATCH_SEEDS = [61001, 61003]
BATCH_SEEDS_THOROUGH = [61002, 61004, 61005, 61006, 61007, 61008, 61009]
BATCH_COUNT = 100
# one record under np.random.seed(100..249) in quick (two more records x 1000 seeds in thorough).  (Chosen among 28 candidate records x 300 seeds: the failure mode of a weaker KMeans
# initialisation — a top/bottom instead of a left/right split of the crossing points — needs about one numpy seed in 6000 on
# records of this generator, so a sweep drawn afresh on every run would not show it reliably within the quick budget.)
SWEEP_RECORDS = [{"sps": 32, "nsl": 126, "pattern": "random", "a": 0.0, "d": 0.01810991817099998, "sigma": 0.005, "bwf": 0.8,
                  "seed": 340124608, "seed0": 100, "nseeds": 150}]
SWEEP_RECORDS_THOROUGH = [{"sps": 32, "nsl": 127, "pattern": "random", "a": -0.35, "d": 0.7, "sigma": 0.02, "bwf": 0.75, "seed": 1634154402,
                           "seed0": 0, "nseeds": 1000},
                          {"sps": 8, "nsl": 64, "pattern": "prbs", "a": 0.0, "d": 1.0, "sigma": 0.03, "bwf": 0.85, "seed": 77, "seed0": 1000, "nseeds": 1000}]


def gen_cases(rng, tier):
    cases = []
    nrep = 100 if tier == "quick" else 1200
    for i in range(nrep):
        sps = [8, 16, 32][i % 3]
        d = 10 ** rng.uniform(-3, 2)
        a = rng.choice([0.0, -d / 2, -3 * d, 2 * d, d * rng.uniform(-5, 5)])
        alpha = 10 ** rng.uniform(-3, 3)
        cases.append({"kind": "eye", "sps": sps, "nsl": rng.choice([64, 64, 100, 128, 200, 256]) + rng.choice([0, 0, 1, 3]),
                      "pattern": rng.choice(["random", "prbs"]), "a": a, "d": d, "sigma": rng.uniform(0.005, 0.05),
                      "bwf": rng.uniform(0.7, 1.0), "alpha": alpha, "beta": rng.choice([0.0, rng.uniform(-3, 3) * d * alpha]),
                      "spsr": 128, "seed": rng.getrandbits(31)})
    # the extreme corners of the statement's ranges
    for d, alpha in ((1e-3, 1e3), (1e-3, 1e-3), (100.0, 1e3), (100.0, 1e-3)):
        for sps in (8, 32):
            cases.append({"kind": "eye", "sps": sps, "nsl": 64, "pattern": "prbs", "a": -d / 2, "d": d, "sigma": rng.choice([0.005, 0.05]),
                          "bwf": rng.choice([0.7, 1.0]), "alpha": alpha, "beta": 0.0, "spsr": 128, "seed": rng.getrandbits(31)})
    # large pedestals relative to the swing (a 1 mV eye on a 1 V offset, 0.1 V on a 30 V rail, levels 10000/10100): the statement
    # quantifies over level pairs anywhere and over ANY offset beta
    peds = [(r, sg) for r in (30, 100, 1000) for sg in (1, -1)]
    for j, (ratio, sign) in enumerate(peds * (1 if tier == "quick" else 6)):
        d = [1e-3, 0.1, 100.0][j % 3] if tier == "quick" else 10 ** rng.uniform(-3, 2)
        alpha = 10 ** rng.uniform(-3, 3)
        cases.append({"kind": "eye", "sps": [8, 16, 32][(j // 2) % 3], "nsl": rng.choice([64, 100, 128]), "pattern": rng.choice(["random", "prbs"]),
                      "a": sign * ratio * d, "d": d, "sigma": rng.uniform(0.005, 0.05), "bwf": rng.uniform(0.7, 1.0), "alpha": alpha,
                      "beta": rng.choice([-1, 1]) * rng.choice([30, 100, 1000]) * d * alpha, "spsr": 128, "seed": rng.getrandbits(31)})
    # ordinary level pairs whose scaled twin gets a large offset
    for ratio in (30, -100, 1000):
        d = 10 ** rng.uniform(-3, 2)
        alpha = 10 ** rng.uniform(-3, 3)
        cases.append({"kind": "eye", "sps": rng.choice([8, 16, 32]), "nsl": 64, "pattern": "prbs", "a": 0.0, "d": d, "sigma": rng.uniform(0.005, 0.05),
                      "bwf": rng.uniform(0.7, 1.0), "alpha": alpha, "beta": ratio * d * alpha, "spsr": 128, "seed": rng.getrandbits(31)})
    # a small eye on a very large DC level: "offsetting it by ANY beta" (the spreads must survive |beta|/sigma ~ 1e7..1e9)
    for ratio in ([1e5, -1e6, 2e7] if tier == "quick" else [1e5, -1e5, 1e6, -1e6, 2e7, -2e7] * 3):
        d = rng.choice([1e-3, 1e-3, 10 ** rng.uniform(-3, 0)])
        alpha = 10 ** rng.uniform(-3, 3)
        cases.append({"kind": "eye", "sps": rng.choice([8, 16, 32]), "nsl": 64, "pattern": rng.choice(["random", "prbs"]), "a": rng.choice([0.0, -d / 2]),
                      "d": d, "sigma": rng.uniform(0.005, 0.05), "bwf": rng.uniform(0.7, 1.0), "alpha": alpha, "beta": ratio * d * alpha,
                      "spsr": 128, "seed": rng.getrandbits(31)})
    # records longer than the default 4096-slot window and not a multiple of it (PRBS13 = 8191 slots; 6001 random slots)
    longrec = [(8, 8191, "prbs13")] if tier == "quick" else [(8, 8191, "prbs13"), (8, 6001, "random"), (16, 5000, "random"), (8, 4097, "random")]
    # low mark density (4-5 % ones) and its mirror image at the top of the noise range: the record mean then lies within the
    # noise of the majority level.  At least 16 marks: with fewer the central windows hold too few independent samples for
    # the statement's spread band (sigma/2 lower bound) to be a fair demand on ANY estimator (see the report on sparse patterns)
    sparse = [("sparse", 400, 20), ("dense", 400, 16), ("sparse", 512, 24), ("dense", 400, 20)]
    for j, (pat, nsl, marks) in enumerate(sparse * (1 if tier == "quick" else 5)):
        d = 10 ** rng.uniform(-3, 2)
        cases.append({"kind": "eye", "sps": [8, 16, 32][j % 3], "nsl": nsl, "pattern": pat, "marks": marks, "a": rng.choice([0.0, -d / 2, 2 * d]),
                      "d": d, "sigma": 0.05, "bwf": rng.uniform(0.7, 1.0), "alpha": 10 ** rng.uniform(-3, 3), "beta": 0.0, "spsr": 128,
                      "seed": rng.getrandbits(31)})
    for sps, nsl, pat in longrec:
        d = 10 ** rng.uniform(-3, 2)
        cases.append({"kind": "eye", "sps": sps, "nsl": nsl, "pattern": pat, "split": pat == "prbs13", "a": rng.choice([0.0, -d / 2, 2 * d]), "d": d,
                      "sigma": rng.uniform(0.01, 0.04), "bwf": rng.uniform(0.7, 1.0), "alpha": 10 ** rng.uniform(-3, 3), "beta": 0.0,
                      "spsr": 128, "seed": rng.getrandbits(31)})
    # call histories: grids of the same total size, different samples per slot (8192 = 256 slots x 32 = 64 slots x 128 = 128 x 64 ...)
    # (the main record gets an even slot count no other case uses, so that ITS grid size is met for the first time by the earlier
    # call of its own history: nsl*128 samples = (nsl*128/sps) slots without resampling = 2*nsl slots at 64 = nsl/2 slots at 256)
    hist = []
    pool = [72, 80, 88, 96, 104, 112, 120, 144, 160]
    rng.shuffle(pool)
    for j, nsl in enumerate(pool[:4] if tier == "quick" else pool):
        sps = [32, 16, 8, 32][j % 4]
        pre = [[{"nsl": nsl * 128 // sps, "spsr": None}], [{"nsl": 2 * nsl, "spsr": 64}], [{"nsl": nsl // 2, "spsr": 256}, {"nsl": nsl * 128 // sps, "spsr": None}],
               [{"nsl": nsl * 128 // sps, "spsr": None}]][j % 4]
        hist.append((sps, nsl, pre))
    for sps, nsl, pre in hist:
        d = 10 ** rng.uniform(-3, 2)
        cases.append({"kind": "eye", "sps": sps, "nsl": nsl, "pattern": rng.choice(["random", "prbs"]), "a": rng.choice([0.0, -d / 2, 2 * d]), "d": d,
                      "sigma": rng.uniform(0.01, 0.05), "bwf": rng.uniform(0.7, 1.0), "alpha": 10 ** rng.uniform(-3, 3), "beta": 0.0,
                      "spsr": 128, "seed": rng.getrandbits(31), "prelude": pre, "split": False})
    # no resampling / other resampling factors: correspondence only (outside the statement's quantifier)
    for spsr in (None, None, 64, 256):
        cases.append({"kind": "eye", "sps": rng.choice([8, 16, 32]), "nsl": 96, "pattern": "random", "a": 0.0, "d": 1.0, "sigma": 0.02,
                      "bwf": 0.8, "alpha": 3.0, "beta": 0.5, "spsr": spsr, "seed": rng.getrandbits(31), "tie_only": True})
    # degenerate inputs: the error branches (ValueError of the second fit -> defaults; empty windows)
    cases.append({"kind": "eye", "sps": 8, "nsl": 64, "pattern": "square", "a": 0.0, "d": 1.0, "sigma": 0.0, "bwf": None, "alpha": 2.0,
                  "beta": 1.0, "spsr": None, "seed": 5, "tie_only": True})
    cases.append({"kind": "eye", "sps": 16, "nsl": 64, "pattern": "square", "a": 0.0, "d": 1.0, "sigma": 0.0, "bwf": None, "alpha": 2.0,
                  "beta": 1.0, "spsr": 128, "seed": 6, "tie_only": True})
    rng.shuffle(cases)
    # --- fixed streams (NOT derived from VERIF_SEED; validated record by record on the unchanged tree, see PARTIAL) ---
    # (a) 1 mV eyes compared at 1 V (alpha = 1000) and at 0.3 mV (alpha = 0.3): the timing outputs must be IDENTICAL
    for bseed in (BATCH_SEEDS if tier == "quick" else BATCH_SEEDS + BATCH_SEEDS_THOROUGH):
        cases.append({"kind": "batch", "sps": 8, "bseed": bseed, "count": BATCH_COUNT, "d": 1e-3, "alphas": [1000.0, 0.3], "spsr": 128})
    # (b) one cheap record evaluated under many states of numpy's global RNG (the clustering draws from it)
    for rec in (SWEEP_RECORDS if tier == "quick" else SWEEP_RECORDS + SWEEP_RECORDS_THOROUGH):
        cases.append(dict(rec, kind="sweep", spsr=128, alpha=1.0, beta=0.0))
    return cases


def _bits(case, r):
    n = case["nsl"]
    if case["pattern"] == "prbs":
        # PRBS7 (x^7+x^6+1), the generator of the statement; built here to stay independent of devices.PRBS
        st = [1, 0, 1, 1, 0, 0, 1]
        out = []
        for _ in range(n):
            nb = st[6] ^ st[5]
            out.append(st[6])
            st = [nb] + st[:6]
        bits = np.array(out)
    elif case["pattern"] == "prbs13":
        st = [1] + [0] * 12          # x^13 + x^12 + x^2 + x + 1, period 8191
        out = []
        for _ in range(n):
            nb = st[12] ^ st[11] ^ st[1] ^ st[0]
            out.append(st[12])
            st = [nb] + st[:12]
        bits = np.array(out)
    elif case["pattern"] in ("sparse", "dense"):
        # low mark density (few ones) / its mirror image (few zeros): `k` marks at random places
        k = max(1, int(case["marks"]))
        bits = np.zeros(n, dtype=int)
        bits[r.choice(np.arange(2, n), size=min(k, n - 2), replace=False)] = 1
        if case["pattern"] == "dense":
            bits = 1 - bits
        bits[0], bits[1] = (0, 1)
        return bits
    elif case["pattern"] == "square":
        bits = np.arange(n) % 2
    else:
        bits = r.integers(0, 2, n)
    bits[0], bits[1] = 0, 1
    return bits


def _waveform(case, dev, parts=False):
    from opticomlib.typing import electrical_signal
    r = np.random.default_rng(case["seed"])
    w = np.repeat(_bits(case, r), case["sps"]).astype(float)
    if case["bwf"]:
        w = dev.LPF(electrical_signal(w), BW=case["bwf"] * R_BIT).signal.real
    x = case["a"] + case["d"] * w
    nz = r.normal(0.0, case["sigma"] * case["d"], x.size) if case["sigma"] else np.zeros(x.size)
    if parts:
        return np.asarray(x, dtype=float), np.asarray(nz, dtype=float)
    if case["sigma"]:
        x = x + nz
    return np.asarray(x, dtype=float)


def _is_split(case):
    """the waveform is handed over as ONE electrical_signal(signal, noise) object with a separate noise record, evaluated three
    times, and the scaled twin is built from that object's arrays after the first evaluation (even slot count, record not
    longer than the window: nothing has to be cut).  Chosen from the case's own seed."""
    if "split" in case:
        return bool(case["split"])
    return bool(case["sigma"]) and case["nsl"] % 2 == 0 and case["nsl"] <= 4096 and case["seed"] % 3 == 0 and not case.get("tie_only")


class _Spies:
    """KMeans / gaussian_kde / sg.resample / shortest_int as seen from opticomlib.devices, recorded and passed through"""

    def __init__(self, dev):
        self.dev = dev
        self.log = {"fits": [], "kde": [], "resample": [], "sint": [], "km_init": []}
        self.saved = {k: getattr(dev, k) for k in ("sk", "gaussian_kde", "sg", "shortest_int")}

    def __enter__(self):
        dev, log, real = self.dev, self.log, self.saved

        class KMeans:
            def __init__(s, *a, **k):
                log["km_init"].append({"a": list(a), "k": dict(k)})
                s._km = real["sk"].KMeans(*a, **k)

            def fit(s, X):
                rec = {"X": np.array(X, dtype=float)}
                log["fits"].append(rec)
                try:
                    s._km.fit(X)
                except ValueError:
                    rec["err"] = "ValueError"
                    raise
                rec["centres"] = np.array(s._km.cluster_centers_, dtype=float)
                return s

            @property
            def cluster_centers_(s):
                return s._km.cluster_centers_

        class KDE:
            def __init__(s, y):
                s.rec = {"n": int(np.size(y))}
                log["kde"].append(s.rec)
                s._k = real["gaussian_kde"](y)

            def evaluate(s, x):
                out = s._k.evaluate(x)
                s.rec["pdf"] = np.array(out, dtype=float)
                s.rec["x"] = np.array(x, dtype=float)
                return out

        class Sg:
            def __getattr__(s, name):
                return getattr(real["sg"], name)

            def resample(s, x, num, *a, **k):
                out = real["sg"].resample(x, num, *a, **k)
                log["resample"].append({"x": np.array(x, dtype=float), "num": int(num), "y": np.array(out, dtype=float)})
                return out

        def shortest_int(data, percent=50):
            out = real["shortest_int"](data, percent=percent)
            log["sint"].append({"n": int(np.size(data)), "percent": float(percent), "out": [float(out[0]), float(out[1])]})
            return out

        dev.sk = types.SimpleNamespace(KMeans=KMeans)
        dev.gaussian_kde = KDE
        dev.sg = Sg()
        dev.shortest_int = shortest_int
        return self

    def __exit__(self, *exc):
        for k, v in self.saved.items():
            setattr(self.dev, k, v)
        return False


FIELDS = ("mu0", "mu1", "s0", "s1", "threshold", "t_left", "t_right", "t_opt", "t_dist", "t_span0", "t_span1", "i", "eye_h")


def _fl(v):
    if v is None:
        return None
    v = float(v)
    return v if math.isfinite(v) else ("nan" if math.isnan(v) else ("inf" if v > 0 else "-inf"))


def _snap(obj):
    return (obj.signal.tobytes(), None if obj.noise is None else obj.noise.tobytes(), obj.signal.dtype.str, obj.signal.shape)


# documented positional order of GET_EYE (signature at /repo HEAD 8caea4c), recorded here — NOT read from the code under test
GET_EYE_ORDER = ["input", "nslots", "sps_resamp"]
GET_EYE_NSLOTS_DEFAULT = 4096


def _has_twin(case):
    return case["nsl"] <= 512 and case["seed"] % 4 == 0 and not _is_split(case)


def _one_run(dev, x, case, obj=None, light=False, positional=False):
    """one GET_EYE call on `obj` (default: a fresh electrical_signal(x)); `light`: keep only the returned fields"""
    from opticomlib.typing import electrical_signal
    try:
        from threadpoolctl import threadpool_limits
    except Exception:  # noqa
        from contextlib import nullcontext as threadpool_limits
    out = {"x": [] if light else [float(v) for v in x]}
    if obj is None:
        obj = electrical_signal(x)
    before = _snap(obj)
    x_before = np.array(x, copy=True)
    np.random.seed(case["seed"] % (2 ** 32))
    with _Spies(dev) as sp:
        try:
            with threadpool_limits(limits=1):
                with time_limit(60):
                    if positional:
                        args = {"input": obj, "nslots": GET_EYE_NSLOTS_DEFAULT, "sps_resamp": case["spsr"]}
                        e = dev.GET_EYE(*[args[k] for k in GET_EYE_ORDER])
                    else:
                        e = dev.GET_EYE(obj, sps_resamp=case["spsr"])
        except Timeout:
            raise
        except Exception as ex:  # noqa
            out.update(status="err", err=exc_enum(ex), detail=repr(ex)[:200])
            return out
    log = sp.log
    out["status"] = "ok"
    out["operands_unchanged"] = bool(_snap(obj) == before and np.array_equal(x_before, x))
    out["fields"] = {k: (int(getattr(e, k)) if k == "i" else _fl(getattr(e, k, None))) for k in FIELDS}
    out["i_is_int"] = isinstance(getattr(e, "i"), (int, np.integer))
    if light:
        return out
    out["ny"] = int(np.size(e.y))
    out["ymax"] = float(np.max(np.abs(e.y)))
    out["y"] = [float(v) for v in np.asarray(e.y)] if out["ny"] <= MODEL_MAX_Y else []   # not shipped to the model when huge
    out["sps"] = int(e.sps)
    out["resample"] = ([{"x": [float(v) for v in r["x"]], "num": r["num"]} for r in log["resample"]])
    out["resample_is_y"] = bool(log["resample"] and np.array_equal(log["resample"][-1]["y"], np.asarray(e.y)))
    out["km_init"] = [{"a": r["a"], "k": {k: v for k, v in r["k"].items()}} for r in log["km_init"]]
    fits = log["fits"]
    out["nfits"] = len(fits)
    if fits:
        out["fit1_is_y"] = bool(np.array_equal(fits[0]["X"].ravel(), np.asarray(e.y)))
        out["vm"] = float(np.mean(fits[0]["centres"])) if "centres" in fits[0] else None
    if len(fits) > 1:
        f2 = fits[1]
        out["ty"] = [[float(p[0]), float(p[1])] for p in f2["X"]]
        out["centres"] = [[float(c[0]), float(c[1])] for c in f2["centres"]] if "centres" in f2 else None
        out["fit2_err"] = f2.get("err")
    out["sint"] = log["sint"]
    k = log["kde"][-1] if log["kde"] else None
    out["pdf"] = [float(v) for v in k["pdf"]] if (k and "pdf" in k and np.all(np.isfinite(k["pdf"]))) else None
    out["top_int"] = [float(v) for v in e.top_int]
    out["bot_int"] = [float(v) for v in e.bot_int]
    return out


def _light(dev, x, spsr, npseed):
    """one GET_EYE call, only the returned fields are kept"""
    from opticomlib.typing import electrical_signal
    try:
        from threadpoolctl import threadpool_limits
    except Exception:  # noqa
        from contextlib import nullcontext as threadpool_limits
    np.random.seed(npseed % (2 ** 32))
    try:
        with threadpool_limits(limits=1), time_limit(30):
            e = dev.GET_EYE(electrical_signal(x), sps_resamp=spsr)
    except Timeout:
        raise
    except Exception as ex:  # noqa
        return {"status": "err", "err": exc_enum(ex), "detail": repr(ex)[:160]}
    return {"status": "ok", "fields": {k: (int(getattr(e, k)) if k == "i" else _fl(getattr(e, k, None))) for k in FIELDS},
            "i_is_int": isinstance(getattr(e, "i"), (int, np.integer))}


def _batch_records(case):
    import random as _random
    r = _random.Random(case["bseed"])
    d = case["d"]
    return [{"kind": "eye", "sps": case["sps"], "nsl": r.choice([64, 64, 80, 100]), "pattern": r.choice(["random", "prbs"]), "a": r.choice([0.0, -d / 2]),
             "d": d, "sigma": r.uniform(0.005, 0.05), "bwf": r.uniform(0.7, 1.0), "spsr": case["spsr"], "seed": r.getrandbits(31)}
            for _ in range(case["count"])]


def run_impl(case):
    from opticomlib.typing import gv
    import opticomlib.devices as dev
    res = {}
    state = np.random.get_state()
    try:
        with warnings.catch_warnings():
            warnings.simplefilter("ignore")
            gv.clean()
            gv(sps=case["sps"], R=R_BIT)
            if case["kind"] == "batch":
                recs = []
                for sub in _batch_records(case):
                    x = _waveform(sub, dev)
                    recs.append([_light(dev, al * x, case["spsr"], sub["seed"]) for al in case["alphas"]])
                res.update(status="ok", records=recs)
                return res
            if case["kind"] == "sweep":
                x = _waveform(case, dev)
                res.update(status="ok", runs=[_light(dev, x, case["spsr"], k) for k in range(case["seed0"], case["seed0"] + case["nseeds"])])
                return res
            # call history: earlier evaluations in the same process whose grids have the same TOTAL number of samples as the main
            # one but another number of samples per slot (with / without sps_resamp); they must leave no trace
            res["prelude"] = []
            for pj, pre in enumerate(case.get("prelude", [])):
                pc = dict(case, nsl=pre["nsl"], spsr=pre["spsr"], pattern="random", seed=case["seed"] + 1 + pj)
                pc.pop("prelude", None)
                out = _one_run(dev, _waveform(pc, dev), pc, light=True)
                res["prelude"].append({"status": out.get("status"), "err": out.get("err"), "detail": out.get("detail")})
            if _is_split(case):
                from opticomlib.typing import electrical_signal
                sig, nz = _waveform(case, dev, parts=True)
                obj = electrical_signal(sig, nz)
                x = sig + nz
                res["len"] = int(x.size)
                res["run1"] = _one_run(dev, x, case, obj=obj)
                # the SAME object again, twice; then the twin from the object's own arrays as they are now
                res["repeat"] = [_one_run(dev, x, case, obj=obj, light=True) for _ in range(2)]
                xo = (obj.signal + obj.noise).real
                res["run2"] = _one_run(dev, case["alpha"] * xo + case["beta"], case)
            else:
                x = _waveform(case, dev)
                res["len"] = int(x.size)
                res["run1"] = _one_run(dev, x, case)
                if _has_twin(case):
                    res["positional"] = _one_run(dev, x, case, light=True, positional=True)
                res["run2"] = _one_run(dev, case["alpha"] * x + case["beta"], case)
            res["status"] = "ok"
    except Timeout as e:
        res.update(status="timeout", detail=str(e))
    except Exception as e:  # noqa
        res.update(status="err", err=exc_enum(e), detail=repr(e)[:200])
    finally:
        np.random.set_state(state)
        try:
            gv.clean()
        except Exception:
            pass
    return res


# ------------------------------------------------------------------------------------------------ model side
def _runs(res):
    return [res[k] for k in ("run1", "run2") if res.get(k, {}).get("status") == "ok"]


def _spsr(case):
    return "none" if not case["spsr"] else str(case["spsr"])


MODEL_MAX_Y = 70000      # the list-recursive Lean model is not run on the half-million-sample eye of a >4096-slot record:
                         # there only the part before the resampling is tied; the oracle judges everything


def model_requests(case, res):
    if res.get("status") != "ok" or case["kind"] != "eye":
        return []
    reqs = []
    for run in _runs(res):
        if len(run["sint"]) != 2 or run["nfits"] < 1:
            continue
        ny = run["ny"]
        spse = case["spsr"] or case["sps"]
        nslots = ny // spse
        top, bot = run["sint"][0]["out"], run["sint"][1]["out"]
        reqs.append(f"eye.pre {len(run['x'])} {case['sps']} 4096 {enc_flist(run['x'])}")
        if ny > MODEL_MAX_Y:
            continue
        head = f"{nslots} {case['sps']} {_spsr(case)} {enc_f(top[0])} {enc_f(top[1])} {enc_f(bot[0])} {enc_f(bot[1])}"
        reqs.append(f"eye.points {head} {enc_flist(run['y'])}")
        c = run.get("centres")
        cs = "0" if not c else "1 " + " ".join(enc_f(v) for v in (c[0][0], c[0][1], c[1][0], c[1][1]))
        ps = "0" if run["pdf"] is None else "1 " + enc_flist(run["pdf"])
        reqs.append(f"eye.post {head} {cs} {ps} {enc_flist(run['y'])}")
    return reqs


def _num(v):
    return float("nan") if v in ("nan",) else float("inf") if v == "inf" else float("-inf") if v == "-inf" else v


def compare(case, res, reqs, replies):
    if not reqs or case["kind"] != "eye":
        return []
    out = []
    it = iter(replies)
    for which, run in zip(("run1", "run2"), _runs(res)):
        if len(run["sint"]) != 2 or run["nfits"] < 1:
            continue
        tag = f"{which}: "
        y = run["y"]
        ny = run["ny"]
        scale = max(1e-300, run["ymax"])
        spse = case["spsr"] or case["sps"]
        # before the resampling
        rep = next(it)
        if not rep.startswith("ok "):
            out.append(tag + "eye.pre " + rep[:60])
        else:
            t = Toks(rep[3:])
            ns = t.nat()
            rolled = t.flist()
            if case["spsr"]:
                rs = run["resample"]
                if len(rs) != 1:
                    out.append(tag + f"sg.resample called {len(rs)} times")
                else:
                    if rs[0]["num"] != ns * case["spsr"]:
                        out.append(tag + f"resample to {rs[0]['num']} samples, model nslots*sps_r = {ns * case['spsr']}")
                    if rolled != rs[0]["x"]:
                        out.append(tag + "array handed to sg.resample differs from the model's truncated+rolled input")
                    if not run["resample_is_y"]:
                        out.append(tag + "eye.y is not the resampled array")
            else:
                if rolled != y:
                    out.append(tag + "eye.y differs from the model's truncated+rolled input")
            if ns * spse != ny:
                out.append(tag + f"len(y) = {ny} but nslots*sps = {ns * spse}")
        if not run.get("fit1_is_y", True):
            out.append(tag + "first KMeans fit is not on the waveform")
        if ny > MODEL_MAX_Y:
            continue
        for ki in run["km_init"]:
            if ki["k"].get("n_clusters") != 2:
                out.append(tag + f"KMeans built with {ki}")
        # the points handed to the second KMeans
        rep = next(it)
        if not rep.startswith("ok "):
            out.append(tag + "eye.points " + rep[:60])
        elif "ty" in run:
            t = Toks(rep[3:])
            t.f()
            t.f()
            m = t.nat()
            pts = [(t.f(), t.f()) for _ in range(m)]
            if len(pts) != len(run["ty"]):
                out.append(tag + f"KMeans input has {len(run['ty'])} points, model {len(pts)}")
            else:
                for j, ((mt, my), (it_, iy)) in enumerate(zip(pts, run["ty"])):
                    if mt != it_ or not (abs(my - iy) <= 1e-9):
                        out.append(tag + f"KMeans input point {j}: model {(mt, my)!r} impl {(it_, iy)!r}")
                        break
        # everything after
        rep = next(it)
        f = {k: _num(v) for k, v in run["fields"].items()}
        if rep.startswith("err "):
            if not (isinstance(f["mu0"], float) and isinstance(f["mu1"], float) and (math.isnan(f["mu0"]) or math.isnan(f["mu1"]))):
                out.append(tag + f"model {rep}, implementation returned mu0={f['mu0']} mu1={f['mu1']}")
            continue
        if not rep.startswith("ok "):
            out.append(tag + "eye.post " + rep[:60])
            continue
        tk = rep[3:].split()
        names = ["state0", "state1", "t_left", "t_right", "t_opt", "t_dist", "t_span0", "t_span1", "i", "mu0", "mu1", "s0", "s1",
                 "threshold", "eye_h", "y_left_raw", "y_right_raw"]
        m = {}
        for nm, tok in zip(names, tk):
            m[nm] = None if tok == "none" else (int(tok) if nm == "i" else Toks(tok).f())
        if not (abs(m["state1"] - sum(run["top_int"]) / 2) <= 1e-12 * scale and abs(m["state0"] - sum(run["bot_int"]) / 2) <= 1e-12 * scale):
            out.append(tag + "levels state_0/state_1 differ")
        if run["top_int"] != run["sint"][0]["out"] or run["bot_int"] != run["sint"][1]["out"]:
            out.append(tag + "top_int/bot_int are not the two shortest_int results in order")
        for nm in ("t_left", "t_right", "t_opt", "t_dist", "t_span0", "t_span1"):
            if not abs(m[nm] - f[nm]) <= 1e-12:
                out.append(tag + f"{nm}: model {m[nm]!r} impl {f[nm]!r}")
        if m["i"] != f["i"]:
            out.append(tag + f"i: model {m['i']} impl {f['i']}")
        swing = abs(m["state1"] - m["state0"])
        for nm in ("mu0", "mu1", "s0", "s1", "eye_h"):
            # means: summation order (n*eps*scale); spreads are computed from deviations, so they are tied relative to the swing
            tol = 1e-9 * scale if nm in ("mu0", "mu1") else 1e-9 * swing + 1e-12 * scale
            if not abs(m[nm] - f[nm]) <= tol:
                out.append(tag + f"{nm}: model {m[nm]!r} impl {f[nm]!r}")
        if (m["threshold"] is None) != (f["threshold"] is None):
            out.append(tag + f"threshold: model {m['threshold']!r} impl {f['threshold']!r}")
        elif m["threshold"] is not None and not abs(m["threshold"] - f["threshold"]) <= 1e-9 * scale:
            out.append(tag + f"threshold: model {m['threshold']!r} impl {f['threshold']!r}")
    return out


# ------------------------------------------------------------------------------------------------ the property, stated directly
def _same(a, b, tol):
    if a is None or b is None:
        return a is None and b is None
    if isinstance(a, float) and math.isnan(a) or isinstance(b, float) and math.isnan(b):
        return False
    return abs(a - b) <= tol


def _neff(case):
    try:
        _b = np.asarray(_bits(case, np.random.default_rng(case["seed"])))[:4096]
        _per = max(1.0, case["sps"] / 10.0)
        return {"s0": float(np.sum(_b == 0)) * _per, "s1": float(np.sum(_b == 1)) * _per}
    except Exception:  # noqa  (patterns without a bit list, e.g. the directed square wave)
        return {"s0": 1e9, "s1": 1e9}


def _accuracy(which, run, case, sc, of, neff, tag):
    """the absolute clauses of the statement on ONE returned eye (levels a, b of `case` scaled by sc and offset by of);
    returns (violations, fields or None)"""
    v = []
    a, d = case["a"], case["d"]
    b = a + d
    sg_ = case["sigma"] * d
    if run.get("status") != "ok":
        v.append((f"C17:raises", f"{which}: GET_EYE raised {run.get('err')} {run.get('detail')} {tag}"))
        return v, None
    f = {k: _num(x) for k, x in run["fields"].items()}
    bad = [k for k in FIELDS if f[k] is None or (isinstance(f[k], float) and not math.isfinite(f[k]))]
    if bad:
        v.append(("C17:non-finite", f"{which}: {bad} not finite {tag}"))
        return v, None
    A, B, D, S = sc * a + of, sc * b + of, sc * d, sc * sg_
    if not (abs(f["mu0"] - A) <= 0.08 * D):
        v.append(("C17:mu0", f"{which}: mu0={f['mu0']:.6g}, level a={A:.6g}, error {abs(f['mu0'] - A) / D:.3f} of b-a {tag}"))
    if not (abs(f["mu1"] - B) <= 0.08 * D):
        v.append(("C17:mu1", f"{which}: mu1={f['mu1']:.6g}, level b={B:.6g}, error {abs(f['mu1'] - B) / D:.3f} of b-a {tag}"))
    for nm in ("s0", "s1"):
        # The band is a demand on an ESTIMATE from a finite record.  The central 10 % window of a level holds about
        # n_eff = (slots at that level) * max(1, sps/10) independent noise samples (the up-sampled points in between are
        # interpolated, not independent); a sample standard deviation of n_eff Gaussian samples has the relative
        # standard error 1/sqrt(2 (n_eff - 1)).  For the shortest records of the quantifier (64 slots at sps 8:
        # n_eff ~ 20..30) ANY estimator dips below sigma/2 about once in 3000 records (seen on the unchanged tree, seed 49
        # of a sweep: 0.476 sigma).  The lower bound is therefore widened by 4 standard errors: < 15 % for >= 256 slots at
        # sps >= 16, and it still rejects a spread that is wrong by a factor.
        lo = (S / 2) * max(0.0, 1.0 - 4.0 / math.sqrt(2.0 * max(neff[nm] - 1.0, 1.0)))
        if not (lo <= f[nm] <= 2 * S + 0.03 * D):
            v.append((f"C17:{nm}", f"{which}: {nm}/(b-a)={f[nm] / D:.4f} outside [sigma/2 (-4 standard errors for n_eff={neff[nm]:.0f}: {lo / D:.4f}), 2 sigma+3%], sigma={case['sigma']:.4f} {tag}"))
    if not (f["mu0"] < f["threshold"] < f["mu1"]):
        v.append(("C17:threshold", f"{which}: threshold {f['threshold']:.6g} not strictly between mu0 {f['mu0']:.6g} and mu1 {f['mu1']:.6g} {tag}"))
    if not (abs(f["t_right"] - f["t_left"] - 1) <= 0.1):
        v.append(("C17:crossings", f"{which}: t_right-t_left = {f['t_right'] - f['t_left']:.4f} {tag}"))
    if not (abs(f["t_opt"] - (f["t_left"] + f["t_right"]) / 2) <= 1.0 / case["spsr"] + 1e-12):
        v.append(("C17:t_opt", f"{which}: t_opt {f['t_opt']} not midway between {f['t_left']} and {f['t_right']} {tag}"))
    if not (run["i_is_int"] and 0 <= f["i"] < case["sps"]):
        v.append(("C17:index", f"{which}: i={f['i']} outside [0,{case['sps']}) {tag}"))
    return v, f


TIMING = ("t_left", "t_right", "t_opt", "i")


def _oracle_batch(case, res):
    v = []
    for sub, runs in zip(_batch_records(case), res["records"]):
        tag = (f"(fixed stream {case['bseed']}: sps={sub['sps']}, nsl={sub['nsl']}, {sub['pattern']}, a={sub['a']:.4g}, b-a={sub['d']:.4g}, "
               f"sigma={sub['sigma']:.4f}, bw={sub['bwf']:.3f}R, seed={sub['seed']}, alphas={case['alphas']})")
        neff = _neff(sub)
        fs = []
        for al, run in zip(case["alphas"], runs):
            vv, f = _accuracy(f"alpha={al:g}", run, sub, al, 0.0, neff, tag)
            v += vv
            fs.append(f)
        if all(f is not None for f in fs):
            f1, f2 = fs[0], fs[-1]
            a1, a2 = case["alphas"][0], case["alphas"][-1]
            diff = [k for k in TIMING if f1[k] != f2[k]]
            if diff:
                v.append(("C17:equivariance-timing", f"timing outputs {diff} differ between the waveform scaled by {a1:g} ({[f1[k] for k in diff]}) and by "
                                                     f"{a2:g} ({[f2[k] for k in diff]}): scaling must leave them unchanged {tag}"))
            for nm in ("mu0", "mu1", "s0", "s1"):
                if not (abs(f2[nm] / a2 - f1[nm] / a1) <= 0.01 * sub["d"]):
                    v.append(("C17:equivariance-level" if nm[0] == "m" else "C17:equivariance-spread",
                              f"{nm}: {f1[nm] / a1:.6g} (alpha={a1:g}) vs {f2[nm] / a2:.6g} (alpha={a2:g}) in the units of the original {tag}"))
    return v


def _oracle_sweep(case, res):
    v = []
    neff = _neff(case)
    for k, run in enumerate(res["runs"]):
        tag = (f"(np.random.seed({case['seed0'] + k}); sps={case['sps']}, nsl={case['nsl']}, {case['pattern']}, a={case['a']:.4g}, b-a={case['d']:.4g}, "
               f"sigma={case['sigma']:.3f}, bw={case['bwf']:.2f}R, seed={case['seed']})")
        vv, _ = _accuracy("run", run, case, 1.0, 0.0, neff, tag)
        v += vv
        if len(v) >= 5:
            break
    return v


def oracle(case, res):
    if res.get("status") == "timeout":
        return [("C17:timeout", "GET_EYE did not return")]
    if res.get("status") != "ok":
        return [("C17:raises", f"{res.get('err')} {res.get('detail')}")]
    if case.get("tie_only"):
        return []
    if case["kind"] == "batch":
        return _oracle_batch(case, res)
    if case["kind"] == "sweep":
        return _oracle_sweep(case, res)
    v = []
    a, d = case["a"], case["d"]
    b = a + d
    sg_ = case["sigma"] * d
    al, be = case["alpha"], case["beta"]
    tag = (f"(sps={case['sps']}, nsl={case['nsl']}, {case['pattern']}, a={a:.4g}, b-a={d:.4g}, sigma={case['sigma']:.3f}, bw={case['bwf']:.2f}R, "
           f"alpha={al:.3g}, beta={be:.3g}, seed={case['seed']})")
    neff = _neff(case)
    runs = []
    for which, sc, of in (("run1", 1.0, 0.0), ("run2", al, be)):
        vv, f = _accuracy(which, res[which], case, sc, of, neff, tag)
        v += vv
        if f is not None:
            runs.append(f)
    for j, pre in enumerate(res.get("prelude", [])):
        if pre.get("status") != "ok":
            v.append(("C17:raises", f"earlier call {j} of the history ({case['prelude'][j]}) raised {pre.get('err')} {pre.get('detail')} {tag}"))
    pt = res.get("positional")
    if pt is not None and res["run1"].get("status") == "ok":
        f1 = {k: _num(x) for k, x in res["run1"]["fields"].items()}
        fp = {k: _num(x) for k, x in pt["fields"].items()} if pt.get("status") == "ok" else None
        if fp is None or any(not _same(f1[k], fp[k], 0.0) for k in FIELDS):
            v.append(("C17:positional:GET_EYE", f"GET_EYE(input, {GET_EYE_NSLOTS_DEFAULT}, {case['spsr']}) with the arguments passed positionally in the "
                                               f"documented order {GET_EYE_ORDER} differs from the keyword call: {pt.get('err') or [k for k in FIELDS if not _same(f1[k], fp[k], 0.0)]} {tag}"))
    for which in ["run1", "run2"] + [f"repeat[{j}]" for j in range(len(res.get("repeat", [])))]:
        run = res["repeat"][int(which[7])] if which.startswith("repeat") else res[which]
        if run.get("status") == "ok" and not run["operands_unchanged"]:
            v.append(("C17:input-modified", f"{which}: GET_EYE modified the electrical_signal it was given (.signal/.noise bytes differ) {tag}"))
    if res.get("repeat") and res["run1"].get("status") == "ok":
        f1 = {k: _num(x) for k, x in res["run1"]["fields"].items()}
        for j, rp in enumerate(res["repeat"]):
            if rp.get("status") != "ok":
                v.append(("C17:raises", f"evaluation {j + 2} of the same object raised {rp.get('err')} {rp.get('detail')} {tag}"))
                continue
            fj = {k: _num(x) for k, x in rp["fields"].items()}
            diff = [k for k in FIELDS if not _same(f1[k], fj[k], 1e-9 * d if k not in ("t_left", "t_right", "t_opt", "t_dist", "t_span0", "t_span1", "i") else 0.0)]
            if diff:
                k0 = diff[0]
                v.append(("C17:repeat", f"evaluation {j + 2} of the SAME electrical_signal(signal, noise) object (same numpy seed) returned different "
                                        f"estimates: {k0} {f1[k0]!r} -> {fj[k0]!r} (also {diff[1:4]}) {tag}"))
                break
    if len(runs) == 2:
        f1, f2 = runs
        for nm in ("mu0", "mu1"):
            if not (abs(f2[nm] - (al * f1[nm] + be)) <= 0.01 * al * d):
                v.append(("C17:equivariance-level", f"{nm}: scaled run {f2[nm]:.6g} vs alpha*{nm}+beta = {al * f1[nm] + be:.6g} {tag}"))
        for nm in ("s0", "s1"):
            if not (abs(f2[nm] - al * f1[nm]) <= 0.01 * al * d):
                v.append(("C17:equivariance-spread", f"{nm}: scaled run {f2[nm]:.6g} vs alpha*{nm} = {al * f1[nm]:.6g} {tag}"))
        for nm in ("t_left", "t_right", "t_opt"):
            if not (f2[nm] == f1[nm]):
                v.append(("C17:equivariance-timing", f"{nm}: {f1[nm]} became {f2[nm]} after scaling (the timing outputs must be unchanged) {tag}"))
        if not (f2["i"] == f1["i"]):
            v.append(("C17:equivariance-index", f"i: {f1['i']} became {f2['i']} after scaling {tag}"))
    return v


def features(case, res):
    if case["kind"] == "batch":
        return ["kind=batch", "status=" + str(res.get("status")), f"batch-records={case['count']}"]
    if case["kind"] == "sweep":
        return ["kind=sweep", "status=" + str(res.get("status")), f"sweep-seeds={case['nseeds']}"]
    f = ["status=" + str(res.get("status")), f"sps={case['sps']}", "pattern=" + case["pattern"], f"spsr={case['spsr']}",
         "d<1e-2" if case["d"] < 1e-2 else "d<1" if case["d"] < 1 else "d<10" if case["d"] < 10 else "d>=10",
         "alpha<1e-1" if case["alpha"] < 0.1 else "alpha<10" if case["alpha"] < 10 else "alpha>=10",
         "offset<0" if case["a"] < 0 else "offset>=0", "pedestal>=30x" if max(abs(case["a"]), abs(case["beta"]) / case["alpha"]) >= 29.9 * case["d"] else "pedestal<30x", "sigma<2%" if case["sigma"] < 0.02 else "sigma>=2%",
         "odd-tail" if (case["nsl"] % 2) else "even", "object(signal,noise)x3" if _is_split(case) else "fresh-object",
         "history" if case.get("prelude") else "no-history", "positional-twin" if res.get("positional") else "no-twin"]
    for k in ("run1", "run2"):
        r = res.get(k, {})
        if r.get("status") == "ok":
            f.append(f"{k}:fit2=" + ("ValueError" if r.get("fit2_err") else "ok" if r.get("centres") else "missing"))
            f.append(f"{k}:kde=" + ("ok" if r.get("pdf") else "none"))
        else:
            f.append(f"{k}:" + str(r.get("status")))
    return f


def nontrivial_key(case, res):
    if case["kind"] == "batch":
        return ("batch", case["bseed"]) if res.get("status") == "ok" else None
    if case["kind"] == "sweep":
        return ("sweep", case["seed"], case["seed0"]) if res.get("status") == "ok" else None
    if res.get("status") != "ok" or len(_runs(res)) != 2:
        return None
    for r in _runs(res):
        if any(r["fields"][k] in (None, "nan", "inf", "-inf") for k in ("mu0", "mu1", "s0", "s1")):
            return None
    return (case["sps"], case["nsl"], case["pattern"], case["a"], case["d"], case["sigma"], case["bwf"], case["alpha"], case["beta"], case["seed"])
