"""C08 — nonlinear FIBER conserves energy up to loss and converges to the NLSE solution."""
import warnings

import numpy as np

from harness.common.wire import enc_clist, enc_f, Toks, exc_enum
from harness.common.watchdog import time_limit, Timeout

ID = "C08"
MANIFEST = {
    "text": "Lean 4 theorems (Props/C08.lean) about the generic model of FIBER (closed-form SPM branch, adaptive symmetric split-step "
            "loop with the code's step rule, first-step clamp, final partial step): for EVERY step schedule the loop can produce "
            "the energy of each polarisation is exp(-alpha' L) times the input energy, the steps sum to L, the dispersionless "
            "branch is out = in*exp(-alpha' L/2)*exp(j*gamma*|in|^2*L_eff) with L_eff=(1-exp(-alpha' L))/alpha' (L for alpha'=0), a "
            "one-polarisation input propagates exactly like the x-polarisation of the two-polarisation signal with empty y, and "
            "the loop terminates within a fuel bound computed from L, gamma, phi_max and the input energy; for gamma = 0 the model is "
            "proved to coincide with C07's linear fibre (one step of the whole length).  Tie: the same "
            "definitions executed at Float (the model computes its own adaptive schedule) against FIBER(): final field and "
            "number of steps.",
    "note": "Convergence to the NLSE as phi_max->0 (first order) is NOT a theorem: it is checked by the oracle against an independent "
            "fixed-step reference (thorough tier). numpy FFT trusted to be the DFT; proofs over R/C. 4.343 vs 10/ln10 handled by "
            "tolerance as in C07. Axioms: propext, Classical.choice, Quot.sound.",
    "technique": "Lean 4 proof (induction over the adaptive-step loop with fuel; Parseval) of a generic model executed at Float in a differential run against FIBER()",
    "design": "§5 C08",
}
GEN = ["FiberConst"]
MODELS = ["OptiVerif.Model.FiberNL", "OptiVerif.Model.Fiber", "OptiVerif.Model.Fourier", "OptiVerif.Gen.FiberConst"]
RULE = ("cases = pulse trains / random fields (zero leading samples included), 1 or 2 polarisations, N in {32..160} even and odd, alpha in [0,0.5] "
        "dB/km, beta2 in [-25,25], beta3 in [-0.2,0.2], gamma in [0,5], gamma*P*L<=10 rad, phi_max in [5e-4,0.1]; non-trivial = "
        "gamma>0 and at least 2 steps or the SPM branch; distinct by all parameters")
PARTIAL = ["convergence to the NLSE solution with error O(phi_max): oracle against an independent fixed-step reference (thorough tier)",
           "numpy FFT = DFT is trusted; rounding is not covered by the theorems"]
ASSUMPTIONS = ["numpy.fft = DFT", "IEEE doubles on both sides; a one-ulp difference in the adaptive step only perturbs the field by O(1e-15)"]
BUDGET = {"quick": 150, "thorough": 900}


def _field(case):
    r = np.random.default_rng(case["seed"])
    n = case["n"]
    P = case["P"]
    if case["shape"] == "random":
        a = r.normal(size=n) + 1j * r.normal(size=n)
    elif case["shape"] == "pulses":
        t = np.arange(n)
        a = np.zeros(n, complex)
        for c in range(n // 16, n, max(8, n // 4)):
            a += np.exp(-((t - c) / (n / 32 + 1)) ** 2 / 2) * np.exp(1j * r.uniform(0, 6.28))
    else:  # 'nrz'
        bits = r.integers(0, 2, size=max(1, n // 8))
        bits[r.integers(0, bits.size)] = 1
        a = np.repeat(bits, 8)[:n].astype(complex)
        a = np.pad(a, (0, n - a.size))
    a = a / np.sqrt(np.max(np.abs(a) ** 2)) * np.sqrt(P)
    if case["lead0"]:
        a[: case["lead0"]] = 0
    if case["npol"] == 2:
        b = (r.normal(size=n) + 1j * r.normal(size=n))
        b = b / np.sqrt(np.max(np.abs(b) ** 2)) * np.sqrt(P * case["ypow"])
        if case["lead0"]:
            b[: case["lead0"]] = 0
        tot = np.max(np.abs(a) ** 2 + np.abs(b) ** 2)
        k = np.sqrt(P / tot) if tot > 0 else 1.0
        return np.array([a * k, b * k])
    return a


def gen_cases(rng, tier):
    cases = []
    nrep = 25 if tier == "quick" else 60
    for i in range(nrep):
        for npol in (1, 2):
            # odd lengths too: the FFT-ordered frequency grid has no Nyquist bin there (fftshift/ifftshift differ)
            n = rng.choice([32, 33, 48, 63, 64, 95, 96, 128] if tier == "quick" else [32, 33, 64, 100, 101, 127, 128, 160])
            sps, R = rng.choice([(16, 10e9), (8, 10e9), (16, 40e9)])
            # the grid may also be configured through fs (non-integer fs/R included): the dispersion operator lives on gv.fs
            g = rng.choice([None, None, None, {"R": 10e9, "fs": 125e9}, {"R": 28e9, "fs": 150e9}, {"fs": 96.5e9}, {"sps": 8, "fs": 200e9}])
            L = rng.uniform(1, 100)
            gamma = rng.choice([0.0, rng.uniform(0.2, 5.0), rng.uniform(0.2, 5.0)])
            P = 10 ** rng.uniform(-6, np.log10(0.5))
            if gamma * P * L > 10:
                P = 10 / (gamma * L) * rng.uniform(0.2, 1.0)
            phi = 10 ** rng.uniform(np.log10(5e-4), -1)
            # keep the number of steps modest in the quick tier
            nl = gamma * P * L
            if nl / phi > (300 if tier == "quick" else 1200):
                phi = min(0.1, nl / (300 if tier == "quick" else 1200))
            fs = sps * R if g is None else g["fs"]
            b2 = rng.choice([0.0, rng.uniform(-25, 25), rng.uniform(-25, 25)])
            b3 = rng.choice([0.0, 0.0, rng.uniform(-0.2, 0.2)])
            alpha = rng.choice([0.0, rng.uniform(0.0, 0.5), rng.uniform(0.0, 0.5)])
            cases.append({"kind": "run", "n": n, "npol": npol, "sps": sps, "R": R, "L": L, "gamma": gamma, "P": P, "phi": phi,
                          "b2": b2, "b3": b3, "alpha": alpha, "shape": rng.choice(["random", "pulses", "nrz"]),
                          "lead0": rng.choice([0, 0, 2, 5]), "ypow": rng.choice([0.0, 0.3, 1.0]), "seed": rng.getrandbits(32),
                          "dtype": rng.choice(["complex", "complex", "float"]), "gv": g})
    # convergence to the NLSE (first order in phi_max) against the independent fixed-step reference: a few small cases
    # in the quick tier, pure third-order dispersion included; many in the thorough tier
    for i in range(4 if tier == "quick" else 24):
        gamma = rng.uniform(1.0, 4.0)
        L = rng.uniform(5, 40)
        P = rng.uniform(1.0, 3.0) / (gamma * L)
        sps, R = 50, 40e9                       # fs = 2 THz, band edge w_max = 2*pi rad/ps
        # every other reference case configures the grid through (R, fs) with a NON-integer ratio (fs/R = 50.45): the
        # dispersion operator must live on gv.fs, not on sps*R
        gref = {"R": 40e9, "fs": 2.018e12} if i % 2 == 1 else None
        wmax = np.pi * (gref["fs"] if gref else sps * R) * 1e-12
        # accumulated linear phase at the band edge kept moderate (5..30 rad) so that the reference is well conditioned
        ph2 = rng.uniform(5, 30) * rng.choice([-1, 1])
        ph3 = rng.uniform(5, 30) * rng.choice([-1, 1])
        kind = [(0, 1), (1, 1), (1, 0), (0, 1)][i % 4]     # pure third order first
        b2 = kind[0] * ph2 * 2 / (wmax ** 2 * L)
        b3 = kind[1] * max(-0.2, min(0.2, ph3 * 6 / (wmax ** 3 * L)))
        cases.append({"kind": "run", "n": 64 if i % 2 == 0 else 63, "npol": rng.choice([1, 2]), "sps": sps, "R": R, "L": L, "gamma": gamma, "P": P,
                      "phi": rng.choice([0.05, 0.02]), "b2": b2, "b3": b3, "alpha": rng.choice([0.0, 0.2]),
                      "shape": "pulses", "lead0": rng.choice([0, 3]), "ypow": rng.choice([0.0, 0.5]),
                      "seed": rng.getrandbits(32), "ref_steps": 4000, "gv": gref})
    # dedicated boundary cases
    base = {"kind": "run", "n": 64, "npol": 1, "sps": 16, "R": 10e9, "L": 20.0, "gamma": 2.0, "P": 0.09, "phi": 0.05, "b2": -20.0,
            "b3": 0.0, "alpha": 0.2, "shape": "random", "lead0": 4, "ypow": 0.0, "seed": 7}
    cases.append(dict(base))                                           # 1-pol, zero leading samples (once an endless loop)
    cases.append(dict(base, P=1e-12, L=100.0))                         # weak field: first step longer than the fibre
    cases.append(dict(base, shape="zero", P=0.0))                      # all-zero field
    cases.append(dict(base, npol=2, shape="zero", P=0.0))
    cases.append(dict(base, b2=0.0, b3=0.0, L=50.0))                   # SPM closed form with loss
    cases.append(dict(base, b2=0.0, b3=0.0, alpha=0.0))                # SPM, L_eff = L
    cases.append(dict(base, gamma=0.0))                                # linear
    cases.append(dict(base, npol=2, ypow=0.0))                         # y empty
    # deep schedules: total nonlinear phase near the top of the range with a small phi_max -> thousands of adaptive steps
    # (a floor / cap on the step size or on the step count only bites there); short records keep them cheap
    cases.append(dict(base, n=32, L=50.0, gamma=2.0, P=0.1, phi=2.5e-3, alpha=0.0, b2=-5.0, lead0=0, seed=11, ref_steps=40000))   # ~4000 steps, judged against the fixed-step reference too
    cases.append(dict(base, n=32, npol=2, ypow=0.5, L=80.0, gamma=1.25, P=0.1, phi=4e-3, alpha=0.1, b2=3.0, b3=0.05, lead0=0, seed=12))
    if tier != "quick":
        cases.append(dict(base, n=32, L=100.0, gamma=1.0, P=0.1, phi=1e-3, alpha=0.0, b2=-2.0, lead0=0, seed=13))      # ~10000 steps
    # lossy spans walked in a few LONG adaptive steps: with alpha near the top of the range and a first step of 4..15 km the peak
    # power falls by more than 3x within one step, so consecutive steps grow by large factors (a limiter on the growth of the
    # step, or any bookkeeping that assumes slowly varying steps, only bites here: seeded change C08-r8m1)
    for i in range(4 if tier == "quick" else 16):
        phi = rng.choice([0.1, 0.1, 0.08, 0.05])
        gamma = rng.uniform(0.5, 3.0)
        h0 = rng.uniform(4.0, 15.0)
        npol = 1 + i % 2
        cases.append(dict(base, n=rng.choice([32, 48, 64]), npol=npol, ypow=rng.choice([0.3, 1.0]) if npol == 2 else 0.0,
                          L=rng.uniform(60.0, 100.0), gamma=gamma, P=phi / (gamma * h0), phi=phi, alpha=rng.uniform(0.3, 0.5),
                          b2=rng.uniform(-25, 25), b3=rng.choice([0.0, rng.uniform(-0.2, 0.2)]), lead0=0,
                          shape=rng.choice(["pulses", "random", "nrz"]), seed=rng.getrandbits(32), directed="lossy-long-steps"))
    rng.shuffle(cases)
    return cases


def _make(case):
    a = _make_complex(case)
    dt = case.get("dtype", "complex")
    if dt == "float":          # a real-valued field stored as float64 (optical_signal keeps the dtype it is given)
        return np.ascontiguousarray(np.abs(a))
    return a


def _make_complex(case):
    if case["shape"] == "zero":
        n = case["n"]
        return np.zeros(n, complex) if case["npol"] == 1 else np.zeros((2, n), complex)
    return _field(case)


def _rows(a):
    a = np.asarray(a)
    a = a[None, :] if a.ndim == 1 else a
    return [[[float(z.real), float(z.imag)] for z in row] for row in a]


def reference_nlse(a, fs, L, alpha_p, b2, b3, gamma, nsteps):
    """independent fixed-step symmetric split-step reference (per polarisation, no cross coupling, like the code's model)"""
    n = a.shape[-1]
    w = 2 * np.pi * np.fft.fftfreq(n) * fs * 1e-12
    h = L / nsteps
    lin_half = np.exp((-alpha_p / 2 - 1j * b2 * w ** 2 / 2 - 1j * b3 * w ** 3 / 6) * h / 2)
    A = a.astype(complex).copy()
    for _ in range(nsteps):
        A = np.fft.ifft(lin_half * np.fft.fft(A, axis=-1), axis=-1)
        A = A * np.exp(1j * gamma * h * np.abs(A) ** 2)
        A = np.fft.ifft(lin_half * np.fft.fft(A, axis=-1), axis=-1)
    return A


def run_impl(case):
    from opticomlib.typing import gv, optical_signal
    import opticomlib.devices as dev
    res = {}
    calls = {"n": 0}
    orig_fft = dev.fft

    def counting_fft(*a, **k):
        calls["n"] += 1
        return orig_fft(*a, **k)
    orig_tqdm = dev.tqdm
    progress = []

    class FakeBar:
        def __init__(self, *a, **k):
            pass

        def update(self, v):
            progress.append(float(v))

        def close(self):
            pass
    try:
        with warnings.catch_warnings():
            warnings.simplefilter("ignore")
            gv.clean()
            gv(**(case.get("gv") or {"sps": case["sps"], "R": case["R"]}))
            res["fs"] = float(gv.fs)
            a = _make(case)
            x = optical_signal(a, n_pol=case["npol"])
            kw = dict(length=case["L"], alpha=case["alpha"], beta_2=case["b2"], beta_3=case["b3"], gamma=case["gamma"], phi_max=case["phi"])
            dev.fft = counting_fft
            dev.tqdm = FakeBar
            try:
                with time_limit(120):
                    y = dev.FIBER(x, show_progress=True, **kw)
            finally:
                dev.fft = orig_fft
                dev.tqdm = orig_tqdm
            # the progress bar is advanced by 100*h/length for every applied step: the schedule, observed from outside
            res["hs"] = [v * case["L"] / 100 for v in progress]
            res.update(status="ok", steps=calls["n"], inp=_rows(x.signal), out=_rows(y.signal), cls=type(y).__name__,
                       npol=y.n_pol, shape=list(y.signal.shape), finite=bool(np.all(np.isfinite(y.signal))),
                       in_unchanged=bool(np.array_equal(x.signal, a)))
            if calls["n"] <= 300:
                # the documented positional order FIBER(input, length, alpha, beta_2, beta_3, gamma, phi_max) must mean the same
                with time_limit(120):
                    yp = dev.FIBER(x, case["L"], case["alpha"], case["b2"], case["b3"], case["gamma"], case["phi"])
                res["positional_same"] = bool(np.array_equal(yp.signal, y.signal))
            if case["npol"] == 2 and case["ypow"] == 0.0 and case["shape"] != "zero":
                with time_limit(120):
                    y1 = dev.FIBER(optical_signal(a[0]), **kw)
                res["onepol_err"] = float(np.max(np.abs(y1.signal - y.signal[0])))
                res["ypol_max"] = float(np.max(np.abs(y.signal[1])))
            if case.get("ref_steps"):
                ap = case["alpha"] / (10 / np.log(10))
                ref = reference_nlse(np.asarray(a), res["fs"], case["L"], ap, case["b2"], case["b3"], case["gamma"], case["ref_steps"])
                res["ref_err"] = float(np.max(np.abs(ref - y.signal)) / max(1e-300, np.max(np.abs(ref))))
                with time_limit(240):
                    y4 = dev.FIBER(x, **dict(kw, phi_max=case["phi"] / 4))
                res["ref_err_quarter"] = float(np.max(np.abs(ref - y4.signal)) / max(1e-300, np.max(np.abs(ref))))
    except Timeout as e:
        res.update(status="timeout", detail=str(e))
    except Exception as e:  # noqa
        res.update(status="err", err=exc_enum(e), detail=repr(e)[:200])
    finally:
        dev.fft = orig_fft
        dev.tqdm = orig_tqdm
        try:
            gv.clean()
        except Exception:
            pass
    return res


def _enc_rows(rows):
    return " ".join([str(len(rows))] + [enc_clist([complex(a, b) for a, b in row]) for row in rows])


def model_requests(case, res):
    if res.get("status") != "ok":
        return []
    fuel = 200000
    par = (f"{enc_f(res['fs'])} {enc_f(case['alpha'])} {enc_f(case['b2'])} {enc_f(case['b3'])} {enc_f(case['gamma'])} "
           f"{enc_f(case['phi'])} {enc_f(case['L'])}")
    reqs = [f"fibernl.run {par} {fuel} {_enc_rows(res['inp'])}"]
    if len(res["hs"]) == res["steps"] and res["steps"] > 0:
        from harness.common.wire import enc_flist
        reqs.append(f"fibernl.replay {par} {enc_flist(res['hs'])} {_enc_rows(res['inp'])}")
    return reqs


def _rows_close(m, rows, n, rel):
    if len(m) != len(rows):
        return f"rows {len(m)} vs {len(rows)}"
    for r, (mr, ir) in enumerate(zip(m, rows)):
        iv = [complex(a, b) for a, b in ir]
        if len(mr) != len(iv):
            return f"row {r}: length {len(mr)} vs {len(iv)}"
        scale = max(1e-30, max(abs(z) for z in iv), max(abs(z) for z in mr))
        for k, (a, b) in enumerate(zip(mr, iv)):
            if not (abs(a - b) <= rel * scale):
                return f"row {r} sample {k}: model {a!r} impl {b!r}"
    return None


def compare(case, res, reqs, replies):
    """Two ties.  (1) step-wise: the model applies the schedule observed on the implementation (progress-bar spy) and must
    reproduce the final field tightly, and at every step its own step rule / break rule must agree with the step the
    implementation took.  (2) free-running model (its own adaptive schedule, what the theorems are about): same number of
    steps (+-1 for a floating tie) and the same field up to the sensitivity of the adaptive schedule (the step-size feedback
    amplifies rounding differences, so this tolerance is loose unless the run is short)."""
    if not reqs:
        return []
    out = []
    n = case["n"]
    L = case["L"]
    rep = replies[0]
    if not rep.startswith("ok "):
        return [f"model reply {rep[:80]}"]
    t = Toks(rep[3:])
    msteps = t.nat()
    m = [t.clist() for _ in range(t.nat())]
    nsteps = max(1, res["steps"])
    spm = case["b2"] == 0 and case["b3"] == 0 and case["gamma"] != 0
    rel = 1e-9 * n if (nsteps <= 2 or spm or case["gamma"] == 0) else max(1e-9 * n, min(0.5, 4.0 * case["phi"]))
    why = _rows_close(m, res["out"], n, rel)
    if why:
        out.append(f"free-running model: {why} (steps model {msteps} impl {res['steps']}, rel tol {rel:.1e})")
    if abs(msteps - res["steps"]) > (1 if nsteps <= 5 else max(1, nsteps // 10)):
        out.append(f"number of split steps: model {msteps} impl {res['steps']}")
    if len(reqs) > 1:
        rep = replies[1]
        if not rep.startswith("ok "):
            return out + [f"replay reply {rep[:80]}"]
        t = Toks(rep[3:])
        h0 = t.f()
        rules = t.flist()
        mf = [t.clist() for _ in range(t.nat())]
        hs = res["hs"]
        why = _rows_close(mf, res["out"], n, 1e-9 * n * max(1.0, nsteps / 20))
        if why:
            out.append(f"replay of the implementation's schedule: {why}")
        tol = 1e-9
        if not (abs(hs[0] - h0) <= tol * max(abs(h0), 1e-300)):
            out.append(f"first step: implementation {hs[0]!r}, model rule {h0!r}")
        x = hs[0]
        for i in range(1, len(hs) + 1):
            r = rules[i - 1]                      # step the rule chooses after i applied steps
            last_applied = i == len(hs)
            if last_applied:
                # nothing more was applied: the rule must have asked for a step leaving the fibre, and x must be L
                if not (x + r > L * (1 - 1e-12)) or not (abs(x - L) <= 1e-9 * L):
                    out.append(f"stop rule: after {i} steps x={x!r}, rule step {r!r}, L={L!r}")
                break
            h = hs[i]
            is_final = (i == len(hs) - 1) and abs((x + h) - L) <= 1e-9 * L and x + r > L * (1 - 1e-12)
            if is_final:
                break
            # rounding of the replayed field accumulates over the steps already applied (observed 1.3e-9 after 469 steps on the
            # unchanged tree, seed 70 of a sweep): the step-rule tolerance grows with the step index like the field tolerance
            toli = tol * max(1.0, i / 20.0)
            if not (abs(h - r) <= toli * max(abs(r), 1e-300)) or not (x + r <= L * (1 + 1e-12)):
                out.append(f"step {i}: implementation took {h!r}, model rule gives {r!r} (x={x!r}, L={L!r})")
                break
            x += h
    return out


def oracle(case, res):
    v = []
    tag = f"(npol={case['npol']}, n={case['n']}, L={case['L']:.3g}, alpha={case['alpha']:.3g}, b2={case['b2']:.3g}, b3={case['b3']:.3g}, gamma={case['gamma']:.3g}, phi={case['phi']:.3g}, lead0={case['lead0']}, P={case['P']:.3g})"
    if res.get("status") == "timeout":
        return [("C08:non-termination", f"FIBER did not return within the time limit {tag}")]
    if res.get("status") != "ok":
        return [("C08:raises", f"FIBER raised {res.get('err')} {res.get('detail')} {tag}")]
    a = np.array([[complex(p, q) for p, q in row] for row in res["inp"]])
    o = np.array([[complex(p, q) for p, q in row] for row in res["out"]])
    if not res["finite"]:
        v.append(("C08:non-finite", f"output contains NaN/inf {tag}"))
        return v
    if res.get("positional_same") is False:
        v.append(("C08:positional", f"FIBER called with the documented positional argument order differs from the keyword call {tag}"))
    fs_cfg = case["gv"]["fs"] if case.get("gv") else case["sps"] * case["R"]
    if not (abs(res["fs"] - fs_cfg) <= 1e-9 * fs_cfg):
        v.append(("C08:fs", f"gv.fs={res['fs']} but the configured sampling rate is {fs_cfg} {tag}"))
    want_shape = [case["n"]] if case["npol"] == 1 else [2, case["n"]]
    if res["cls"] != "optical_signal" or res["npol"] != case["npol"] or res["shape"] != want_shape:
        v.append(("C08:shape", f"layout not preserved: {res['cls']} n_pol={res['npol']} shape={res['shape']} {tag}"))
    if not res["in_unchanged"]:
        v.append(("C08:input-modified", "the input field was modified"))
    e_in = np.sum(np.abs(a) ** 2, axis=-1)
    e_out = np.sum(np.abs(o) ** 2, axis=-1)
    lossdb = case["alpha"] * case["L"]
    want = e_in * 10 ** (-lossdb / 10)
    rtol = 2e-5 * lossdb / 4.343 + 1e-9 * case["n"] * max(1.0, res["steps"] / 50)
    if not np.all(np.abs(e_out - want) <= rtol * np.maximum(want, 1e-300) + 1e-300):
        v.append(("C08:energy", f"energy per polarisation {e_out} != input*10^(-alpha L/10) {want} {tag}"))
    if case["b2"] == 0 and case["b3"] == 0:
        ap = case["alpha"] / 4.343
        leff = case["L"] if ap == 0 else (1 - np.exp(-ap * case["L"])) / ap
        ref = a * np.exp(-ap * case["L"] / 2) * np.exp(1j * case["gamma"] * np.abs(a) ** 2 * leff)
        if not (np.max(np.abs(ref - o)) <= 1e-9 * max(1e-30, np.max(np.abs(a))) * (1 + case["gamma"] * case["P"] * leff)):
            v.append(("C08:spm-closed-form", f"dispersionless output differs from in*exp(-aL/2)*exp(j g |in|^2 L_eff) by {np.max(np.abs(ref - o)):.3e} {tag}"))
    if "onepol_err" in res:
        scale = max(1e-30, float(np.max(np.abs(a))))
        if not (res["onepol_err"] <= 1e-9 * scale * case["n"] * max(1.0, res["steps"] / 50)):
            v.append(("C08:one-pol", f"1-pol output differs from the x-pol of the 2-pol twin by {res['onepol_err']:.3e} {tag}"))
        if res["ypol_max"] != 0.0:
            v.append(("C08:y-pol-empty", f"empty y-polarisation became non-zero ({res['ypol_max']:.3e}) {tag}"))
    if "ref_err" in res:
        nl = case["gamma"] * case["P"] * case["L"]
        # "converges ... with relative error bounded by a constant times phi_max": a generous constant, and the error must
        # actually shrink when phi_max is divided by 4 (first order predicts a factor 4; 0.6 leaves room for rounding)
        if not (res["ref_err"] <= 10.0 * case["phi"] * max(1.0, nl) + 1e-6):
            v.append(("C08:convergence", f"relative error {res['ref_err']:.3e} vs fixed-step NLSE reference exceeds 10*phi_max*max(1,gamma P L) {tag}"))
        elif not (res["ref_err_quarter"] <= max(0.6 * res["ref_err"], 2e-4)):
            v.append(("C08:convergence-rate", f"error does not shrink with phi_max: {res['ref_err']:.3e} at phi_max, {res['ref_err_quarter']:.3e} at phi_max/4 {tag}"))
    return v


def features(case, res):
    f = ["status=" + str(res.get("status")), f"npol={case['npol']}", "shape=" + case["shape"],
         "lead0" if case["lead0"] else "no-lead0", "lossy" if case["alpha"] > 0 else "lossless",
         "gamma0" if case["gamma"] == 0 else "gamma>0", "nodisp" if (case["b2"] == 0 and case["b3"] == 0) else "disp"]
    f.append("n-odd" if case["n"] % 2 else "n-even")
    f.append("gv=" + ("+".join(sorted(case["gv"])) if case.get("gv") else "sps+R"))
    f.append("dtype=" + case.get("dtype", "complex"))
    if res.get("status") == "ok":
        s = res["steps"]
        f.append("steps=0" if s == 0 else "steps=1" if s == 1 else "steps=2-10" if s <= 10 else "steps=11-100" if s <= 100 else "steps>100")
    return f


def nontrivial_key(case, res):
    if res.get("status") != "ok" or case["gamma"] == 0:
        return None
    if res["steps"] < 2 and not (case["b2"] == 0 and case["b3"] == 0):
        return None
    return (case["n"], case["npol"], case["L"], case["gamma"], case["phi"], case["b2"], case["alpha"], case["seed"])
