"""C05 — DAC waveforms are slot-exact and SAMPLER inverts them; argument validation."""
import math
import warnings
from fractions import Fraction

from harness.common.wire import exc_enum, enc_f, u2f
from harness.common.watchdog import time_limit, Timeout

ID = "C05"
MANIFEST = {
    "text": "Lean 4 theorems (Props/C05.lean) over an exact Rat model of DAC (NRZ/RZ slot expansion by np.kron, RZ mask sps//2, "
            "scaling by Vout, bias) and SAMPLER (x[k::sps] on signal and noise): output length len(bits)*sps; every sample of "
            "every slot for every bit list and every sps (odd included); SAMPLER returns samples k, k+sps, ...; sampling at any "
            "k<sps (NRZ) / k<sps//2 (RZ) and the nearer-level decision return the input bits for every Vout != 0; the validation "
            "ladder (types, 48 V, 0<T<=2*sps, m>=1, pulse-shape names, exception classes - all translated from devices.py on "
            "every run) equals the documented accept/TypeError/ValueError table.  Gaussian branch (generic model executed at "
            "Float, proved at R; constants and the formula of k translated from the source): |p(0)| = 1, |p(+-T/2)| = 1/2 for "
            "every m >= 1 and T > 0 (amplitude FWHM of the prototype is exactly T), p even, |p| strictly decreasing in |t|, "
            "chirp leaves |p| unchanged, impulse train positions/values for every bit list and sps >= 2, fftconvolve 'same' = "
            "direct sum, superposition (waveform = sum of shifted single-bit waveforms), len*sps samples.  Tie: translator + "
            "exact differential run of the compiled model against DAC()/SAMPLER() over all container forms of the bits, sps "
            "1..128, dyadic and decimal levels, every value kind of Vout/bias/c/m/T; for the Gaussian branch sg.fftconvolve "
            "is spied inside DAC and s (exactly), pulse and x (1e-9) are compared with the Float model.",
    "note": "Trusted: Lean kernel, translator tools/extractors/daclimits.py (if-ladder, isinstance tuples, comparisons, kwargs "
            "defaults, rz duty), harness; numpy kron/tile/slicing semantics (modelled).  binary_sequence() parsing of the input "
            "forms belongs to C15 (the model takes the bit list).  Partial: the DISCRETISED Gaussian clauses (sampled peak position, "
            "5 % height, +-1-sample width, Gaussian round trip) are numerical oracle checks; proved is the continuous prototype "
            "and the linear structure.  Proofs over R say nothing about float rounding / FFT vs direct sum (tolerance 1e-9).  Axioms: propext, Classical.choice, "
            "Quot.sound.",
    "technique": "Lean 4 proof (induction over the bit list, algebra over Rat) on a model whose constants are regenerated from "
                 "source; exact differential correspondence run; numerical oracle for the Gaussian clauses",
    "design": "§5 C05",
}
GEN = ["DacLimits", "DacGauss"]
RULE = ("cases = (container form of the bits, bit pattern, sps in 1..128 incl. odd/prime/2^k, shape name, Vout/bias kind and value "
        "incl. None/bool/int/float/np.float64 and boundary values around 48, sampling instants) + validation cells over every "
        "value kind of Vout/bias/c/m/T/pulse_shape + raw SAMPLER cases with noise + Gaussian grid; non-trivial = accepted "
        "waveform with >= 2 bits containing both levels, distinct by (shape, sps, bits, Vout, bias)")
PARTIAL = [
    "Gaussian pulse, discretisation: PROVED are the continuous prototype (|p(0)|=1, |p(+-T/2)|=1/2, even, strictly decreasing, "
    "chirp-independent modulus), the impulse train, the direct-sum form of the 'same' convolution and the superposition law.  "
    "NOT proved (numerical oracle on the real code, sps>=8, sps/2<=T<=2*sps, m in 1..4): that the SAMPLED waveform - prototype "
    "sampled on linspace(-4*sps, 4*sps, 8*sps) (spacing 8*sps/(8*sps-1), not 1), averaged over two impulses one sample apart, "
    "truncated at +-4*sps - has its peak within one sample of the slot centre, within 5 % of Vout, and a half-maximum width "
    "within one sample of T",
    "Gaussian DAC->SAMPLER(k=sps//2)->decision returns the bits - oracle only, checked for T<=sps (for larger T adjacent pulses "
    "overlap by construction; superposition theorem explains it) and for isolated ones",
    "float arithmetic of the Gaussian branch (libm exp/log, FFT-based convolution vs direct sum): correspondence at 1e-9*scale*N",
    "conversion of str/list/tuple/ndarray/binary_sequence inputs to a bit list is C15's model; here the oracle checks that all "
    "forms give the same waveform",
]
ASSUMPTIONS = [
    "numpy kron / tile / elementwise * and + / basic slicing behave as modelled; IEEE addition is correctly rounded (the model's "
    "exact rational is compared with the float after rounding it once)",
    "gv.sps is a positive Python int (set through gv(sps=..., R=1e9) from a clean gv)",
    "the driver evaluates the same Lean definitions the theorems are about (compiled by Lean's code generator)",
]
BUDGET = {"quick": 120, "thorough": 900}
EXHAUSTIVE = {"quick": False, "thorough": False}

# documented positional order of the anchored functions at /repo HEAD 8caea4c (a literal, NOT read from the code under test)
DAC_ORDER = ["input", "bias", "Vout", "pulse_shape", "BW"]
SAMPLER_ORDER = ["input", "instant"]

NRZ = ["rect", "nrz", "NRZ"]
RZ = ["rz", "RZ"]
GAUSS = ["gaussian", "GAUSSIAN"]
FORMS = ["str", "strsp", "list", "tuple", "ndarray", "ndarray_bool", "ndarray_float", "binseq", "listbool"]


# ---------------------------------------------------------------------------------------------------------------------
# value kinds
# ---------------------------------------------------------------------------------------------------------------------

def pv(t, v=None):
    return {"t": t, "v": v}


def to_py(d):
    """JSON description -> the Python object handed to the real code"""
    import numpy as np
    t, v = d["t"], d["v"]
    if t == "int":
        return int(v)
    if t == "bool":
        return bool(v)
    if t == "float":
        return float(v)
    if t == "npfloat":
        return np.float64(v)
    if t == "npint":
        return np.int64(v)
    if t == "complex":
        return complex(v, 0.0)
    if t == "str":
        return str(v)
    if t == "None":
        return None
    if t == "list":
        return [v]
    if t == "inf":
        return float("inf") if v > 0 else float("-inf")
    raise ValueError(t)


def to_tok(d):
    """JSON description -> wire token of Model/Dac.lean (None if the kind is outside the model)"""
    if d is None:
        return "absent"
    t, v = d["t"], d["v"]
    if t == "int":
        return f"i:{int(v)}"
    if t == "bool":
        return f"b:{1 if v else 0}"
    if t in ("float", "npfloat"):
        q = Fraction(float(v))
        return ("f:" if t == "float" else "npf:") + f"{q.numerator}/{q.denominator}"
    if t == "npint":
        return f"npi:{int(v)}"
    if t == "complex":
        return "cx"
    if t == "str":
        return "str"
    if t == "None":
        return "None"
    if t == "list":
        return "list"
    return None


def numeric(d):
    """exact value of an accepted scalar kind, else None"""
    if d["t"] in ("int", "bool"):
        return Fraction(int(d["v"]))
    if d["t"] in ("float", "npfloat"):
        return Fraction(float(d["v"]))
    return None


def shape_tok(name):
    if isinstance(name, str) and name and all(33 <= ord(ch) < 127 for ch in name):
        return "s:" + name
    if isinstance(name, str):
        return None
    return "nonstr"


def build_input(form, bits):
    import numpy as np
    from opticomlib.typing import binary_sequence
    if form == "str":
        return "".join(map(str, bits))
    if form == "strsp":
        return " ".join(map(str, bits))
    if form == "list":
        return [int(b) for b in bits]
    if form == "listbool":
        return [bool(b) for b in bits]
    if form == "tuple":
        return tuple(int(b) for b in bits)
    if form == "ndarray":
        return np.array(bits, dtype=np.int64)
    if form == "ndarray_bool":
        return np.array(bits, dtype=bool)
    if form == "ndarray_float":
        return np.array(bits, dtype=float)
    if form == "binseq":
        return binary_sequence(list(bits))
    raise ValueError(form)


# ---------------------------------------------------------------------------------------------------------------------
# generators
# ---------------------------------------------------------------------------------------------------------------------

def _level(rng, allow_special=True):
    """a Vout / bias description inside (-48, 48)"""
    r = rng.random()
    if r < 0.45:
        return pv("float", rng.randrange(-48 * 1024 + 1, 48 * 1024) / 1024.0)     # dyadic
    if r < 0.6:
        return pv("float", round(rng.uniform(-47.9, 47.9), 3))                      # decimal: rounding in x + bias
    if r < 0.75:
        return pv("int", rng.randrange(-47, 48))
    if r < 0.82:
        return pv("npfloat", rng.randrange(-300, 300) / 8.0)
    if r < 0.88:
        return pv("float", rng.choice([47.999, -47.999, 47.99999999999999, 2.0 ** -20, -2.0 ** -20, 1e-3, 0.1]))
    if not allow_special:
        return pv("float", rng.randrange(-100, 100) / 4.0)
    if r < 0.93:
        return pv("bool", rng.random() < 0.5)
    if r < 0.97:
        return pv("None")
    return pv("float", 0.0)


def _bits(rng, n):
    mode = rng.random()
    if mode < 0.1:
        return [0] * n
    if mode < 0.2:
        return [1] * n
    if mode < 0.3:
        return [(i + rng.randrange(2)) % 2 for i in range(n)][:n]
    return [rng.randrange(2) for _ in range(n)]


R_ODD = [0.3, 1.5e9, 2.5e9, 622.08e6, 7e8, 1e9 / 3, 1e9]
FS_ODD = [40e9, 10e9, 7e9, 12.5e9, 1.0]
# (R, fs) / fs-alone configurations: gv derives sps = int(np.round(fs/R)) (R defaults to 1e9)
DERIVED = [{"R": 1.5e9, "fs": 10e9}, {"R": 3e9, "fs": 10e9}, {"R": 0.3, "fs": 2.0}, {"R": 7e8, "fs": 5e9}, {"R": 1e9, "fs": 8.6e9},
           {"R": 1e9, "fs": 7.5e9}, {"R": 1e9, "fs": 8.5e9}, {"R": 2.5e9, "fs": 40e9}, {"fs": 24e9}, {"fs": 8.6e9}, {"fs": 3.4e9},
           {"R": 1.5e9, "fs": 10e9, "N": 4}, {"R": 6e8, "fs": 10e9}, {"fs": 2.5e9, "N": 3}, {"R": 2e9, "fs": 33e9}]


def _gv_for(rng, sps):
    """a way of configuring gv that leaves gv.sps == sps: (sps, R) with integer- and non-integer-valued R, (sps, fs), N in force"""
    r = rng.random()
    if r < 0.4:
        return None                                    # default: gv(sps=sps, R=1e9)
    if r < 0.62:
        conf = {"sps": sps, "R": rng.choice(R_ODD)}
    elif r < 0.84:
        conf = {"sps": sps, "fs": rng.choice(FS_ODD)}
    else:
        conf = {"sps": float(sps), "R": rng.choice(R_ODD)}
    if rng.random() < 0.25:
        conf["N"] = rng.choice([1, 3, 8])
    return conf


def _derived_sps(conf):
    """the sps gv derives from (R, fs) / fs alone: int(np.round(fs/R)), half-to-even"""
    return int(round(conf["fs"] / conf.get("R", 1e9)))


def _sps_pool(tier):
    base = [1, 2, 3, 4, 5, 7, 8, 9, 15, 16, 17, 31, 32, 33, 63, 64, 65, 127, 128]
    return base


def gen_cases(rng, tier):
    cases = []
    quick = tier == "quick"
    # --- waveforms ------------------------------------------------------------------------------------------------
    n_wave = 1500 if quick else 12000
    pool = _sps_pool(tier)
    for i in range(n_wave):
        sps = pool[i % len(pool)] if i < 3 * len(pool) else rng.randrange(1, 129)
        maxbits = 24 if sps <= 16 else (10 if sps <= 64 else 5)
        n = rng.choice([1, 2, 3, rng.randrange(1, maxbits + 1), rng.randrange(1, maxbits + 1)])
        bits = _bits(rng, n)
        shape = rng.choice(NRZ + RZ + RZ[:1] + NRZ[1:2])
        form = FORMS[i % len(FORMS)]
        vout, bias = _level(rng), _level(rng)
        if quick:
            ks = sorted({0, sps - 1, sps // 2, max(sps // 2 - 1, 0), rng.randrange(sps)})
            ks = rng.sample(ks, min(len(ks), 3))
        else:
            ks = list(range(sps)) if sps <= 33 else sorted({0, sps - 1, sps // 2, sps // 2 - 1, rng.randrange(sps)})
        cases.append({"kind": "wave", "form": form, "bits": bits, "sps": sps, "shape": shape, "vout": vout, "bias": bias,
                      "ks": ks, "kw": {}})
        conf = _gv_for(rng, sps)
        if conf:
            cases[-1]["gv"] = conf
    # every way of configuring gv: sps derived from (R, fs) with non-integer fs/R, from fs alone, N in force; and the (sps, fs) /
    # (sps, R) settings for which fs/R is not exactly sps in floating point
    special = [(c, _derived_sps(c)) for c in DERIVED]
    special += [({"sps": k, "fs": 40e9}, k) for k in (31, 62, 111, 121, 123, 124)]
    special += [({"sps": k, "R": 0.3}, k) for k in (31, 57, 62, 109, 124)]
    special += [({"sps": k, "R": 1e9 / 3}, k) for k in (3, 7, 49)] + [({"sps": k, "fs": 1.0}, k) for k in (3, 7, 10, 49)]
    for conf, sps in special:
        for shape in ("nrz", "rz"):
            bits = _bits(rng, rng.randrange(2, 5))
            if len(set(bits)) < 2:
                bits = [1, 0, 1]
            cases.append({"kind": "wave", "form": FORMS[rng.randrange(len(FORMS))], "bits": bits, "sps": sps, "shape": shape,
                          "vout": pv("float", rng.choice([1.0, -2.5, 3.25])), "bias": pv("float", rng.choice([0.0, 0.5])),
                          "ks": sorted({0, sps - 1, max(sps // 2 - 1, 0)}), "kw": {}, "gv": conf})
        n = rng.randrange(2 * sps + 1, 4 * sps + 2)
        cases.append({"kind": "sampler", "sps": sps, "sig": [rng.randrange(-64, 64) / 8.0 for _ in range(n)],
                      "noise": [rng.randrange(-64, 64) / 16.0 for _ in range(n)], "k": rng.randrange(sps), "gv": conf})
    # invalid bit entries / empty input (binary_sequence rejects; electrical_signal rejects empty)
    for bits in ([0, 2, 1], [1, -1], [], [3]):
        cases.append({"kind": "wave", "form": "list", "bits": bits, "sps": 4, "shape": "nrz", "vout": pv("float", 1.0),
                      "bias": pv("float", 0.0), "ks": [], "kw": {}})
    # --- validation cells -----------------------------------------------------------------------------------------
    kinds_level = [pv("int", 3), pv("int", 48), pv("int", -48), pv("int", 47), pv("int", 49), pv("int", 1000), pv("bool", True),
                   pv("bool", False), pv("float", 47.999), pv("float", 48.0), pv("float", -48.0), pv("float", 48.001),
                   pv("float", -1e6), pv("npfloat", 12.5), pv("npfloat", 48.0), pv("npint", 3), pv("complex", 1.0),
                   pv("str", "1"), pv("None"), pv("list", 1.0), pv("inf", 1), pv("inf", -1)]
    for shape in ["nrz", "rz", "gaussian"]:
        for v in kinds_level:
            cases.append({"kind": "validate", "form": "list", "bits": [0, 1, 0], "sps": 8, "shape": shape, "vout": v,
                          "bias": pv("float", 0.5), "ks": [], "kw": {}})
            cases.append({"kind": "validate", "form": "str", "bits": [1, 0], "sps": 9, "shape": shape,
                          "vout": pv("float", -1.0), "bias": v, "ks": [], "kw": {}})
    # both wrong: the first failing check decides
    for v in [pv("str", "x"), pv("float", 100.0)]:
        for b in [pv("complex", 2.0), pv("int", -77)]:
            cases.append({"kind": "validate", "form": "list", "bits": [1], "sps": 4, "shape": "nrz", "vout": v, "bias": b,
                          "ks": [], "kw": {}})
    for sps in [8, 9, 16]:
        ints = [pv("int", k) for k in (-1, 0, 1, 2, sps // 2, sps, 2 * sps - 1, 2 * sps, 2 * sps + 1, 10 * sps)]
        others = [pv("bool", True), pv("bool", False), pv("float", 1.0), pv("float", float(sps)), pv("npint", sps),
                  pv("npfloat", 2.0), pv("complex", 1.0), pv("str", "4"), pv("None"), pv("list", 4)]
        for T in ints + others:
            cases.append({"kind": "validate", "form": "list", "bits": [0, 1, 0], "sps": sps, "shape": "gaussian",
                          "vout": pv("float", 1.0), "bias": pv("float", 0.0), "ks": [], "kw": {"T": T}})
        for m in [pv("int", k) for k in (-3, 0, 1, 2, 4)] + others:
            cases.append({"kind": "validate", "form": "list", "bits": [0, 1, 0], "sps": sps, "shape": "gaussian",
                          "vout": pv("float", 1.0), "bias": pv("float", 0.0), "ks": [], "kw": {"m": m}})
        for c in [pv("int", 0), pv("int", 2), pv("float", -1.5), pv("bool", True), pv("npfloat", 0.5), pv("npint", 1),
                  pv("complex", 1.0), pv("str", "0"), pv("None"), pv("list", 0)]:
            cases.append({"kind": "validate", "form": "list", "bits": [0, 1, 0], "sps": sps, "shape": "gaussian",
                          "vout": pv("float", 1.0), "bias": pv("float", 0.0), "ks": [], "kw": {"c": c}})
        # order of the checks: c before m before T before Vout before bias
        cases.append({"kind": "validate", "form": "list", "bits": [0, 1], "sps": sps, "shape": "gaussian",
                      "vout": pv("str", "a"), "bias": pv("int", 99), "ks": [],
                      "kw": {"c": pv("str", "x"), "m": pv("int", 0), "T": pv("float", 1.0)}})
        cases.append({"kind": "validate", "form": "list", "bits": [0, 1], "sps": sps, "shape": "gaussian",
                      "vout": pv("str", "a"), "bias": pv("int", 99), "ks": [],
                      "kw": {"m": pv("int", 0), "T": pv("float", 1.0)}})
        cases.append({"kind": "validate", "form": "list", "bits": [0, 1], "sps": sps, "shape": "gaussian",
                      "vout": pv("int", 99), "bias": pv("str", "b"), "ks": [], "kw": {"T": pv("int", 3 * sps)}})
        # keywords are ignored by the NRZ / RZ branches
        cases.append({"kind": "validate", "form": "list", "bits": [0, 1], "sps": sps, "shape": "rz",
                      "vout": pv("int", 1), "bias": pv("int", 0), "ks": [], "kw": {"T": pv("str", "x"), "m": pv("int", -1)}})
    # --- every invalid value crossed with every kind of bit sequence (all-zero, all-one, single bits, mixed) and every shape:
    #     validation must not depend on the data
    BITS_POOL = [[0], [1], [0, 0, 0], [1, 1, 1], [0, 1, 0], [1, 0, 0, 1], [0, 0, 0, 0, 0, 0], [1, 1]]
    bad_levels = [pv("int", 48), pv("int", -49), pv("float", 48.0), pv("float", -1e6), pv("inf", 1), pv("str", "1"),
                  pv("complex", 1.0), pv("list", 1.0), pv("npint", 3)]
    nform = 0
    for shape in NRZ + RZ + GAUSS:
        for bits in BITS_POOL:
            for bad in bad_levels:
                for which in ("vout", "bias"):
                    nform += 1
                    c = {"kind": "validate", "form": FORMS[nform % len(FORMS)], "bits": bits, "sps": 8 if nform % 2 else 9, "shape": shape,
                         "vout": pv("float", -2.0), "bias": pv("float", 0.25), "ks": [], "kw": {}}
                    c[which] = bad
                    cases.append(c)
    for sps in [8, 9]:
        badT = [pv("int", k) for k in (-1, 0, 2 * sps + 1, 3 * sps)] + [pv("float", 8.5), pv("float", float(sps)), pv("str", "4"),
                                                                         pv("None"), pv("list", 4), pv("complex", 1.0), pv("npint", sps)]
        badm = [pv("int", 0), pv("int", -3), pv("float", 1.5), pv("float", 1.0), pv("str", "1"), pv("None"), pv("list", 1), pv("npint", 2)]
        badc = [pv("complex", 1.0), pv("str", "0"), pv("None"), pv("list", 0)]
        good = [("T", pv("int", 1)), ("T", pv("int", 2 * sps)), ("m", pv("int", 4)), ("c", pv("float", -1.5)), ("m", pv("bool", True))]
        for bits in BITS_POOL:
            for name, vals in (("T", badT), ("m", badm), ("c", badc)):
                for val in vals:
                    nform += 1
                    for shape in (["gaussian", "GAUSSIAN"] if nform % 3 else ["gaussian", "nrz", "rz"]):
                        cases.append({"kind": "validate", "form": FORMS[nform % len(FORMS)], "bits": bits, "sps": sps, "shape": shape,
                                      "vout": pv("float", 1.5), "bias": pv("float", -0.5), "ks": [], "kw": {name: val}})
            for name, val in good:
                cases.append({"kind": "validate", "form": "list", "bits": bits, "sps": sps, "shape": "gaussian",
                              "vout": pv("float", 1.5), "bias": pv("float", -0.5), "ks": [], "kw": {name: val}})
            # two faults at once on every kind of data: the first failing check decides
            cases.append({"kind": "validate", "form": "str", "bits": bits, "sps": sps, "shape": "gaussian", "vout": pv("str", "a"),
                          "bias": pv("int", 99), "ks": [], "kw": {"T": pv("int", 0), "m": pv("float", 2.0)}})
    for name in ["Rect", "nrZ", "gauss", "Gaussian", "RZ ", "", "square", None, 3, ["nrz"]]:
        cases.append({"kind": "validate", "form": "list", "bits": [0, 1], "sps": 4, "shape": name, "vout": pv("float", 1.0),
                      "bias": pv("float", 0.0), "ks": [], "kw": {}})
        cases.append({"kind": "validate", "form": "list", "bits": [0, 1], "sps": 4, "shape": name, "vout": pv("str", "q"),
                      "bias": pv("float", 99.0), "ks": [], "kw": {}})
    # --- raw SAMPLER cases (signal with noise) --------------------------------------------------------------------------
    n_s = 300 if quick else 4000
    for i in range(n_s):
        sps = rng.choice([1, 2, 3, 4, 5, 7, 8, 16, 17])
        n = rng.choice([1, 2, sps - 1, sps, sps + 1, 2 * sps, rng.randrange(1, 6 * sps + 2)])
        n = max(n, 1)
        sig = [rng.randrange(-64, 64) / 8.0 for _ in range(n)]
        noise = [rng.randrange(-64, 64) / 16.0 for _ in range(n)] if rng.random() < 0.7 else None
        k = rng.choice([0, sps - 1, rng.randrange(sps), rng.randrange(sps), n - 1, n, n + 3, -1, -rng.randrange(1, n + 3)])
        cases.append({"kind": "sampler", "sps": sps, "sig": sig, "noise": noise, "k": k})
        conf = _gv_for(rng, sps)
        if conf:
            cases[-1]["gv"] = conf
    # --- Gaussian grid (oracle only) ----------------------------------------------------------------------------------------
    gs = [8, 9, 16, 17, 32, 33] if quick else [8, 9, 10, 11, 12, 16, 17, 31, 32, 33, 64, 65, 127, 128]
    for sps in gs:
        Ts = sorted({-(-sps // 2), sps // 2 + 1, sps - 1, sps, sps + 1, (3 * sps) // 2, 2 * sps - 1, 2 * sps})
        if quick:
            Ts = rng.sample(Ts, 4)
        for T in Ts:
            for m in ([1, rng.randrange(2, 5)] if quick else [1, 2, 3, 4]):
                vout = rng.choice([1.0, -2.5, 5, 0.75, -40.0, 47.5])
                bias = rng.choice([0.0, 0.5, -1, 12.25])
                cases.append({"kind": "gauss", "sps": sps, "T": T, "m": m, "bits": [0, 0, 0, 1, 0, 0, 0], "vout": vout,
                              "bias": bias})
                if rng.random() < 0.35:     # chirped pulse, arbitrary pattern: correspondence of the complex waveform only
                    cases.append({"kind": "gauss", "sps": sps, "T": T, "m": m, "bits": _bits(rng, rng.randrange(1, 9)),
                                  "vout": vout, "bias": bias, "c": rng.choice([1.5, -2.0, 1, 0.25])})
        # an isolated 1 next to runs of two or more adjacent 1s: the isolated one must still reach Vout within 5 % by itself
        mixed = [[0, 0, 0, 1, 0, 0, 0, 1, 1, 0, 0, 0], [0, 0, 0, 1, 1, 1, 0, 0, 0, 1, 0, 0, 0], [1, 1, 0, 0, 0, 1, 0, 0, 0, 1, 1, 1, 1],
                 [0, 0, 0, 1, 0, 0, 0, 1, 0, 0, 0, 1, 1, 0, 0, 0]]
        for T in ([sps, 2 * sps] if quick else [sps, (3 * sps) // 2, 2 * sps - 1, 2 * sps]):
            for m in ([1, rng.randrange(2, 5)] if quick else [1, 2, 3, 4]):
                cases.append({"kind": "gauss", "sps": sps, "T": T, "m": m, "bits": rng.choice(mixed),
                              "vout": rng.choice([1.0, -2.5, 5, 47.5]), "bias": rng.choice([0.0, 0.5, -1])})
        # a 1 in the first slot / the last slot / both, and 1- and 2-bit sequences: the pulse is cut by the record edge
        edge = [[1], [1, 0], [0, 1], [1, 1], [1, 0, 0, 0], [0, 0, 0, 1], [1, 0, 0, 0, 1], [1, 0, 0, 0, 0, 1, 1], [1, 0, 0, 0, 1, 0, 0, 0, 1]]
        for T in ([sps, 2 * sps, rng.choice([-(-sps // 2), (3 * sps) // 2, 2 * sps - 1])] if quick
                  else [-(-sps // 2), sps - 1, sps, sps + 1, (3 * sps) // 2, 2 * sps - 1, 2 * sps]):
            for bits in (rng.sample(edge, 4) if quick else edge):
                cases.append({"kind": "gauss", "sps": sps, "T": T, "m": rng.randrange(1, 5), "bits": bits,
                              "vout": rng.choice([1.0, -2.5, 5, 47.5]), "bias": rng.choice([0.0, 0.5, -1])})
        # default T (= sps), arbitrary pattern: round trip at k = sps//2
        for _ in range(2 if quick else 10):
            cases.append({"kind": "gauss", "sps": sps, "T": None, "m": rng.randrange(1, 5),
                          "bits": _bits(rng, rng.randrange(3, 12)), "vout": rng.choice([1.0, -3.0, 7.5]),
                          "bias": rng.choice([0.0, -0.25, 2])})
    rng.shuffle(cases)
    return cases


# ---------------------------------------------------------------------------------------------------------------------
# implementation runner
# ---------------------------------------------------------------------------------------------------------------------

def _gv_conf(case):
    return case.get("gv") or {"sps": case["sps"], "R": 1e9}


def _set_gv(case):
    """configure the global grid the way the case says (default gv(sps=, R=1e9)); returns what gv then reports"""
    from opticomlib.typing import gv
    gv.clean()
    with warnings.catch_warnings():
        warnings.simplefilter("ignore")
        gv(**_gv_conf(case))
    return {"gv_sps": gv.sps if isinstance(gv.sps, (int, float)) else repr(gv.sps), "gv_sps_type": type(gv.sps).__name__,
            "gv_fs": float(gv.fs), "gv_R": float(gv.R)}


def _outcome(fn, args, kwargs, limit=20):
    """('ok', result) | ('err', enum, detail) | ('timeout', detail)"""
    try:
        with time_limit(limit):
            return ("ok", fn(*args, **kwargs))
    except Timeout as e:
        return ("timeout", str(e))
    except Exception as e:  # noqa
        return ("err", exc_enum(e), repr(e)[:200])


def _same_outcome(a, b):
    """None if the keyword call `a` and its positional twin `b` agree bit for bit, else a description"""
    import numpy as np
    if a[0] != b[0]:
        return f"keyword call {a[0]} {a[1] if a[0] != 'ok' else ''}, positional call {b[0]} {b[1] if b[0] != 'ok' else ''}"
    if a[0] == "err":
        return None if a[1] == b[1] else f"keyword call raised {a[1]}, positional call raised {b[1]}"
    if a[0] != "ok":
        return None
    x, y = a[1], b[1]
    for name in ("signal", "noise"):
        u, w = getattr(x, name), getattr(y, name)
        if (u is None) != (w is None):
            return f".{name}: None in one call only"
        if u is not None:
            u, w = np.asarray(u), np.asarray(w)
            if u.dtype != w.dtype or u.shape != w.shape or u.tobytes() != w.tobytes():
                k = int(np.flatnonzero(~(u == w))[0]) if u.shape == w.shape and np.any(~(u == w)) else -1
                return f".{name} differs (dtype {u.dtype}/{w.dtype}, shape {u.shape}/{w.shape}, first at {k}: " \
                       f"{u.flat[k] if k >= 0 else ''!r} vs {w.flat[k] if k >= 0 else ''!r})"
    return None


def _by_order(order, values):
    return [values[name] for name in order]


def run_impl(case):
    import numpy as np
    from opticomlib.typing import gv, electrical_signal
    from opticomlib.devices import DAC, SAMPLER
    res = {}
    try:
        res.update(_set_gv(case))
        if case["kind"] == "sampler":
            x = electrical_signal(np.array(case["sig"], dtype=float),
                                  None if case["noise"] is None else np.array(case["noise"], dtype=float))
            res["positional_sampler"] = _same_outcome(_outcome(SAMPLER, (), {"input": x, "instant": case["k"]}),
                                                      _outcome(SAMPLER, _by_order(SAMPLER_ORDER, {"input": x, "instant": case["k"]}), {}))
            with time_limit(20):
                y = SAMPLER(x, case["k"])
            res.update(status="ok", cls=type(y).__name__, signal=[float(v) for v in y.signal],
                       noise=None if y.noise is None else [float(v) for v in y.noise],
                       aliased=bool(np.shares_memory(y.signal, x.signal)))
            return res
        if case["kind"] == "gauss":
            kw = {"m": case["m"]}
            if case["T"] is not None:
                kw["T"] = case["T"]
            if case.get("c") is not None:
                kw["c"] = case["c"]
            # spy `sg.fftconvolve` as seen from opticomlib.devices (library call = input of the model, DESIGN §2.2)
            import opticomlib.devices as dev
            real_sg = dev.sg
            seen = []

            class _Sg:
                def __getattr__(self, name):
                    if name != "fftconvolve":
                        return getattr(real_sg, name)

                    def spy(a, b, *args, **kwargs):
                        out = real_sg.fftconvolve(a, b, *args, **kwargs)
                        seen.append((np.array(a, copy=True), np.array(b, copy=True), kwargs.get("mode", args[0] if args else "full"),
                                     np.array(out, copy=True)))
                        return out
                    return spy
            dev.sg = _Sg()
            try:
                with time_limit(20):
                    y = DAC(case["bits"], Vout=case["vout"], bias=case["bias"], pulse_shape="gaussian", **kw)
            finally:
                dev.sg = real_sg
            twin = _outcome(DAC, _by_order(DAC_ORDER, {"input": list(case["bits"]), "bias": case["bias"], "Vout": case["vout"],
                                                        "pulse_shape": "gaussian", "BW": None}), kw)
            res["positional"] = _same_outcome(("ok", y), twin)
            sig = np.asarray(y.signal)
            res.update(status="ok", cls=type(y).__name__, n=int(sig.size), imag=float(np.max(np.abs(sig.imag))),
                       real=[float(v) for v in sig.real], imags=[float(v) for v in sig.imag], noise_none=y.noise is None)
            res["spied"] = len(seen)
            if len(seen) == 1:
                a, b, mode, out = seen[0]
                b = np.asarray(b, dtype=complex)
                out = np.asarray(out, dtype=complex)
                res.update(conv_mode=str(mode), s=[float(v) for v in np.asarray(a).real], s_dtype=str(np.asarray(a).dtype),
                           pulse_re=[float(v) for v in b.real], pulse_im=[float(v) for v in b.imag],
                           conv_re=[float(v) for v in out.real], conv_im=[float(v) for v in out.imag])
            with time_limit(20):
                s = SAMPLER(y, case["sps"] // 2)
            res["sampled"] = [float(v) for v in np.asarray(s.signal).real]
            res["positional_sampler"] = _same_outcome(_outcome(SAMPLER, (), {"input": y, "instant": case["sps"] // 2}),
                                                      _outcome(SAMPLER, _by_order(SAMPLER_ORDER, {"input": y, "instant": case["sps"] // 2}), {}))
            return res
        # wave / validate
        inp = build_input(case["form"], case["bits"])
        inp_copy = None if not isinstance(inp, np.ndarray) else inp.copy()
        kw = {k: to_py(v) for k, v in case["kw"].items()}
        prim = _outcome(DAC, (inp,), dict(bias=to_py(case["bias"]), Vout=to_py(case["vout"]), pulse_shape=case["shape"], **kw))
        try:
            inp2 = build_input(case["form"], case["bits"])
        except Exception:  # noqa  (binary_sequence form of invalid bits)
            inp2 = list(case["bits"])
        twin = _outcome(DAC, _by_order(DAC_ORDER, {"input": inp2, "bias": to_py(case["bias"]), "Vout": to_py(case["vout"]),
                                                    "pulse_shape": case["shape"], "BW": None}), kw)
        res["positional"] = _same_outcome(prim, twin)
        if prim[0] == "timeout":
            res.update(status="timeout", detail=prim[1])
            return res
        if prim[0] == "err":
            res.update(status="err", err=prim[1], detail=prim[2])
            return res
        y = prim[1]
        sig = np.asarray(y.signal)
        res.update(status="ok", cls=type(y).__name__, dtype=str(sig.dtype), noise_none=y.noise is None, n=int(sig.size))
        if sig.dtype.kind == "c":
            res["gaussian"] = True
            return res
        res["signal"] = [float(v) for v in sig]
        if inp_copy is not None:
            res["input_changed"] = not np.array_equal(inp, inp_copy)
        res["samples"] = {}
        for k in case["ks"]:
            with time_limit(20):
                s = SAMPLER(y, k)
            res["samples"][str(k)] = {"signal": [float(v) for v in s.signal], "noise_none": s.noise is None,
                                      "cls": type(s).__name__}
            d = _same_outcome(_outcome(SAMPLER, (), {"input": y, "instant": k}), ("ok", s))
            if d:
                res["positional_sampler"] = d
        res["signal_after"] = [float(v) for v in np.asarray(y.signal)]
    except Timeout as e:
        res.update(status="timeout", detail=str(e))
    except Exception as e:  # noqa
        res.update(status="err", err=exc_enum(e), detail=repr(e)[:200])
    finally:
        gv.clean()
    return res


# ---------------------------------------------------------------------------------------------------------------------
# model
# ---------------------------------------------------------------------------------------------------------------------

def _rat(x):
    q = Fraction(float(x))
    return f"{q.numerator}/{q.denominator}"


def _rats(xs):
    return " ".join([str(len(xs))] + [_rat(x) for x in xs])


def _parse_rats(toks, i):
    n = int(toks[i])
    vals = []
    for t in toks[i + 1:i + 1 + n]:
        if "/" in t:
            a, b = t.split("/")
            vals.append(Fraction(int(a), int(b)))
        else:
            vals.append(Fraction(int(t)))
    return vals, i + 1 + n


def _run_request(case):
    st = shape_tok(case["shape"])
    toks = [to_tok(case["kw"].get(k)) for k in ("c", "m", "T")] + [to_tok(case["vout"]), to_tok(case["bias"])]
    if st is None or any(t is None for t in toks):
        return None
    if any((not isinstance(b, int)) or b < 0 for b in case["bits"]):
        return None
    return f"dac.run {st} {case['sps']} " + " ".join(toks) + " " + " ".join([str(len(case["bits"]))] + [str(b) for b in case["bits"]])


def model_requests(case, res):
    reqs = []
    if case["kind"] == "sampler":
        r = f"dac.sampler {case['k']} {case['sps']} {_rats(case['sig'])} "
        r += "0" if case["noise"] is None else "1 " + _rats(case["noise"])
        return [r]
    if case["kind"] == "gauss":
        if res.get("status") != "ok" or case["sps"] < 2:
            return []
        T = case["sps"] if case["T"] is None else case["T"]
        c = 0.0 if case.get("c") is None else float(case["c"])
        return [f"dacg.run {case['sps']} {case['m']} {T} {enc_f(c)} {enc_f(float(case['vout']))} {enc_f(float(case['bias']))} "
                + " ".join([str(len(case['bits']))] + [str(b) for b in case['bits']])]
    r = _run_request(case)
    if r is None:
        return []
    reqs.append(r)
    if res.get("status") == "ok" and "signal" in res and all(math.isfinite(x) for x in res["signal"]):
        vq, bq = numeric(case["vout"]), numeric(case["bias"])
        for k in case["ks"]:
            reqs.append(f"dac.sampler {k} {case['sps']} {_rats(res['signal'])} 0")
            if vq is not None and bq is not None and case["vout"]["t"] == "float" and case["bias"]["t"] == "float":
                reqs.append(f"dac.roundtrip {shape_tok(case['shape'])} {case['sps']} {_rat(case['vout']['v'])} "
                            f"{_rat(case['bias']['v'])} {k} " + " ".join([str(len(case['bits']))] + [str(b) for b in case['bits']]))
    return reqs


def _decide(vals, vout, bias):
    return "".join("1" if (x - (bias + vout / 2)) * vout > 0 else "0" for x in vals)


def _eq_exact(model_vals, impl_vals):
    """model rationals vs implementation floats: the float must be the correctly rounded rational"""
    if len(model_vals) != len(impl_vals):
        return f"length {len(model_vals)} vs {len(impl_vals)}"
    for i, (q, x) in enumerate(zip(model_vals, impl_vals)):
        if not math.isfinite(x) or (Fraction(x) != q and float(q) != x):      # NaN / inf never equals a model value
            return f"sample {i}: model {q} ({float(q)!r}), implementation {x!r}"
    return None


def _flist(toks, i):
    n = int(toks[i])
    return [u2f(int(t)) for t in toks[i + 1:i + 1 + n]], i + 1 + n


def _clist(toks, i):
    n = int(toks[i])
    v = [u2f(int(t)) for t in toks[i + 1:i + 1 + 2 * n]]
    return [complex(v[2 * j], v[2 * j + 1]) for j in range(n)], i + 1 + 2 * n


def _compare_gauss(case, res, rep):
    """Float model of the Gaussian branch against what the code handed to / got from fftconvolve and returned"""
    out = []
    if not rep.startswith("ok "):
        return [f"gaussian: model {rep[:80]!r}, implementation ok"]
    if res.get("spied") != 1 or res.get("conv_mode") != "same":
        return [f"gaussian: fftconvolve called {res.get('spied')} times with mode {res.get('conv_mode')!r} (model: once, 'same')"]
    parts = [q.split() for q in rep[3:].split("|")]
    ms, _ = _flist(parts[0], 0)
    mp, _ = _clist(parts[1], 0)
    mx, _ = _clist(parts[2], 0)
    if ms != res["s"]:
        k = next((i for i, (a, b) in enumerate(zip(ms, res["s"])) if a != b), None)
        out.append(f"impulse train: model/implementation differ (lengths {len(ms)}/{len(res['s'])}, first at {k})")
    ip = [complex(a, b) for a, b in zip(res["pulse_re"], res["pulse_im"])]
    if len(mp) != len(ip):
        out.append(f"pulse: {len(mp)} model samples, {len(ip)} implementation samples")
    else:
        for i, (a, b) in enumerate(zip(mp, ip)):
            if not (abs(a - b) <= 1e-9):           # `not <=` so that a NaN is reported
                out.append(f"pulse[{i}]: model {a!r}, implementation {b!r}")
                break
    ix = [complex(a, b) for a, b in zip(res["real"], res["imags"])]
    scale = max(1.0, abs(float(case["vout"])), abs(float(case["bias"])))
    if len(mx) != len(ix):
        out.append(f"x: {len(mx)} model samples, {len(ix)} implementation samples")
    else:
        tol = 1e-9 * scale * max(len(ix), 1)
        for i, (a, b) in enumerate(zip(mx, ix)):
            if not (abs(a - b) <= tol):
                out.append(f"x[{i}]: model {a!r}, implementation {b!r} (direct convolution vs fftconvolve, tol {tol:.1e})")
                break
    return out


def compare(case, res, reqs, replies):
    out = []
    if not reqs:
        return out
    if case["kind"] == "sampler":
        rep = replies[0]
        if res["status"] == "err":
            return [] if rep == "err " + res["err"] else [f"SAMPLER: model {rep[:80]!r}, implementation err {res['err']}"]
        if res["status"] != "ok":
            return [f"SAMPLER: implementation {res['status']}"]
        if not rep.startswith("ok "):
            return [f"SAMPLER: model {rep[:80]!r}, implementation ok"]
        t = rep.split()
        sig, i = _parse_rats(t, 1)
        d = _eq_exact(sig, res["signal"])
        if d:
            out.append("SAMPLER signal " + d)
        hn = t[i]
        if (hn == "1") != (res["noise"] is not None):
            out.append(f"SAMPLER noise presence: model {hn}, implementation {res['noise'] is not None}")
        elif hn == "1":
            nz, _ = _parse_rats(t, i + 1)
            d = _eq_exact(nz, res["noise"])
            if d:
                out.append("SAMPLER noise " + d)
        return out
    if case["kind"] == "gauss":
        return _compare_gauss(case, res, replies[0])
    # wave / validate
    rep = replies[0]
    if res["status"] == "err":
        if rep != "err " + res["err"]:
            out.append(f"DAC: model {rep[:80]!r}, implementation err {res['err']} ({res.get('detail')})")
        return out
    if res["status"] != "ok":
        return [f"DAC: implementation {res['status']}"]
    if res.get("gaussian"):
        if rep != "ok gaussian":
            out.append(f"DAC gaussian accepted by the implementation, model {rep[:80]!r}")
        return out
    if not rep.startswith("ok ") or rep == "ok gaussian":
        return [f"DAC: model {rep[:80]!r}, implementation ok"]
    vals, _ = _parse_rats(rep.split(), 1)
    d = _eq_exact(vals, res["signal"])
    if d:
        out.append("DAC " + d)
    pos = 1
    vq, bq = numeric(case["vout"]), numeric(case["bias"])
    if len(replies) == 1:
        return out          # no SAMPLER requests were sent (non-finite DAC output: already reported above / by the oracle)
    for k in case["ks"]:
        rep = replies[pos]
        pos += 1
        got = res["samples"][str(k)]
        if not rep.startswith("ok "):
            out.append(f"SAMPLER(k={k}): model {rep[:80]!r}, implementation ok")
        else:
            t = rep.split()
            sv, i = _parse_rats(t, 1)
            d = _eq_exact(sv, got["signal"])
            if d:
                out.append(f"SAMPLER(k={k}) " + d)
            if (t[i] == "0") != got["noise_none"]:
                out.append(f"SAMPLER(k={k}) noise presence differs")
        if vq is not None and bq is not None and case["vout"]["t"] == "float" and case["bias"]["t"] == "float":
            rep = replies[pos]
            pos += 1
            vout, bias = float(case["vout"]["v"]), float(case["bias"]["v"])
            if vout != 0.0:
                want = "ok " + _decide(got["signal"], vout, bias)
                if rep != want:
                    out.append(f"round trip k={k}: model {rep[:80]!r}, implementation {want[:80]!r}")
    return out


# ---------------------------------------------------------------------------------------------------------------------
# oracle: the property stated on what the real code returned (independent of the Lean model)
# ---------------------------------------------------------------------------------------------------------------------

def _close(a, b, scale=1.0):
    return abs(a - b) <= 4 * 2.0 ** -52 * max(abs(a), abs(b), scale, 1e-300)


def _demanded_error(case):
    """exception the *documented* rules demand, or None if they demand none / leave it open.
    Order: the statement lists no order, so only single-fault requests are demanded."""
    faults = []
    shape = case["shape"]
    known = isinstance(shape, str) and shape in NRZ + RZ + GAUSS
    bits_ok = all(b in (0, 1) for b in case["bits"]) and len(case["bits"]) > 0
    if not bits_ok:
        return "skip"
    if not known:
        faults.append("ValueError")

    def level(d):
        t = d["t"]
        if t in ("str", "list", "complex"):
            return "TypeError"          # not a scalar (complex: "scalar" in the docstring means a real number; code agrees)
        if t in ("int", "float", "npfloat"):
            if abs(float(d["v"])) > 48:
                return "ValueError"
            if abs(float(d["v"])) == 48:
                return "open"           # docstring says "[-48, 48]", quantifier says (-48, 48): boundary not demanded
            return None
        if t == "inf":
            return "ValueError"
        if t in ("bool", "npint"):
            return "open"               # documented neither way
        return None                     # None: documented default path

    for key in ("vout", "bias"):
        f = level(case[key])
        if f == "open":
            return "skip"
        if f:
            faults.append(f)
    if known and shape in GAUSS:
        sps = case["sps"]
        for name, d in case["kw"].items():
            t = d["t"]
            if name == "c":
                if t in ("str", "list", "None"):
                    faults.append("TypeError")
                elif t in ("complex", "npint", "bool"):
                    return "skip"
            else:
                if t in ("float", "npfloat", "str", "list", "None", "complex"):
                    faults.append("TypeError")
                elif t in ("bool", "npint"):
                    return "skip"
                elif t == "int":
                    v = int(d["v"])
                    if name == "m" and v < 1:
                        faults.append("ValueError")
                    if name == "T" and (v <= 0 or v > 2 * sps):
                        faults.append("ValueError")
    if not faults:
        return None
    if len(set(faults)) == 1:
        return faults[0]
    return "either"


def oracle(case, res):
    v = []
    if res.get("status") == "timeout":
        return [("C05:timeout", f"{case['kind']} did not return: {res.get('detail')}")]
    if "gv_sps" in res and case["kind"] in ("wave", "validate", "sampler", "gauss"):
        conf = _gv_conf(case)
        want_fs = conf["fs"] if "fs" in conf else conf["R"] * int(round(conf["sps"]))
        if res["gv_sps_type"] != "int" or res["gv_sps"] != case["sps"] or not (res["gv_fs"] == want_fs):
            return [("C05:gv-config", f"gv({conf}) reports sps={res['gv_sps']!r} ({res['gv_sps_type']}), fs={res['gv_fs']!r}; "
                     f"required int sps={case['sps']}, fs={want_fs!r}")]
    if res.get("positional"):
        v.append(("C05:positional:DAC", f"DAC called with {DAC_ORDER} positionally differs from the keyword call "
                  f"(bits={case.get('bits')}, Vout={case.get('vout')}, bias={case.get('bias')}, shape={case.get('shape', 'gaussian')!r}): "
                  f"{res['positional']}"))
    if res.get("positional_sampler"):
        v.append(("C05:positional:SAMPLER", f"SAMPLER(input, instant) positionally differs from SAMPLER(input=, instant=): "
                  f"{res['positional_sampler']}"))
    if v:
        return v
    kind = case["kind"]
    if kind == "sampler":
        sps, k, sig, noise = case["sps"], case["k"], case["sig"], case["noise"]
        if not (0 <= k < len(sig)):
            return v        # outside the statement (k in [0, sps) on a non-empty selection)
        want = [sig[i] for i in range(k, len(sig), sps)]
        if res["status"] != "ok":
            return [("C05:sampler-accept", f"SAMPLER(len={len(sig)}, k={k}, sps={sps}) failed: {res}")]
        if res["signal"] != want:
            v.append(("C05:sampler-signal", f"SAMPLER(k={k}, sps={sps}) signal {res['signal'][:8]} != samples k,k+sps,.. {want[:8]}"))
        if noise is None:
            if res["noise"] is not None:
                v.append(("C05:sampler-noise", "noise appeared from nowhere"))
        else:
            wn = [noise[i] for i in range(k, len(noise), sps)]
            if res["noise"] != wn:
                v.append(("C05:sampler-noise", f"SAMPLER(k={k}, sps={sps}) noise {res['noise'] and res['noise'][:8]} != {wn[:8]}"))
        if res["cls"] != "electrical_signal":
            v.append(("C05:sampler-type", f"result type {res['cls']}"))
        if res.get("aliased"):
            v.append(("C05:sampler-alias", "SAMPLER output shares memory with its input"))
        return v
    if kind == "gauss":
        sps, T, m, bits, vout, bias = case["sps"], case["T"], case["m"], case["bits"], float(case["vout"]), float(case["bias"])
        if res["status"] != "ok":
            return [("C05:gauss-accept", f"valid Gaussian request sps={sps} T={T} m={m} failed: {res}")]
        if res["n"] != len(bits) * sps:
            v.append(("C05:gauss-len", f"{res['n']} samples, required {len(bits) * sps}"))
            return v
        if case.get("c") not in (None, 0, 0.0):
            return v            # chirped pulse: only the length is demanded here (the waveform is tied to the model by `compare`)
        if not all(math.isfinite(x) for x in res["real"] + res["sampled"]):
            return v + [("C05:gauss-nonfinite", f"sps={sps} T={T} m={m}: the Gaussian waveform contains NaN/inf")]
        if not (res["imag"] <= 1e-9 * max(1.0, abs(vout))):
            v.append(("C05:gauss-imag", f"chirp-free pulse has imaginary part {res['imag']}"))
        y = [(x - bias) / vout for x in res["real"]]
        Teff = sps if T is None else T
        ones = [j for j, b in enumerate(bits) if b]
        isolated = len(ones) == 1 and 3 <= ones[0] <= len(bits) - 4
        # every 1 with no other 1 within three slots is an isolated 1, whatever else the sequence holds (runs of adjacent 1s
        # elsewhere) and wherever it sits - first / last slot and 1- or 2-bit sequences included: each is judged by its OWN
        # pulse, an edge pulse on the part of it that lies inside the record
        n_smp = len(y)
        lone = [j for j in ones if not any(bits[q] for q in range(max(j - 3, 0), min(j + 4, len(bits))) if q != j)]
        if lone and sps >= 8 and sps / 2 <= Teff <= 2 * sps and 1 <= m <= 4:
            for j in lone:
                lo, hi = max((j - 1) * sps, 0), min((j + 2) * sps, n_smp)     # the peak is searched around the slot only
                mx = max(y[lo:hi])
                plateau = [i for i in range(lo, hi) if y[i] >= mx - 1e-9]
                dpos = min(min(abs(i - (j * sps + sps / 2)), abs(i - (j * sps + (sps - 1) / 2))) for i in plateau)
                tag = f"sps={sps} T={Teff} m={m} Vout={vout} bits={bits} isolated 1 in slot {j}"
                if not (dpos <= 1):
                    v.append(("C05:gauss-centre", f"{tag}: peak at sample {plateau[0]}, slot centre {j * sps + sps / 2}"))
                if not (abs(mx - 1) <= 0.05):
                    v.append(("C05:gauss-peak", f"{tag}: its peak is {mx:.4f}·Vout"))
                if mx > 0:
                    # contiguous run of samples above half of this pulse's maximum, grown from its peak
                    i0 = i1 = plateau[0]
                    while i0 - 1 >= 0 and y[i0 - 1] >= mx / 2:
                        i0 -= 1
                    while i1 + 1 < n_smp and y[i1 + 1] >= mx / 2:
                        i1 += 1
                    # half-maximum points required at (centre -+ T/2) within one sample each; a side that leaves the record is
                    # judged at the record edge
                    centre = j * sps + (sps - 1) / 2
                    want0, want1 = centre - Teff / 2, centre + Teff / 2
                    bad0 = (i0 != 0) if want0 < -1 else not (abs(i0 - max(want0, 0)) <= 1.5)
                    bad1 = (i1 != n_smp - 1) if want1 > n_smp else not (abs(i1 - min(want1, n_smp - 1)) <= 1.5)
                    width = i1 - i0 + 1
                    inside = want0 >= 0 and want1 <= n_smp - 1
                    if (inside and not (abs(width - Teff) <= 1)) or (not inside and (bad0 or bad1)):
                        v.append(("C05:gauss-fwhm", f"{tag}: above half maximum on samples {i0}..{i1} ({width} samples), required "
                                  f"{max(want0, 0):.1f}..{min(want1, n_smp - 1):.1f}"))
                if v:
                    break
        # round trip at k = sps//2 (T <= sps: neighbouring pulses stay below half level; isolated ones: any T)
        if (Teff <= sps or isolated) and sps >= 8 and Teff >= sps / 2:
            dec = "".join("1" if (s - (bias + vout / 2)) * vout > 0 else "0" for s in res["sampled"])
            if dec != "".join(map(str, bits)):
                v.append(("C05:gauss-roundtrip", f"sps={sps} T={Teff} m={m} bits={bits}: sampled at sps//2 -> {dec}"))
        return v
    # ---- wave / validate
    bits, sps, shape = case["bits"], case["sps"], case["shape"]
    dem = _demanded_error(case)
    if dem == "skip":
        return v
    if dem is not None:
        if res["status"] != "err" or (dem != "either" and res["err"] != dem) or res.get("err") not in ("TypeError", "ValueError"):
            v.append(("C05:reject", f"DAC(shape={shape!r}, Vout={case['vout']}, bias={case['bias']}, kw={case['kw']}) must raise "
                      f"{dem}, got {str(res)[:120]}"))
        return v
    if res["status"] != "ok":
        return [("C05:accept", f"valid request DAC(bits={bits}, sps={sps}, shape={shape!r}, Vout={case['vout']}, "
                 f"bias={case['bias']}, kw={case['kw']}) failed: {res}")]
    if res["cls"] != "electrical_signal" or not res["noise_none"]:
        v.append(("C05:type", f"result {res['cls']}, noise_none={res['noise_none']}"))
    if res["n"] != len(bits) * sps:
        v.append(("C05:len", f"{res['n']} samples, required len(bits)*sps = {len(bits) * sps}"))
        return v
    if res.get("gaussian"):
        return v
    vq, bq = case["vout"], case["bias"]
    vout = 1.0 if vq["t"] == "None" else float(vq["v"])
    bias = 0.0 if bq["t"] == "None" else float(bq["v"])
    sig = res["signal"]
    if not all(math.isfinite(x) for x in sig):
        return v + [("C05:nonfinite", f"sps={sps} shape={shape} Vout={case['vout']} bias={case['bias']}: the waveform contains NaN/inf")]
    duty = sps // 2
    for j, b in enumerate(bits):
        hi = bias + vout * b
        for i in range(sps):
            want = hi if (shape in NRZ or i < duty) else bias
            if not _close(sig[j * sps + i], want, abs(vout) + abs(bias)):
                v.append(("C05:slot-" + ("nrz" if shape in NRZ else "rz"),
                          f"sps={sps} shape={shape} bits={bits} Vout={vout} bias={bias}: sample {i} of slot {j} is "
                          f"{sig[j * sps + i]!r}, required {want!r}"))
                break
        if v:
            break
    if res.get("input_changed"):
        v.append(("C05:input-mutated", "DAC changed its ndarray argument"))
    if res.get("signal_after") is not None and res["signal_after"] != sig:
        v.append(("C05:sampler-mutates", "SAMPLER changed the samples of its input"))
    for k in case["ks"]:
        got = res["samples"][str(k)]
        want = [sig[i] for i in range(k, len(sig), sps)]
        if got["signal"] != want or not got["noise_none"] or got["cls"] != "electrical_signal":
            v.append(("C05:sampler-signal", f"SAMPLER(DAC, k={k}) != samples k, k+sps, …"))
        inside = shape in NRZ or k < duty
        if inside and vout != 0.0 and vq["t"] != "None" and bq["t"] != "None":
            dec = _decide(got["signal"], vout, bias)
            if dec != "".join(map(str, bits)):
                v.append(("C05:roundtrip-" + ("nrz" if shape in NRZ else "rz"),
                          f"sps={sps} shape={shape} k={k} Vout={vout} bias={bias}: bits {bits} came back as {dec}"))
    return v


def features(case, res):
    f = ["kind=" + case["kind"], "status=" + res.get("status", "?")]
    if res.get("status") == "err":
        f.append("err=" + res["err"])
    sps = case["sps"]
    f.append("gv(" + ",".join(sorted(_gv_conf(case))) + ")" + ("" if Fraction(_gv_conf(case).get("R", 1e9)).denominator == 1 else ":R-non-integer"))
    f.append("sps=" + ("1" if sps == 1 else "odd" if sps % 2 else "pow2" if sps & (sps - 1) == 0 else "even"))
    if case["kind"] in ("wave", "validate"):
        f.append(f"shape={case['shape']!r}"[:24])
        f.append("form=" + case["form"])
        f.append("vout:" + case["vout"]["t"])
        f.append("bias:" + case["bias"]["t"])
        for k, d in case["kw"].items():
            f.append(f"{k}:{d['t']}")
        if case["kind"] == "wave":
            f.append("nbits=" + ("1" if len(case["bits"]) == 1 else "2-8" if len(case["bits"]) <= 8 else ">8"))
    if case["kind"] == "sampler":
        f.append("noise=" + str(case["noise"] is not None))
        k = case["k"]
        f.append("k=" + ("neg" if k < 0 else "in-slot" if k < sps else "beyond-slot" if k < len(case["sig"]) else "beyond-end"))
    if case["kind"] == "gauss":
        f.append("chirp=" + ("0" if case.get("c") in (None, 0, 0.0) else "nonzero"))
        f.append(f"m={case['m']}")
        f.append("T=" + ("default" if case["T"] is None else "min" if case["T"] <= (sps + 1) // 2 else "max" if case["T"] == 2 * sps else "mid"))
    return f


def nontrivial_key(case, res):
    if case["kind"] != "wave" or res.get("status") != "ok" or "signal" not in res:
        return None
    if len(set(case["bits"])) < 2:
        return None
    return (case["shape"], case["sps"], tuple(case["bits"]), str(case["vout"]), str(case["bias"]))
