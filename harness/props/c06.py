"""C06 — MZM obeys its passive transfer function; PM / laser phase terms are pure rotations."""
import math
import warnings

import numpy as np

from harness.common.wire import enc_f, enc_flist, exc_enum, Toks
from harness.common.watchdog import time_limit, Timeout
from harness.props import _optfield as F

ID = "C06"
MANIFEST = {
    "text": "Lean 4 theorems (Props/C06.lean) over ONE generic model (Model/Modulators.lean, written over an abstract carrier and "
            "read at R:=Real for the proofs, at R:=Float for execution) whose every arithmetic formula (idb/idbm, loss, eta, g_t, "
            "Re/Im of h_t, PM phase for signal and for noise, laser amplitude/sigmas/exponents/limits) is translated from the source "
            "on every run (tools/extractors/optdev.py -> Gen/OptDev.lean) and pinned to the documented formulas by theorems: "
            "the factor equals sqrt(loss)(cos th + j 10^(-ER/20) sin th) in C; |out_k|^2 <= loss |in_k|^2 for every sample of every "
            "row of signal and noise, all drives/containers/bias/Vpi, ER_dB>=0 (never amplifies for loss_dB>=0); on/off ratio = "
            "10^(ER/10); h(u+2Vpi) = -h(u) hence 2Vpi-periodic output power (whole device); noise modulated like the signal; "
            "unselected polarisation all-zero and selected one treated as a 1-pol input; container forms agree, length-1 broadcast, "
            "mismatch <=> ValueError; PM: factor = exp(j pi u/Vpi), |total field|^2 unchanged sample by sample (signal+noise), "
            "PM(PM(x,a),b)=PM(x,a+b) for every container mix, ValueError on mismatch; LASER: |E_k|^2 = P for all recorded draws "
            "(and = P(1+r_k) with RIN), Nyquist rejection, DFT of the on-grid CW laser = single line n^2 P at df; MZM with BW = C11 bpf "
            "after mzm, linear in the field, length preserved.  Tie: Float run of the same definitions against the real devices on random "
            "fields (1/2 pol, +-noise incl. zero-sum noise, real/int/complex dtype), every drive container kind, both pol; "
            "np.random.normal draws of LASER spied and replayed, their scale arguments compared with the model's sigma.",
    "note": "Trusted: Lean kernel + Mathlib, translator tools/extractors/optdev.py (real/complex expression -> Lean term), harness, numpy complex arithmetic = textbook formulas up to 1e-9 relative "
            "(10**x modelled as exp(x ln 10); numpy's complex division multiplies by the reciprocal), libm. "
            "Spectral peak of the laser at df: theorem for on-grid offsets (with C02's DFT model), oracle for the rest. BW = C11's filter model composed after mzm (coefficients spied). "
            "Axioms: propext, Classical.choice, Quot.sound.",
    "technique": "Lean 4 proof over a generic numeric model (algebra over R/C for all parameters, induction over sample lists); "
                 "Float differential correspondence run with spied random draws",
    "design": "§5 C06",
}
GEN = ["OptDev"]
RULE = ("cases = device call sequences on a random optical field (N in {1,2,3,5,8,16,33,64,..}, 1/2 pol, noise none/random/zero-sum/"
        "all-zero, dtype complex/float/int) x drive container kind (int,float,bool,np.float64,ndarray,int ndarray,list,tuple,str,"
        "electrical_signal with/without noise, length-1 forms, mismatched lengths) x (bias,Vpi,loss_dB,ER_dB in the statement's ranges "
        "incl. ER 0/60, loss 0) x pol x/y/invalid; kinds: mzm, mzm_per (u vs u+2Vpi), mzm_er (on/off), mzm_forms / pm_forms "
        "(one waveform through every container), pm, pm_add (PM(PM(x,a),b) vs PM(x,a+b); also with a+b formed from the caller's live "
        "objects after the calls), pm_repeat / mzm_repeat (the SAME drive object used again; operands-unchanged monitor on every drive), laser (lw/rin/df present or not; time argument "
        "float64 / float32 / int32 / int64), mzm_bw "
        "(BW given, partly from a small fixed set so that it recurs under different sampling rates, N around the filter padding 15, scipy "
        "sections spied, reference = Bessel filter designed afresh by scipy), mzm_bw_hist (one BW under 2-3 sampling rates in sequence and back). "
        "non-trivial = accepted call with N>=2 and a non-zero field; distinct by (kind, n_pol, noise kind, dtype, drive kinds, N, pol)")
PARTIAL = [
    "LASER spectral peak at df: THEOREM (laser_spectral_peak, through the Fourier model of C02) only for on-grid offsets "
    "df = k0*fs/n on the grid t_j = j/fs without phase noise and without RIN (|X_k|^2 = n^2 P in bin k0 mod n, 0 elsewhere); "
    "off-grid df (spectral leakage: the FFT peak of the returned samples lies within one bin of df) and the phase-noise case "
    "(lw*N/fs <= 0.01) remain oracle-only",
    "optional BW argument of MZM: modelled as C11's Filter.bpf after mzm with the sections / zi / pad length spied from scipy "
    "(theorems mzm_bw_*: definitional composition, rows alike, length, linearity in the field, short-row ValueError); scipy's Bessel "
    "design itself stays a parameter exactly as in C11, so nothing is claimed about the shape of the filter response",
    "floating-point rounding: theorems are over the reals; the Float run agrees with numpy to 1e-9 relative",
]
ASSUMPTIONS = [
    "numpy computes complex*complex, real*complex, cos, sin, exp, sqrt, 10**x as the textbook formulas up to a few ulp",
    "the driver evaluates the same Lean definitions the theorems are about (Lean code generator, Float instance of Transc)",
    "optical_signal keeps signal and noise arrays of equal shape (Field.WF); checked on every returned object by the oracle",
]
BUDGET = {"quick": 120, "thorough": 900}
EXHAUSTIVE = {"quick": False, "thorough": False}

BW_FIXED = [2e9, 3e9, 4e9, 10e9, 25e9]
# documented positional order of the anchored functions (signatures of /repo HEAD 8caea4c, recorded here as literals)
POSITIONAL = {
    "MZM": ["op_input", "el_input", "bias", "Vpi", "loss_dB", "ER_dB", "pol", "BW"],
    "PM": ["op_input", "el_input", "Vpi"],
    "LASER": ["t", "p", "lw", "rin", "df"],
}
SCALAR_KINDS = ["int", "float", "bool", "npfloat"]
ARRAY_KINDS = ["ndarray", "ndarray_int", "list", "tuple", "str", "esig", "esig_noise"]
WIRE_KIND = {"int": "s", "float": "s", "bool": "s", "npfloat": "s", "ndarray": "a", "ndarray_int": "a",
             "list": "q", "tuple": "q", "str": "q", "esig": "e", "esig_noise": "e"}


# ------------------------------------------------------------------------------------------------
# drives
# ------------------------------------------------------------------------------------------------

def _dyadic(rng, lo=-80, hi=80):
    return rng.randrange(lo, hi + 1) / 8.0


def gen_drive(rng, kind, n):
    """JSON spec of a drive of `n` samples in container `kind` (values chosen representable in every container)"""
    if kind == "int":
        return {"kind": kind, "v": [float(rng.randrange(-9, 10))]}
    if kind == "bool":
        return {"kind": kind, "v": [float(rng.randrange(0, 2))]}
    if kind in ("float", "npfloat"):
        return {"kind": kind, "v": [rng.choice([_dyadic(rng), rng.uniform(-12, 12)])]}
    if kind == "ndarray_int":
        return {"kind": kind, "v": [float(rng.randrange(-9, 10)) for _ in range(n)]}
    if kind == "str":
        v = [_dyadic(rng) for _ in range(n)]
        if all(x in (0.0, 1.0) for x in v) or all(float(x).is_integer() for x in v):
            v[0] = 0.125 + v[0]     # keep the text a float list (an all-integer text parses as int/bool: fine, but keep it simple)
        return {"kind": kind, "v": v}
    v = [rng.choice([_dyadic(rng), rng.uniform(-12, 12)]) for _ in range(n)]
    d = {"kind": kind, "v": v}
    if kind == "esig_noise":
        d["noise"] = [rng.gauss(0, 1) for _ in range(n)]
    return d


def convert_drive(d, kind):
    """the same waveform in another container (for the *_forms cases)"""
    out = {"kind": kind, "v": list(d["v"])}
    if kind == "esig_noise":
        out["noise"] = [0.5 * (k % 3) - 0.25 for k in range(len(d["v"]))]
    return out


def build_drive(d):
    from opticomlib.typing import electrical_signal
    k, v = d["kind"], d["v"]
    if k == "int":
        return int(v[0])
    if k == "bool":
        return bool(v[0])
    if k == "float":
        return float(v[0])
    if k == "npfloat":
        return np.float64(v[0])
    if k == "ndarray":
        return np.array(v, dtype=float)
    if k == "ndarray_int":
        return np.array([int(x) for x in v], dtype=int)
    if k == "list":
        return [float(x) for x in v]
    if k == "tuple":
        return tuple(float(x) for x in v)
    if k == "str":
        return " ".join(repr(float(x)) for x in v)
    if k == "esig":
        return electrical_signal(np.array(v, dtype=float))
    if k == "esig_noise":
        return electrical_signal(np.array(v, dtype=float), np.array(d["noise"], dtype=float))
    raise ValueError(k)


def enc_drive(d):
    w = WIRE_KIND[d["kind"]]
    if w == "s":
        return "s " + enc_f(d["v"][0])
    if w == "e":
        if d.get("noise") is not None:
            return "e " + enc_flist(d["v"]) + " 1 " + enc_flist(d["noise"])
        return "e " + enc_flist(d["v"]) + " 0"
    return w + " " + enc_flist(d["v"])


def drive_samples(d, n):
    """reference waveform of a drive against n samples, or None when the lengths do not fit (mzm rule: length 1 broadcasts)"""
    v = np.array(d["v"], dtype=float)
    if v.size == n:
        return v
    if v.size == 1:
        return np.full(n, v[0])
    return None


# ------------------------------------------------------------------------------------------------
# generation
# ------------------------------------------------------------------------------------------------

LENS_Q = [1, 2, 3, 5, 8, 16, 33, 64]


def _params(rng):
    return {
        "bias": rng.choice([0.0, _dyadic(rng, -40, 40), rng.uniform(-6, 6)]),
        "Vpi": rng.choice([5.0, 1.0, 3.5, rng.uniform(0.3, 9.0)]),
        "ld": rng.choice([0.0, 0.0, 2.0, 3.0, rng.uniform(0, 12)]),
        "er": rng.choice([0.0, 60.0, 26.0, 30.0, rng.uniform(0, 60)]),
    }


def _field(rng, lens):
    n = rng.choice(lens)
    npol = rng.choice([1, 2])
    nk = rng.choice(["none", "none", "random", "random", "zerosum", "zero"])
    dt = rng.choice(["complex", "complex", "complex", "float", "int"])
    sc = rng.choice([1.0, 1.0, 1e-3, 30.0])
    # one in five two-polarisation fields is x-only / y-only (dark row) while the noise, if any, fills both rows
    dark = rng.choice([0, 1]) if (npol == 2 and rng.random() < 0.2) else None
    return F.gen_field(rng, n, npol, nk, dt, sc, dark)


def gen_cases(rng, tier):
    cases = []
    lens = LENS_Q if tier == "quick" else LENS_Q + [7, 31, 127, 256, 1000]
    reps = 3 if tier == "quick" else 30
    for _ in range(reps):
        # MZM: every drive kind x a few fields
        for kind in SCALAR_KINDS + ARRAY_KINDS:
            for _ in range(6):
                fld = _field(rng, lens)
                p = _params(rng)
                pol = rng.choice(["x", "y"])
                cases.append({"kind": "mzm", "field": fld,
                              "calls": [dict(dev="mzm", drive=gen_drive(rng, kind, fld["n"]), pol=pol, **p)]})
        # length-1 array forms (broadcast) and mismatched lengths, invalid pol
        for kind in ARRAY_KINDS:
            for _ in range(2):
                fld = _field(rng, [n for n in lens if n >= 2])
                cases.append({"kind": "mzm", "field": fld,
                              "calls": [dict(dev="mzm", drive=gen_drive(rng, kind, 1), pol=rng.choice(["x", "y"]), **_params(rng))]})
            for m in ["n+1", "n-1", "2n", "2"]:
                fld = _field(rng, lens)
                n = fld["n"]
                mm = {"n+1": n + 1, "n-1": n - 1, "2n": 2 * n, "2": 2}[m]
                if mm < 1:
                    continue
                cases.append({"kind": "mzm", "field": fld,
                              "calls": [dict(dev="mzm", drive=gen_drive(rng, kind, mm), pol=rng.choice(["x", "y"]), **_params(rng))]})
        for pol in ["z", "X", "xy", ""]:
            fld = _field(rng, lens)
            cases.append({"kind": "mzm", "field": fld,
                          "calls": [dict(dev="mzm", drive=gen_drive(rng, rng.choice(SCALAR_KINDS + ARRAY_KINDS), fld["n"]), pol=pol, **_params(rng))]})
        # periodicity, extinction ratio
        for _ in range(16):
            fld = _field(rng, lens)
            p = _params(rng)
            kind = rng.choice(["float", "ndarray", "list", "esig", "tuple"])
            d = gen_drive(rng, kind, fld["n"])
            d2 = dict(d, v=[u + 2 * p["Vpi"] for u in d["v"]])
            pol = rng.choice(["x", "y"])
            cases.append({"kind": "mzm_per", "field": fld,
                          "calls": [dict(dev="mzm", drive=d, pol=pol, **p), dict(dev="mzm", drive=d2, pol=pol, **p)]})
        for _ in range(12):
            n = rng.choice([1, 2, 5, 16])
            npol = rng.choice([1, 2])
            ang, mag = rng.uniform(0, 6.28), rng.uniform(0.1, 3)
            amp = [mag * math.cos(ang), mag * math.sin(ang)]
            fld = {"npol": npol, "n": n, "dtype": "complex", "noise_kind": "none",
                   "sig": [[list(amp) for _ in range(n)] for _ in range(npol)], "noise": None}
            p = _params(rng)
            pol = rng.choice(["x", "y"])
            on = {"kind": "float", "v": [-p["bias"]]}
            off = {"kind": "float", "v": [p["Vpi"] - p["bias"]]}
            cases.append({"kind": "mzm_er", "field": fld,
                          "calls": [dict(dev="mzm", drive=on, pol=pol, **p), dict(dev="mzm", drive=off, pol=pol, **p)]})
        # one waveform through every container
        for _ in range(6):
            fld = _field(rng, [n for n in lens if n >= 2])
            p = _params(rng)
            pol = rng.choice(["x", "y"])
            base = gen_drive(rng, "str", fld["n"])        # dyadic values: representable as text
            cases.append({"kind": "mzm_forms", "field": fld,
                          "calls": [dict(dev="mzm", drive=convert_drive(base, k), pol=pol, **p) for k in ARRAY_KINDS if k != "ndarray_int"]})
            v = float(rng.randrange(-6, 7))
            forms = [{"kind": "int", "v": [v]}, {"kind": "float", "v": [v]}, {"kind": "npfloat", "v": [v]}] + \
                    [{"kind": k, "v": [v] * fld["n"]} for k in ["ndarray", "ndarray_int", "list", "tuple", "esig"]] + \
                    [{"kind": k, "v": [v]} for k in ["ndarray", "list", "esig"]]
            cases.append({"kind": "mzm_forms", "field": fld, "calls": [dict(dev="mzm", drive=f, pol=pol, **p) for f in forms]})
            Vpi = p["Vpi"]
            cases.append({"kind": "pm_forms", "field": fld,
                          "calls": [dict(dev="pm", drive=f, Vpi=Vpi) for f in forms[:5] + [forms[7]]]})
            cases.append({"kind": "pm_forms", "field": fld,
                          "calls": [dict(dev="pm", drive=convert_drive(base, k), Vpi=Vpi) for k in ["ndarray", "esig", "esig_noise"]]})
        # PM
        for kind in SCALAR_KINDS + ARRAY_KINDS:
            for _ in range(4):
                fld = _field(rng, lens)
                cases.append({"kind": "pm", "field": fld,
                              "calls": [dict(dev="pm", drive=gen_drive(rng, kind, fld["n"]), Vpi=_params(rng)["Vpi"])]})
        for kind in ["ndarray", "ndarray_int", "esig", "esig_noise"]:
            for m in ["n+1", "n-1", "1", "2n"]:
                fld = _field(rng, [n for n in lens if n >= 2])
                n = fld["n"]
                mm = {"n+1": n + 1, "n-1": n - 1, "1": 1, "2n": 2 * n}[m]
                cases.append({"kind": "pm", "field": fld,
                              "calls": [dict(dev="pm", drive=gen_drive(rng, kind, mm), Vpi=_params(rng)["Vpi"])]})
        # PM additivity
        for _ in range(24):
            fld = _field(rng, lens)
            Vpi = _params(rng)["Vpi"]
            ka = rng.choice(["float", "int", "ndarray", "esig", "esig_noise", "ndarray_int"])
            kb = rng.choice(["float", "int", "ndarray", "esig", "esig_noise", "bool"])
            a = gen_drive(rng, ka, fld["n"])
            b = gen_drive(rng, kb, fld["n"])
            va, vb = drive_samples(a, fld["n"]), drive_samples(b, fld["n"])
            if WIRE_KIND[ka] == "s" and WIRE_KIND[kb] == "s":
                c = {"kind": "float", "v": [a["v"][0] + b["v"][0]]}
            else:
                c = {"kind": rng.choice(["ndarray", "esig"]), "v": [float(x) for x in (va + vb)]}
            cases.append({"kind": "pm_add", "field": fld,
                          "calls": [dict(dev="pm", drive=a, Vpi=Vpi), dict(dev="pm", drive=b, Vpi=Vpi, input=0),
                                    dict(dev="pm", drive=c, Vpi=Vpi)]})
        # the SAME drive object handed to the device again (results must be identical; the drive must come back untouched),
        # and PM(PM(x,a),b) vs PM(x,a+b) with a+b formed from the caller's own objects AFTER the first two calls
        for kind in ["ndarray", "ndarray", "ndarray_int", "esig", "esig_noise", "npfloat"]:
            fld = _field(rng, [n for n in lens if n >= 2])
            Vpi = _params(rng)["Vpi"]
            d = gen_drive(rng, kind, fld["n"])
            cases.append({"kind": "pm_repeat", "field": fld,
                          "calls": [dict(dev="pm", drive=d, Vpi=Vpi), dict(dev="pm", drive=d, Vpi=Vpi, drive_ref=0),
                                    dict(dev="pm", drive=d, Vpi=Vpi, drive_ref=0, input=0)]})
        for kind in ["ndarray", "ndarray_int", "esig", "esig_noise", "list"]:
            fld = _field(rng, [n for n in lens if n >= 2])
            p = _params(rng)
            pol = rng.choice(["x", "y"])
            d = gen_drive(rng, kind, fld["n"])
            cases.append({"kind": "mzm_repeat", "field": fld,
                          "calls": [dict(dev="mzm", drive=d, pol=pol, **p), dict(dev="mzm", drive=d, pol=pol, drive_ref=0, **p)]})
        for _ in range(6):
            fld = _field(rng, [n for n in lens if n >= 2])
            Vpi = _params(rng)["Vpi"]
            a = gen_drive(rng, rng.choice(["ndarray", "esig", "esig_noise"]), fld["n"])
            b = gen_drive(rng, rng.choice(["ndarray", "esig"]), fld["n"])
            c = {"kind": "ndarray", "v": [x + y for x, y in zip(a["v"], b["v"])]}
            cases.append({"kind": "pm_add", "field": fld,
                          "calls": [dict(dev="pm", drive=a, Vpi=Vpi), dict(dev="pm", drive=b, Vpi=Vpi, input=0),
                                    dict(dev="pm", drive=c, Vpi=Vpi, drive_sum=[0, 1])]})
    # MZM with the optional BW argument: BPF (C11 model, sections spied from scipy) after the modulation
    for _ in range(36 if tier == "quick" else 400):
        n = rng.choice([16, 17, 33, 64, 100, 16, 5, 15] if tier == "quick" else [16, 17, 33, 64, 100, 257, 1000, 15, 3])
        npol = rng.choice([1, 2])
        nk = rng.choice(["none", "random", "random", "zerosum"])
        fld = F.gen_field(rng, n, npol, nk, rng.choice(["complex", "complex", "float"]), rng.choice([1.0, 1e-3, 30.0]))
        p = _params(rng)
        sps = rng.choice([4, 8, 16, 32])
        R = rng.choice([1e9, 2.5e9, 10e9])
        kind = rng.choice(["float", "int", "ndarray", "esig", "esig_noise", "list", "ndarray_int"])
        m = n if rng.random() < 0.9 else n + 1         # a few length mismatches: MZM's own check comes first
        bw = rng.uniform(0.04, 0.95) * sps * R
        if rng.random() < 0.5:
            # a small fixed set, so that the same BW value recurs in one process under different sampling rates
            fit = [b for b in BW_FIXED if b < 0.9 * sps * R]
            bw = rng.choice(fit) if fit else bw
        cases.append({"kind": "mzm_bw", "field": fld, "sps": sps, "R": R, "BW": bw,
                      "calls": [dict(dev="mzm", drive=gen_drive(rng, kind, m), pol=rng.choice(["x", "y"]), **p)]})
    # histories: MZM(..., BW) with the SAME BW under 2-3 sampling rates in sequence and back to the first, within one run_impl
    for _ in range(8 if tier == "quick" else 60):
        n = rng.choice([16, 33, 64, 128])
        rates = rng.sample([(4, 1e9), (8, 1e9), (16, 1e9), (32, 1e9), (4, 2.5e9), (16, 2.5e9), (8, 10e9), (64, 1e9)], rng.choice([2, 3]))
        seq = rates + [rates[0]]
        fmin = min(a * b for a, b in seq)
        bw = rng.choice([b for b in BW_FIXED if b < 0.9 * fmin] + [rng.uniform(0.1, 0.85) * fmin])
        fld = F.gen_field(rng, n, rng.choice([1, 2]), rng.choice(["none", "random", "zerosum"]), "complex", 1.0)
        kind = rng.choice(["float", "ndarray", "esig", "list"])
        cases.append({"kind": "mzm_bw_hist", "field": fld, "BW": bw, "seq": [[a, b] for a, b in seq],
                      "calls": [dict(dev="mzm", drive=gen_drive(rng, kind, n), pol=rng.choice(["x", "y"]), **_params(rng))]})
    # LASER
    nl = 90 if tier == "quick" else 50 * 8
    for i in range(nl):
        sps = rng.choice([4, 8, 16])
        R = rng.choice([1e9, 2.5e9, 10e9, 1e6])
        fs = sps * R
        n = rng.choice([1, 2, 16, 64, 128, 256] if tier == "quick" else [1, 2, 16, 64, 255, 256, 1024, 4096])
        lw = rng.choice([None, None, 1e3, 1e6, 10e6, 1e-4 * fs])
        rin = rng.choice([None, None, None, -140.0, -150.0, -120.0])
        mode = rng.choice(["none", "bin", "any", "any", "edge", "out"])
        if mode == "none":
            df = None
        elif mode == "bin":
            df = rng.randrange(-(n // 2), n // 2 + 1) * fs / max(n, 1)
        elif mode == "any":
            df = rng.uniform(-0.49, 0.49) * fs
        elif mode == "edge":
            df = rng.choice([-0.5, 0.5]) * fs
        else:
            df = rng.choice([-1, 1]) * rng.uniform(0.51, 2) * fs
        if i % 10 == 0:
            rin = rng.choice([-60.0, -80.0])     # strong RIN: may hit the `min() < -1` rejection
        # dtype of the time argument: the documented float64 grid j*dt, the same grid in float32, or an INTEGER grid
        # (np.arange(N), int32/int64: a sample-index / integer-unit time axis; the offset is then in cycles per unit of t)
        tdtype = rng.choice(["float64", "float64", "float64", "float32", "int32", "int64"])
        if tdtype.startswith("int"):
            dmode = rng.choice(["none", "bin", "any", "edge"])
            df = {"none": None, "bin": rng.randrange(-(n // 2), n // 2 + 1) / max(n, 1), "any": rng.uniform(-0.49, 0.49),
                  "edge": rng.choice([-0.5, 0.5])}[dmode]
        cases.append({"kind": "laser", "field": None, "sps": sps, "R": R, "n": n, "tdtype": tdtype,
                      "p": rng.choice([0.0, 10.0, -3.0, 30.0, 33.0, rng.uniform(-20, 20)]), "lw": lw, "rin": rin, "df": df,
                      "np_seed": rng.randrange(1 << 31), "calls": []})
    # LASER call histories inside one process: same df and sample count under different time steps (and back), same grid with
    # another df, same carrier with another power / with phase noise — every call under the exact-field and spectral-peak clauses
    for _ in range(8 if tier == "quick" else 60):
        n = rng.choice([64, 128, 256, 2048] if tier == "quick" else [64, 256, 1024, 2048, 4096])
        R = rng.choice([1e9, 10e9])
        spss = rng.sample([4, 8, 16, 32], rng.choice([2, 3]))
        fmin = min(spss) * R
        df = rng.choice([rng.uniform(-0.4, 0.4) * fmin, rng.randrange(-(n // 4), n // 4 + 1) * fmin / n])
        steps = [{"sps": a, "R": R, "df": df, "p": rng.choice([0.0, 10.0, -3.0]), "lw": None} for a in spss]
        steps.append(dict(steps[0], p=7.0))                                   # back to the first grid, other power
        steps.append(dict(steps[0], df=-df if df else 0.1 * fmin))            # same grid, other offset
        steps.append(dict(steps[1], lw=rng.choice([None, 1e-6 * fmin])))      # second grid again (narrow linewidth or none)
        cases.append({"kind": "laser_hist", "field": None, "n": n, "steps": steps, "np_seed": rng.randrange(1 << 31), "calls": []})
    rng.shuffle(cases)
    # histories first: a violation that depends on what the process did before is then first reported on a self-contained case
    cases.sort(key=lambda c: c["kind"] not in ("mzm_bw_hist", "laser_hist"))
    return cases


# ------------------------------------------------------------------------------------------------
# implementation side
# ------------------------------------------------------------------------------------------------

def _live(obj):
    """the samples a caller reads back from its own drive object"""
    return obj.signal if hasattr(obj, "signal") else obj


def _drive_bytes(obj):
    """byte image of every array a drive argument owns (ndarray; electrical_signal: .signal and .noise)"""
    if isinstance(obj, np.ndarray):
        return (str(obj.dtype), obj.shape, obj.tobytes())
    if hasattr(obj, "signal"):
        return tuple((str(np.asarray(a).dtype), np.shape(a), np.asarray(a).tobytes()) if a is not None else None
                     for a in (obj.signal, obj.noise))
    return repr(obj)


def _dumps_equal(a, b):
    """two result records are the same outcome: same error, or bit-identical signal / noise arrays (NaN == NaN)"""
    if a.get("status") != b.get("status"):
        return False
    if a.get("status") == "err":
        return a.get("err") == b.get("err")
    if a.get("status") != "ok":
        return True
    for part in ("sig", "noise"):
        if (a.get(part) is None) != (b.get(part) is None):
            return False
        if a.get(part) is not None and not np.array_equal(np.array(a[part], dtype=float), np.array(b[part], dtype=float), equal_nan=True):
            return False
    return a.get("shape") == b.get("shape")


def _record(fn, *args, **kw):
    try:
        with time_limit(20):
            y = fn(*args, **kw)
        return {"status": "ok", **F.dump_signal(y)}
    except Timeout as e:
        return {"status": "timeout", "detail": str(e)}
    except Exception as e:  # noqa
        return {"status": "err", "err": exc_enum(e), "detail": repr(e)[:200]}


def _positional_twin(call, x, main, bw=None):
    """the same call with every argument passed POSITIONALLY in the documented order (literal list POSITIONAL, not read from the
    code under test); None when the outcome is identical to the keyword call, else a description"""
    import opticomlib.devices as dev
    vals = {"op_input": x, "el_input": build_drive(call["drive"]), "Vpi": call["Vpi"]}
    if call["dev"] == "mzm":
        vals.update(bias=call["bias"], loss_dB=call["ld"], ER_dB=call["er"], pol=call["pol"], BW=bw)
        names = POSITIONAL["MZM"] if bw is not None else POSITIONAL["MZM"][:-1]
        tw = _record(dev.MZM, *[vals[k] for k in names])
    else:
        tw = _record(dev.PM, *[vals[k] for k in POSITIONAL["PM"]])
    if _dumps_equal(main, tw):
        return None
    return f"keyword call: {str({k: main.get(k) for k in ('status', 'err')})}, positional call {('differs in the returned arrays' if tw.get('status') == 'ok' == main.get('status') else str({k: tw.get(k) for k in ('status', 'err', 'detail')})[:160])}"


def _run_call(call, x, objs=None, mon=None):
    """one device call; `objs`: the drive objects of the previous calls of the case (a call may re-use one: `drive_ref`, or add
    two of them as the caller would AFTER those calls: `drive_sum`); `mon`: receives the operands-unchanged verdict"""
    from opticomlib.devices import MZM, PM
    objs = [] if objs is None else objs
    if call.get("drive_ref") is not None:
        d = objs[call["drive_ref"]]
    elif call.get("drive_sum") is not None:
        i, j = call["drive_sum"]
        d = np.asarray(_live(objs[i])).real + np.asarray(_live(objs[j])).real
    else:
        d = build_drive(call["drive"])
    objs.append(d)
    before = _drive_bytes(d)
    try:
        if call["dev"] == "mzm":
            return MZM(x, d, bias=call["bias"], Vpi=call["Vpi"], loss_dB=call["ld"], ER_dB=call["er"], pol=call["pol"])
        return PM(x, d, Vpi=call["Vpi"])
    finally:
        if mon is not None:
            mon["drive_modified"] = _drive_bytes(d) != before
            if mon["drive_modified"]:
                try:
                    mon["drive_after"] = [float(np.real(v)) for v in np.ravel(_live(d))][:8]
                except Exception:  # noqa
                    mon["drive_after"] = None


def _run_laser(case, res):
    from opticomlib.typing import gv
    from opticomlib.devices import LASER
    spied = []
    orig = np.random.normal

    def spy(loc=0.0, scale=1.0, size=None):
        v = orig(loc, scale, size)
        spied.append({"loc": float(loc), "scale": float(scale), "size": int(size) if np.isscalar(size) else list(size),
                      "values": [float(a) for a in np.ravel(v)]})
        return v
    gv(sps=case["sps"], R=case["R"])
    res["fs"], res["dt"] = float(gv.fs), float(gv.dt)
    td = case.get("tdtype", "float64")
    if td.startswith("int"):
        t = np.arange(case["n"]).astype(td)
    else:
        t = (np.arange(case["n"]) * gv.dt).astype(td)
    res["t"] = [float(a) for a in t]          # the values the code sees (exact in float64)
    res["tstep"] = float(t[1] - t[0]) if case["n"] >= 2 else float(gv.dt)
    np.random.seed(case["np_seed"])
    np.random.normal = spy
    try:
        with time_limit(20):
            y = LASER(t, case["p"], lw=case["lw"], rin=case["rin"], df=case["df"])
        res["results"] = [{"status": "ok", **F.dump_signal(y)}]
    except Timeout as e:
        res["results"] = [{"status": "timeout", "detail": str(e)}]
    except Exception as e:  # noqa
        res["results"] = [{"status": "err", "err": exc_enum(e), "detail": repr(e)[:200]}]
    finally:
        np.random.normal = orig
    res["spied"] = spied
    # positional twin (documented order t, p, lw, rin, df) under the same numpy seed
    np.random.seed(case["np_seed"])
    vals = {"t": t, "p": case["p"], "lw": case["lw"], "rin": case["rin"], "df": case["df"]}
    tw = _record(LASER, *[vals[k] for k in POSITIONAL["LASER"]])
    if not _dumps_equal(res["results"][0], tw):
        res["results"][0]["positional"] = f"keyword call {res['results'][0].get('status')}, positional call {tw.get('status')} {tw.get('err', '')}: outcomes differ"


def _laser_step_case(case, i):
    st = case["steps"][i]
    return {"kind": "laser", "field": None, "sps": st["sps"], "R": st["R"], "n": case["n"], "tdtype": "float64", "p": st["p"],
            "lw": st["lw"], "rin": None, "df": st["df"], "np_seed": case["np_seed"] + i, "calls": []}


def _run_laser_hist(case, res):
    from opticomlib.typing import gv
    res["steps"] = []
    for i in range(len(case["steps"])):
        gv.clean()
        st = {"status": "ok", "i": i}
        _run_laser(_laser_step_case(case, i), st)
        res["steps"].append(st)
    res["results"] = [st["results"][0] for st in res["steps"]]


def _fresh_bpf(y, bw, fs, order=4):
    """the documented optical filter applied by scipy itself, designed NOW for the sampling rate in force: n-th order Bessel
    low-pass (norm='mag') of cut-off BW/2, forward-backward — NOT the library's BPF (which could share a stale design)"""
    import scipy.signal as ssg
    try:
        sos = ssg.bessel(N=order, Wn=bw / 2, btype="low", fs=fs, output="sos", norm="mag")
        sig = ssg.sosfiltfilt(sos, np.asarray(y.signal), axis=-1)
        noi = None if y.noise is None else ssg.sosfiltfilt(sos, np.asarray(y.noise), axis=-1)
        return {"status": "ok", "sig": F.rows_of_array(sig), "noise": None if noi is None else F.rows_of_array(noi)}
    except Exception as e:  # noqa
        return {"status": "err", "err": exc_enum(e), "detail": repr(e)[:200]}


def _run_mzm_bw_hist(case, res):
    from opticomlib.typing import gv
    res["steps"] = []
    for i, (sps, R) in enumerate(case["seq"]):
        gv.clean()
        st = {"i": i}
        _run_mzm_bw(dict(case, sps=sps, R=R), st)
        res["steps"].append(st)
    res["results"] = [st["results"][0] for st in res["steps"]]


def _run_mzm_bw(case, res):
    """MZM(..., BW): the main call under the scipy spies of the C11 harness, then the unfiltered twin, the library's BPF applied
    by hand and the reference filter designed afresh by scipy"""
    from opticomlib.typing import gv
    import opticomlib.devices as dev
    from harness.props import c11
    gv(sps=case["sps"], R=case["R"])
    res["fs"] = float(gv.fs)
    x = F.build_field(case["field"])
    call = case["calls"][0]
    d = build_drive(call["drive"])
    kw = dict(bias=call["bias"], Vpi=call["Vpi"], loss_dB=call["ld"], ER_dB=call["er"], pol=call["pol"])

    def run(fn, *a, **k):
        try:
            with time_limit(30):
                y = fn(*a, **k)
            return y, {"status": "ok", **F.dump_signal(y)}
        except Timeout as e:
            return None, {"status": "timeout", "detail": str(e)}
        except Exception as e:  # noqa
            return None, {"status": "err", "err": exc_enum(e), "detail": repr(e)[:200]}
    before = _drive_bytes(d)
    with c11._Spy(dev) as spy:
        _, r = run(dev.MZM, x, d, BW=case["BW"], **kw)
        spy.on = False
        r["drive_modified"] = _drive_bytes(d) != before
        r["positional"] = _positional_twin(call, x, r, bw=case["BW"])
        res["results"] = [r]
        res["params"], res["remarks"] = c11._params(spy)
        y0, r0 = run(dev.MZM, x, d, **kw)
        res["unfiltered"] = r0
        if y0 is not None:
            _, res["bpf"] = run(dev.BPF, y0, case["BW"])
    if y0 is not None:
        res["ref"] = _fresh_bpf(y0, case["BW"], res["fs"])


def run_impl(case):
    from opticomlib.typing import gv
    res = {"status": "ok", "results": []}
    try:
        with warnings.catch_warnings():
            warnings.simplefilter("ignore")
            if case["kind"] == "laser":
                _run_laser(case, res)
                return res
            if case["kind"] == "laser_hist":
                _run_laser_hist(case, res)
                return res
            if case["kind"] == "mzm_bw":
                _run_mzm_bw(case, res)
                return res
            if case["kind"] == "mzm_bw_hist":
                _run_mzm_bw_hist(case, res)
                return res
            gv(sps=16, R=1e9)
            x = F.build_field(case["field"])
            outs, objs = [], []
            for call in case["calls"]:
                xin = x if call.get("input") is None else outs[call["input"]]
                if xin is None:
                    res["results"].append({"status": "skipped"})
                    outs.append(None)
                    objs.append(None)
                    continue
                mon = {}
                try:
                    with time_limit(20):
                        y = _run_call(call, xin, objs, mon)
                    res["results"].append({"status": "ok", **F.dump_signal(y), **mon})
                    outs.append(y)
                except Timeout as e:
                    res["results"].append({"status": "timeout", "detail": str(e), **mon})
                    outs.append(None)
                except Exception as e:  # noqa
                    res["results"].append({"status": "err", "err": exc_enum(e), "detail": repr(e)[:200], **mon})
                    outs.append(None)
                if len(objs) < len(res["results"]):
                    objs.append(None)          # the drive could not even be built
                if call.get("drive_ref") is None and call.get("drive_sum") is None:
                    res["results"][-1]["positional"] = _positional_twin(call, xin, res["results"][-1])
            # input must not have been modified
            after = F.dump_signal(x)
            if after["sig"] != case["field"]["sig"] and case["field"]["dtype"] == "complex":
                res["input_modified"] = True
    except Exception as e:  # noqa  (harness-level problem building the inputs)
        res.update(status="err", err=exc_enum(e), detail=repr(e)[:300])
    finally:
        gv.clean()
    return res


# ------------------------------------------------------------------------------------------------
# model side
# ------------------------------------------------------------------------------------------------

def _input_rows(case, res, i):
    call = case["calls"][i]
    if call.get("input") is None:
        return case["field"]["sig"], case["field"]["noise"]
    r = res["results"][call["input"]]
    if r.get("status") != "ok":
        return None
    return r["sig"], r["noise"]


def _opt(flag, body):
    return "0" if not flag else "1 " + body


def model_requests(case, res):
    if res.get("status") != "ok":
        return []
    reqs = []
    if case["kind"] == "laser":
        r = res["results"][0]
        sp = res["spied"]
        k = 0
        ph = rn = None
        if case["lw"] is not None and k < len(sp):
            ph = sp[k]["values"]; k += 1
        if case["rin"] is not None and k < len(sp):
            rn = sp[k]["values"]; k += 1
        if (case["lw"] is not None and ph is None) or (case["rin"] is not None and rn is None):
            return []     # the draw did not happen: the oracle reports it
        reqs.append("mod.laser " + " ".join([
            enc_f(case["p"]), enc_f(res["fs"]),
            _opt(ph is not None, enc_flist(ph or [])), _opt(rn is not None, enc_flist(rn or [])),
            _opt(case["df"] is not None, enc_f(case["df"] or 0.0)), enc_flist(res["t"])]))
        reqs.append("mod.lasersigma " + " ".join([enc_f(case["lw"] or 0.0), enc_f(res["dt"]), enc_f(case["rin"] or 0.0), enc_f(res["fs"])]))
        return reqs
    if case["kind"] == "mzm_bw_hist":
        return [r for st in res.get("steps", []) for r in model_requests(dict(case, kind="mzm_bw"), dict(st, status="ok"))]
    if case["kind"] == "laser_hist":
        return [r for i, st in enumerate(res.get("steps", [])) for r in model_requests(_laser_step_case(case, i), st)]
    if case["kind"] == "mzm_bw":
        p = res.get("params")
        call = case["calls"][0]
        pol = call["pol"] if call["pol"] in ("x", "y") else "other"
        if not p:
            # the filter was never reached (MZM's own checks failed first): the plain model must agree on the error
            return [" ".join(["mod.mzm", pol, enc_f(call["bias"]), enc_f(call["Vpi"]), enc_f(call["ld"]), enc_f(call["er"]),
                              enc_drive(call["drive"]), F.enc_field(case["field"]["sig"], case["field"]["noise"])])]
        secs = [str(len(p["sos"]))]
        for row, z in zip(p["sos"], p["zi"]):
            secs += [enc_f(row[0]), enc_f(row[1]), enc_f(row[2]), enc_f(row[4]), enc_f(row[5]), enc_f(z[0]), enc_f(z[1])]
        return [" ".join(["mod.mzmbw", pol, enc_f(call["bias"]), enc_f(call["Vpi"]), enc_f(call["ld"]), enc_f(call["er"]),
                          enc_drive(call["drive"]), str(p["edge"]), " ".join(secs),
                          F.enc_field(case["field"]["sig"], case["field"]["noise"])])]
    for i, call in enumerate(case["calls"]):
        inp = _input_rows(case, res, i)
        if inp is None:
            reqs.append("noop")       # answered `bad-op`, ignored by compare
            continue
        fld = F.enc_field(inp[0], inp[1])
        if call["dev"] == "mzm":
            pol = call["pol"] if call["pol"] in ("x", "y") else "other"
            reqs.append(" ".join(["mod.mzm", pol, enc_f(call["bias"]), enc_f(call["Vpi"]), enc_f(call["ld"]), enc_f(call["er"]),
                                  enc_drive(call["drive"]), fld]))
        else:
            reqs.append(" ".join(["mod.pm", enc_f(call["Vpi"]), enc_drive(call["drive"]), fld]))
    return reqs


def _cmp_field_reply(tag, r, rep, in_rows):
    if r["status"] == "timeout":
        return [f"{tag}: implementation timed out, model says {rep[:40]}"]
    if r["status"] == "err":
        want = "err " + r["err"]
        return [] if rep == want else [f"{tag}: implementation raised {r['err']} ({r.get('detail', '')[:80]}), model says {rep[:60]!r}"]
    if not rep.startswith("ok "):
        return [f"{tag}: implementation returned a signal, model says {rep[:60]!r}"]
    t = Toks(rep[3:])
    msig, mnoise = F.dec_field(t)
    isig = F.c_rows(r["sig"])
    inoise = None if r["noise"] is None else F.c_rows(r["noise"])
    # signal judged relative to the input signal, noise relative to the input noise (|h| <= 1, |rotation| = 1)
    scale = F.scales(F.c_rows(in_rows[0]), None if in_rows[1] is None else F.c_rows(in_rows[1]))
    return F.diff_fields(tag, isig, inoise, msig, mnoise, scale)


def compare(case, res, reqs, replies):
    if not reqs:
        return []
    out = []
    if case["kind"] == "laser":
        r = res["results"][0]
        rep = replies[0]
        if r["status"] == "err":
            if rep != "err " + r["err"]:
                out.append(f"laser: implementation raised {r['err']}, model says {rep[:60]!r}")
        elif r["status"] == "ok":
            if not rep.startswith("ok "):
                out.append(f"laser: implementation returned a signal, model says {rep[:60]!r}")
            else:
                m = np.array(Toks(rep[3:]).clist(), dtype=complex)
                a = F.c_rows(r["sig"])[0]
                # phases up to |2 pi df t| ~ 1e3 rad are reduced by libm on both sides: allow 1e-9 relative to the amplitude
                amp = math.sqrt(10.0 ** (case["p"] / 10.0 - 3.0))
                rel = 1e-8
                if case.get("tdtype") == "float32":
                    # numpy 1.x keeps a float32 time grid in single precision (amplitude, and the offset phase 2 pi df t):
                    # the float64 model is met to single-precision rounding of the amplitude and of the largest phase
                    th = 2 * math.pi * abs(case["df"] or 0.0) * (max(abs(x) for x in res["t"]) if res["t"] else 0.0)
                    rel = 2e-6 * (1.0 + th)
                if not F.close(a, m, amp, rel=rel):
                    d = "shape" if a.shape != m.shape else f"max|diff|={F._maxdiff(a, m):.3e}"
                    out.append(f"laser: field differs from the model on the recorded draws ({d})")
        else:
            out.append("laser: time-out")
        # the scale arguments handed to np.random.normal
        t = Toks(replies[1][3:]) if replies[1].startswith("ok ") else None
        if t is not None:
            s_ph, s_rin = t.f(), t.f()
            k = 0
            if case["lw"] is not None and k < len(res["spied"]):
                s = res["spied"][k]; k += 1
                if s["loc"] != 0.0 or not (abs(s["scale"] - s_ph) <= 1e-12 * abs(s_ph)) or s["size"] != case["n"]:
                    out.append(f"laser: phase-noise draw normal({s['loc']},{s['scale']},{s['size']}) but model sigma {s_ph}")
            if case["rin"] is not None and k < len(res["spied"]):
                s = res["spied"][k]; k += 1
                if s["loc"] != 0.0 or not (abs(s["scale"] - s_rin) <= 1e-12 * abs(s_rin)) or s["size"] != case["n"]:
                    out.append(f"laser: RIN draw normal({s['loc']},{s['scale']},{s['size']}) but model sigma {s_rin}")
        return out
    if case["kind"] == "laser_hist":
        pos = 0
        for i, st in enumerate(res.get("steps", [])):
            k = len(model_requests(_laser_step_case(case, i), st))
            out += [f"history call {i} (sps={case['steps'][i]['sps']}, df={case['steps'][i]['df']:.6g}): " + d
                    for d in compare(_laser_step_case(case, i), st, reqs[pos:pos + k], replies[pos:pos + k])]
            pos += k
        return out
    if case["kind"] == "mzm_bw_hist":
        for st, rq, rep in zip(res.get("steps", []), reqs, replies):
            out += [f"history step {st['i']} (fs={st.get('fs', 0):.4g}): " + d
                    for d in compare(dict(case, kind="mzm_bw"), dict(st, status="ok"), [rq], [rep])]
        return out
    if case["kind"] == "mzm_bw":
        from harness.props import c11
        r, rep = res["results"][0], replies[0]
        out += ["model parameters: " + rm for rm in res.get("remarks") or [] if res.get("params")]
        if r["status"] == "timeout":
            return out + ["mzm_bw: implementation timed out"]
        if r["status"] == "err":
            if rep != "err " + r["err"]:
                out.append(f"mzm_bw: implementation raised {r['err']} ({r.get('detail', '')[:80]}), model says {rep[:60]!r}")
            return out
        if not res.get("params"):
            return out + ["mzm_bw: the implementation returned a signal but scipy.signal.sosfiltfilt was never called"]
        if not rep.startswith("ok "):
            return out + [f"mzm_bw: implementation returned a signal, model says {rep[:60]!r}"]
        m_rows, m_noise = c11._read_sig(rep, True)
        isig = F.c_rows(r["sig"])
        inoise = None if r["noise"] is None else F.c_rows(r["noise"])
        fl = case["field"]
        scale = F.scales(F.c_rows(fl["sig"]), None if fl["noise"] is None else F.c_rows(fl["noise"]))
        return out + F.diff_fields("mzm_bw", isig, inoise, [np.array(a, dtype=complex) for a in m_rows],
                                   None if m_noise is None else [np.array(a, dtype=complex) for a in m_noise], scale)
    for i, (call, rep) in enumerate(zip(case["calls"], replies)):
        r = res["results"][i]
        if r["status"] == "skipped" or reqs[i] == "noop":
            continue
        out += _cmp_field_reply(f"{call['dev']}[{i}] drive={call['drive']['kind']}", r, rep, _input_rows(case, res, i))
    return out


# ------------------------------------------------------------------------------------------------
# oracle: the property on what the real code returned (numpy reference, independent of the Lean model)
# ------------------------------------------------------------------------------------------------

def _ref_h(call, u):
    loss = 10.0 ** (-call["ld"] / 10.0)
    th = math.pi * (u + call["bias"]) / (2.0 * call["Vpi"])
    return math.sqrt(loss) * (np.cos(th) + 1j * 10.0 ** (-call["er"] / 20.0) * np.sin(th)), loss


def _shape_ok(r, npol, n):
    want = [n] if npol == 1 else [2, n]
    if r["cls"] != "optical_signal" or r["npol"] != npol or r["shape"] != want:
        return False
    return r["noise"] is None or r["noise_shape"] == want


def _oracle_mzm(case, i, call, r, in_rows):
    v = []
    sig_in = F.c_rows(in_rows[0])
    noise_in = None if in_rows[1] is None else F.c_rows(in_rows[1])
    n, npol = len(sig_in[0]), len(sig_in)
    tag = f"drive={call['drive']['kind']}"
    if call["pol"] not in ("x", "y") or not (call["Vpi"] > 0):
        return v          # outside the statement's quantifier (the model still mirrors what the code does)
    u = drive_samples(call["drive"], n)
    if u is None:
        if not (r["status"] == "err" and r["err"] == "ValueError"):
            v.append(("C06:mzm-mismatch", f"MZM with a drive of {len(call['drive']['v'])} samples on {n} samples ({tag}) must raise ValueError, got {str(r)[:100]}"))
        return v
    if r["status"] != "ok":
        v.append((f"C06:mzm-accept:{call['drive']['kind']}", f"MZM rejected a valid call ({tag}, N={n}): {str(r)[:160]}"))
        return v
    if not _shape_ok(r, npol, n):
        v.append(("C06:mzm-shape", f"MZM output layout {r['cls']} n_pol={r['npol']} shape={r['shape']} noise={r['noise_shape']} for input n_pol={npol} N={n}"))
        return v
    h, loss = _ref_h(call, u)
    sel = 0 if call["pol"] == "x" else 1
    zeros = [np.zeros(n, dtype=complex) for _ in range(npol)]
    for part, rows_in, rows_out in (("signal", sig_in, F.c_rows(r["sig"])),
                                    ("noise", noise_in, None if r["noise"] is None else F.c_rows(r["noise"]))):
        if rows_in is None and rows_out is None:
            continue
        rows_in = zeros if rows_in is None else rows_in        # an absent noise part == zero noise
        rows_out = zeros if rows_out is None else rows_out
        sc = max(F.maxabs(rows_in), 1e-300)
        for k in range(npol):
            if npol == 2 and k != sel:
                if np.any(rows_out[k] != 0):
                    v.append((f"C06:mzm-blank:{part}", f"pol='{call['pol']}': unselected polarisation row {k} of {part} not extinguished (max {np.max(np.abs(rows_out[k])):.3g})"))
                continue
            ref = rows_in[k] * h
            if not F.close(rows_out[k], ref, sc):
                v.append((f"C06:mzm-transfer:{part}", f"{part} row {k} differs from in*sqrt(loss)(cos th + j 10^(-ER/20) sin th): max|diff| {F._maxdiff(rows_out[k], ref):.3e} ({tag})"))
            if not np.all(np.abs(rows_out[k]) ** 2 <= loss * np.abs(rows_in[k]) ** 2 * (1 + 1e-9) + 1e-300):
                v.append((f"C06:mzm-passive:{part}", f"{part} row {k}: |out|^2 exceeds loss*|in|^2 ({tag})"))
    return v


def _oracle_pm(case, i, call, r, in_rows):
    v = []
    sig_in = F.c_rows(in_rows[0])
    noise_in = None if in_rows[1] is None else F.c_rows(in_rows[1])
    n, npol = len(sig_in[0]), len(sig_in)
    kind = call["drive"]["kind"]
    if WIRE_KIND[kind] == "q" or not (call["Vpi"] > 0):
        return v          # list/tuple/str drives of PM are outside the statement ("scalar, ndarray and electrical_signal")
    if WIRE_KIND[kind] == "s":
        u = np.full(n, call["drive"]["v"][0])
    else:
        u = np.array(call["drive"]["v"], dtype=float)
        if u.size != n:
            if not (r["status"] == "err" and r["err"] == "ValueError"):
                v.append(("C06:pm-mismatch", f"PM with a {kind} drive of {u.size} samples on {n} samples must raise ValueError, got {str(r)[:100]}"))
            return v
    if r["status"] != "ok":
        v.append((f"C06:pm-accept:{kind}", f"PM rejected a valid {kind} drive (N={n}): {str(r)[:160]}"))
        return v
    if not _shape_ok(r, npol, n):
        v.append(("C06:pm-shape", f"PM output layout {r['cls']} n_pol={r['npol']} shape={r['shape']} for input n_pol={npol} N={n}"))
        return v
    rot = np.exp(1j * math.pi * u / call["Vpi"])
    out_sig = F.c_rows(r["sig"])
    out_noise = None if r["noise"] is None else F.c_rows(r["noise"])
    ssc, nsc = F.scales(sig_in, noise_in)
    zeros = [np.zeros(n, dtype=complex) for _ in range(npol)]
    nin = zeros if noise_in is None else noise_in          # an absent noise part == zero noise
    nout = zeros if out_noise is None else out_noise
    for k in range(npol):
        tot_in = sig_in[k] + nin[k]
        tot_out = out_sig[k] + nout[k]
        tsc = max(F.maxabs([tot_in]), 1e-300)
        if not F.close(np.abs(tot_out) ** 2, np.abs(tot_in) ** 2, tsc * tsc):
            v.append(("C06:pm-power", f"row {k}: |signal+noise|^2 changed by PM (max diff {F._maxdiff(np.abs(tot_out) ** 2, np.abs(tot_in) ** 2):.3e}, noise {case['field']['noise_kind']})"))
        if not F.close(tot_out, tot_in * rot, tsc):
            v.append(("C06:pm-phase", f"row {k}: total field is not in*exp(j pi u/Vpi) (max diff {F._maxdiff(tot_out, tot_in * rot):.3e})"))
        if not F.close(out_sig[k], sig_in[k] * rot, ssc):
            v.append(("C06:pm-phase-signal", f"row {k}: signal part is not in*exp(j pi u/Vpi)"))
        if not F.close(nout[k], nin[k] * rot, nsc):
            v.append(("C06:pm-phase-noise", f"row {k}: noise part is not in.noise*exp(j pi u/Vpi) (max diff {F._maxdiff(nout[k], nin[k] * rot):.3e}, noise scale {nsc:.3g})"))
    return v


def _same(ra, rb):
    return ra["sig"] == rb["sig"] and ra["noise"] == rb["noise"]


def _oracle_laser(case, res):
    v = []
    r = res["results"][0]
    fs = res["fs"]
    n = case["n"]
    if r["status"] == "timeout":
        return [("C06:laser-timeout", "LASER did not return")]
    sp = res["spied"]
    inside = case["df"] is None or abs(case["df"]) <= fs / 2
    if r["status"] == "err":
        # the documented rejection "Noise power is to high" (an intensity draw below -1) is legitimate
        rin_vals = sp[-1]["values"] if (case["rin"] is not None and sp) else []
        rin_reject = case["rin"] is not None and r["err"] == "ValueError" and (not rin_vals or min(rin_vals) < -1)
        if inside and not rin_reject:
            v.append(("C06:laser-accept", f"LASER(p={case['p']}, lw={case['lw']}, rin={case['rin']}, df={case['df']}) inside Nyquist failed: {r}"))
        return v
    if not inside:
        return v          # offsets beyond Nyquist are outside the quantifier
    rows = F.c_rows(r["sig"])
    if r["noise"] is not None:
        rows = [a + b for a, b in zip(rows, F.c_rows(r["noise"]))]      # total field
    P = 10.0 ** (case["p"] / 10.0 - 3.0)
    if any(e.size != n for e in rows):
        v.append(("C06:laser-shape", f"LASER output has {[e.size for e in rows]} samples, expected {n}"))
        return v
    if case["rin"] is None:
        pw = sum(np.abs(e) ** 2 for e in rows)
        # exact field of a laser without phase noise: sqrt(P)*exp(j 2 pi df t) on the time grid that was passed
        if case["lw"] is None and n and len(rows) == 1:
            tt = np.array(res["t"], dtype=float)
            th = 2 * math.pi * (case["df"] or 0.0) * tt
            ref = math.sqrt(P) * np.exp(1j * th)
            frel = 2e-6 * (1.0 + float(np.max(np.abs(th)))) if case.get("tdtype") == "float32" else 1e-9 * (1.0 + 1e-7 * float(np.max(np.abs(th))))
            if not F.close(rows[0], ref, math.sqrt(P), rel=frel):
                v.append(("C06:laser-field", f"field is not sqrt(P)*exp(j 2 pi df t) on the given time grid: max diff {F._maxdiff(rows[0], ref):.3e} "
                                             f"(sqrt(P)={math.sqrt(P):.4g}, df={case['df']}, step {res.get('tstep')})"))
        # float32 time argument: the result is a single-precision array, |E|^2 = P to single-precision rounding (8 eps32)
        ptol = 1e-6 if case.get("tdtype") == "float32" else 1e-12
        if n and not np.all(np.abs(pw - P) <= ptol * P):
            v.append(("C06:laser-power", f"|E|^2 deviates from P={P:.6g} by {F._maxdiff(pw, np.full(n, P)):.3e} without RIN (time argument dtype {case.get('tdtype', 'float64')}, lw={case['lw']}, df={case['df']})"))
        # spectral peak at df (oracle-only clause)
        narrow = case["lw"] is None or case["lw"] * n / fs <= 0.01
        if n >= 16 and narrow:
            spec = sum(np.abs(np.fft.fft(e)) ** 2 for e in rows)
            if not np.all(np.isfinite(spec)):
                return v + [("C06:laser-peak", "the spectrum of the returned samples is not finite")]
            step = res.get("tstep") or 1 / fs          # spacing of the time grid actually passed (1 for np.arange(N))
            fsg = 1 / step
            f = np.fft.fftfreq(n, d=step)
            kpk = int(np.argmax(spec))
            df = case["df"] or 0.0
            dist = abs(f[kpk] - df)
            dist = min(dist, abs(dist - fsg))          # +-fs/2 are the same bin
            if not (dist <= fsg / n * (1 + 1e-6)):
                v.append(("C06:laser-peak", f"spectral peak at {f[kpk]:.6g}, df={df:.6g}, bin {fsg / n:.6g} (time grid {case.get('tdtype', 'float64')}, step {step:.6g})"))
    return v


def _oracle_mzm_bw(case, res):
    """BW given: the unfiltered twin obeys the transfer function (same clauses as without BW) and the result is BPF of it"""
    v = []
    call = case["calls"][0]
    r, r0 = res["results"][0], res.get("unfiltered")
    if r["status"] == "timeout" or (r0 or {}).get("status") == "timeout":
        return [("C06:mzm-timeout", "MZM(..., BW) did not return")]
    if r0 is not None:
        v += _oracle_mzm(case, 0, call, r0, (case["field"]["sig"], case["field"]["noise"]))
    n = case["field"]["n"]
    if r0 is None or r0["status"] != "ok":
        if r["status"] == "ok":
            v.append(("C06:mzm-bw-accept", "MZM accepts with BW a call it rejects without BW"))
        return v
    bp = res.get("bpf") or {}
    if bp.get("status") == "err":
        # scipy rejects rows not longer than the padding: the same must happen inside MZM
        if not (r["status"] == "err" and r["err"] == bp["err"]):
            v.append(("C06:mzm-bw-short", f"BPF(MZM(x)) raises {bp['err']} (N={n}) but MZM(x, BW) gives {str(r)[:80]}"))
        return v
    if r["status"] != "ok" or bp.get("status") != "ok":
        v.append(("C06:mzm-bw-accept", f"MZM(x, BW) failed ({str(r)[:100]}) although BPF(MZM(x), BW) works"))
        return v
    sc = F.scales(F.c_rows(r0["sig"]), None if r0["noise"] is None else F.c_rows(r0["noise"]))
    d = F.diff_fields("MZM(x,u,BW) vs BPF(MZM(x,u),BW)", F.c_rows(r["sig"]), None if r["noise"] is None else F.c_rows(r["noise"]),
                      F.c_rows(bp["sig"]), None if bp["noise"] is None else F.c_rows(bp["noise"]), sc)
    if d:
        v.append(("C06:mzm-bw-compose", "; ".join(d)[:300]))
    if r["npol"] != case["field"]["npol"] or r["shape"] != r0["shape"]:
        v.append(("C06:mzm-bw-shape", f"layout changed by the filter: {r['shape']} vs {r0['shape']}"))
    # the documented filter for the sampling rate in force NOW (design computed afresh by scipy, not by the library)
    ref = res.get("ref") or {}
    if ref.get("status") == "ok":
        d = F.diff_fields("MZM(x,u,BW) vs bessel(BW/2, fs=gv.fs) applied to MZM(x,u)", F.c_rows(r["sig"]),
                          None if r["noise"] is None else F.c_rows(r["noise"]), F.c_rows(ref["sig"]),
                          None if ref["noise"] is None else F.c_rows(ref["noise"]), sc)
        if d:
            v.append(("C06:mzm-bw-filter", "; ".join(d)[:300]))
    return v


def oracle(case, res):
    v = []
    if res.get("status") != "ok":
        return [("C06:harness", f"could not build the inputs: {res.get('detail')}")] if case["kind"] != "laser" else []
    for path, part, row, idx in F.nonfinite_outputs({k: res[k] for k in ("results", "steps", "unfiltered", "bpf") if k in res})[:3]:
        # every generated input is finite and inside the statement's ranges: the documented formulas give finite outputs
        v.append(("C06:non-finite", f"{path}: {part} row {row} sample {idx} is NaN/inf although all inputs are finite"))
    for i, r in enumerate(res.get("results", [])):
        if r.get("drive_modified"):
            c = case["calls"][i] if i < len(case.get("calls", [])) else case["calls"][0]
            # a drive that comes back altered makes the next use of the same waveform (PM(x,u) again, a+b formed afterwards)
            # obey exp(j*pi*u'/Vpi) for another u': the operands of the statement are the caller's u, a, b
            v.append((f"C06:drive-modified:{c['dev']}", f"{c['dev'].upper()} altered its drive argument ({c['drive']['kind']}): "
                      f"given {c['drive']['v'][:4]}..., afterwards it holds {r.get('drive_after')}"))
    for i, r in enumerate(res.get("results", [])):
        if r.get("positional"):
            fn = "LASER" if case["kind"].startswith("laser") else ("MZM" if case["calls"][min(i, len(case["calls"]) - 1)]["dev"] == "mzm" else "PM")
            v.append((f"C06:positional:{fn}", f"{fn} called with its arguments by position in the documented order {POSITIONAL[fn]} "
                      f"does not give what the keyword call gives: {r['positional']}"))
    if case["kind"] == "laser_hist":
        for i, st in enumerate(res.get("steps", [])):
            sc = case["steps"][i]
            tag = (f"call {i} of the LASER history {[(q['sps'], q['df'], q['p']) for q in case['steps']]} "
                   f"(N={case['n']}, sps={sc['sps']}, R={sc['R']:.3g}, df={sc['df']:.6g}): ")
            v += [(sig, tag + msg) for sig, msg in _oracle_laser(_laser_step_case(case, i), st)]
        return v
    if case["kind"] == "laser":
        return v + _oracle_laser(case, res)
    if case["kind"] == "mzm_bw":
        return v + _oracle_mzm_bw(case, res)
    if case["kind"] == "mzm_bw_hist":
        for st in res.get("steps", []):
            tag = f"call {st['i']} of the history {[a * b for a, b in case['seq']]} (fs={st.get('fs', 0):.4g}, BW={case['BW']:.4g}): "
            v += [(sig, tag + msg) for sig, msg in _oracle_mzm_bw(case, st)]
        return v
    for i, call in enumerate(case["calls"]):
        r = res["results"][i]
        if r["status"] == "skipped":
            continue
        if r["status"] == "timeout":
            v.append((f"C06:{call['dev']}-timeout", f"{call['dev']} did not return"))
            continue
        inp = _input_rows(case, res, i)
        if inp is None:
            continue
        v += (_oracle_mzm if call["dev"] == "mzm" else _oracle_pm)(case, i, call, r, inp)
    rs = res["results"]
    allok = all(r["status"] == "ok" for r in rs)
    if case["kind"] == "mzm_per" and allok:
        a, b = rs
        fsc = F.scales(F.c_rows(case["field"]["sig"]), None if case["field"]["noise"] is None else F.c_rows(case["field"]["noise"]))
        for part, sc in (("sig", fsc[0] ** 2), ("noise", fsc[1] ** 2)):
            if a[part] is None and b[part] is None:
                continue
            if a[part] is None or b[part] is None:
                v.append(("C06:mzm-periodic", f"{part} present for one drive and absent for the drive shifted by 2*Vpi"))
                continue
            pa = [np.abs(x) ** 2 for x in F.c_rows(a[part])]
            pb = [np.abs(x) ** 2 for x in F.c_rows(b[part])]
            if not all(F.close(x, y, sc) for x, y in zip(pa, pb)):
                v.append(("C06:mzm-periodic", f"output power of {part} changes when the drive is shifted by 2*Vpi={2 * case['calls'][0]['Vpi']}"))
    if case["kind"] == "mzm_er" and allok:
        call = case["calls"][0]
        sel = 0 if (call["pol"] == "x" or case["field"]["npol"] == 1) else 1
        pon = np.abs(F.c_rows(rs[0]["sig"])[sel]) ** 2
        poff = np.abs(F.c_rows(rs[1]["sig"])[sel]) ** 2
        want = 10.0 ** (call["er"] / 10.0)
        with np.errstate(all="ignore"):
            ratio = pon / poff
        if not (np.all(poff > 0) and np.all(np.abs(ratio - want) <= 1e-9 * want)):
            v.append(("C06:mzm-er", f"on/off power ratio {float(ratio[0]):.9g}, required 10^(ER/10)={want:.9g}"))
    if case["kind"] in ("mzm_forms", "pm_forms"):
        oks = [(c, r) for c, r in zip(case["calls"], rs) if r["status"] == "ok"]
        if len(oks) != len(rs):
            bad = [c["drive"]["kind"] + f"[{len(c['drive']['v'])}]" for c, r in zip(case["calls"], rs) if r["status"] != "ok"]
            v.append((f"C06:{case['kind']}-accept", f"equivalent drive forms rejected: {bad}"))
        for c, r in oks[1:]:
            if not _same(oks[0][1], r):
                v.append((f"C06:{case['kind']}", f"drive as {c['drive']['kind']}[{len(c['drive']['v'])}] gives a different result than as {oks[0][0]['drive']['kind']}"))
                break
    if case["kind"] in ("pm_repeat", "mzm_repeat") and rs[0]["status"] == "ok":
        if rs[1]["status"] != "ok" or not _same(rs[0], rs[1]):
            v.append((f"C06:{case['kind']}", f"the same call with the same drive object ({case['calls'][0]['drive']['kind']}) a second time gives "
                      f"{'a different result' if rs[1]['status'] == 'ok' else str(rs[1])[:100]}"))
    if case["kind"] == "pm_add" and allok:
        z, w = rs[1], rs[2]
        sc = F.scales(F.c_rows(case["field"]["sig"]), None if case["field"]["noise"] is None else F.c_rows(case["field"]["noise"]))
        d = F.diff_fields("PM(PM(x,a),b) vs PM(x,a+b)", F.c_rows(z["sig"]), None if z["noise"] is None else F.c_rows(z["noise"]),
                          F.c_rows(w["sig"]), None if w["noise"] is None else F.c_rows(w["noise"]), sc)
        if d:
            v.append(("C06:pm-add", "; ".join(d)[:300]))
    return v


def features(case, res):
    f = ["kind=" + case["kind"], "status=" + str(res.get("status"))]
    if case["kind"] == "laser_hist":
        f.append(f"laser-history={len(case['steps'])}")
    elif case["kind"] == "laser":
        f += [f"laser:lw={'y' if case['lw'] is not None else 'n'}", f"laser:rin={'y' if case['rin'] is not None else 'n'}",
              f"laser:df={'y' if case['df'] is not None else 'n'}", f"N={case['n']}", "laser:t=" + case.get("tdtype", "float64")]
    else:
        fl = case["field"]
        f += [f"npol={fl['npol']}", "noise=" + fl["noise_kind"], "dtype=" + fl["dtype"], f"N={fl['n']}"]
        if fl.get("dark") is not None:
            f.append("dark-pol" + ("+noise" if fl["noise"] is not None else ""))
        if case["kind"] == "mzm_bw":
            f.append("BW:" + ("filtered" if res.get("params") else "filter-not-reached"))
        if case["kind"] == "mzm_bw_hist":
            f.append(f"history={len(case['seq'])}")
        for c in case["calls"]:
            f.append(f"{c['dev']}:drive={c['drive']['kind']}")
            if c["dev"] == "mzm":
                f.append("pol=" + (c["pol"] if c["pol"] in ("x", "y") else "invalid"))
    for r in res.get("results", []):
        f.append("result=" + r["status"] + (":" + r["err"] if r["status"] == "err" else ""))
    if res.get("input_modified"):
        f.append("input-modified-in-place")
    return f


def nontrivial_key(case, res):
    rs = res.get("results", [])
    if not rs or any(r["status"] != "ok" for r in rs):
        return None
    if case["kind"] == "laser_hist":
        return ("laser_hist", case["n"], tuple((q["sps"], q["R"], q["df"], q["p"], q["lw"]) for q in case["steps"]))
    if case["kind"] == "laser":
        return ("laser", case["n"], case["lw"] is not None, case["rin"] is not None, case["df"], case["p"], case.get("tdtype")) if case["n"] >= 2 else None
    fl = case["field"]
    if fl["n"] < 2 or not any(abs(re) + abs(im) > 0 for row in fl["sig"] for re, im in row):
        return None
    return (case["kind"], fl["npol"], fl["noise_kind"], fl["dtype"], fl["n"],
            tuple((c["dev"], c["drive"]["kind"], len(c["drive"]["v"]), c.get("pol")) for c in case["calls"]),
            case.get("BW"), tuple(tuple(q) for q in case.get("seq", [])))
