"""C11 — LPF and BPF are linear zero-phase filters with unit DC gain and -6 dB at cut-off."""
import base64
import math
import warnings

import numpy as np

from harness.common.wire import enc_f, Toks, exc_enum
from harness.common.watchdog import time_limit, Timeout

ID = "C11"
MANIFEST = {
    "text": "Lean 4 theorems (Props/C11.lean) about a generic model of scipy's sosfiltfilt pipeline as LPF/BPF use it (odd extension, "
            "zi*x0 initial conditions, direct-form-II-transposed section recursion, forward/reverse/forward/reverse, trim, per row and "
            "per signal/noise component), with the second-order sections, zi and the pad length as parameters: F(a*x+b*y)=a*F(x)+b*F(y) "
            "for real rows/real scalars and complex rows/complex scalars of any length and any number of sections; length preserved "
            "(ValueError exactly when len <= padding); signal, noise and each polarisation filtered independently by the same row "
            "filter; LPF output depends on the real part only; F(const c)=const c for every length and c under the hypothesis "
            "SteadyState(sos,zi) and prod(sum b/sum a)=1; retH = fftshift of prod B_i(z^-1)/A_i(z^-1) on the N-point grid: N points, ifftshift recovers grid "
            "order for every N, value prod(sum b/sum a) (=1 under the dc_gain hypothesis) at the centre, Hermitian about the centre, a steady-state "
            "complex exponential is scaled by H per pass and by |H|^2 (zero phase) forward-backward.  Tie: the same definitions executed at Float against LPF()/BPF() outputs on the "
            "sos actually passed to scipy.signal.sosfiltfilt (spied), zi from scipy.signal.sosfilt_zi, padlen as scipy computes it; the "
            "steady-state hypothesis and prod G = 1 are evaluated numerically on those coefficients for every case.",
    "note": "scipy.signal.bessel (filter design) and sosfilt_zi are parameters of the model, not modelled; therefore -6.0 dB at cut-off, "
            "monotone attenuation, zero delay / symmetric pulse response of the REAL edge-padded filter and no power increase of a tone "
            "are NOT theorems: they are checked by the oracle on the real code (tones fitted in the central third of long records, "
            "Gaussian pulses, retH against measured tone gains). sosfreqz is modelled (polynomial ratio per section on w_k=2*pi*k/N) and "
            "tied by the Float run against the returned retH (odd and even N, 1e-9). Proofs over R (no rounding). The padding is 3*(order+1) samples (15 for "
            "the default order 4); rows not longer than that raise ValueError in scipy and are outside the statement's quantifier. "
            "Axioms: propext, Classical.choice, Quot.sound.",
    "technique": "Lean 4 proof (induction over samples and sections) about a generic sosfiltfilt model executed at Float in a differential run against LPF()/BPF() with spied scipy coefficients; executable oracle for the design-dependent clauses",
    "design": "§5 C11",
}
GEN = []
MODELS = ["OptiVerif.Model.Filter"]
RULE = ("cases = (device LPF|BPF, order 1..8, cut-off/fs in (0.01,0.45) incl. both ends, fs = sps*R or explicit, N from padding+1 to 300 "
        "(2000 thorough) incl. powers of two and primes, ndarray(float|int)|container input, real|complex dtype, 1|2 polarisations, "
        "with|without noise, amplitude regimes 1e-15..1e9 with noise level 0.1|1|1e-11 of the signal and a homogeneity factor h in "
        "{1e-15,1e-13,1e-9,1e9}; dark records: signal identically zero on x, on y or everywhere while noise is present on every row "
        "(a third of the BPF cases, a ninth of the LPF cases); a third of the cases draw the absolute cut-off from {1,2,4} GHz so that the same (BW, order) "
        "recurs in one process under different sampling rates) + histories (same BW and order under 3 sampling rates in sequence and back, "
        "via gv or LPF's fs=, each call sent to the model and compared with a freshly designed scipy reference) "
        "; sampling rates over all scales (normalised 1, 2.5, 5, 7, 25, 64 incl. odd and fractional, kHz, MHz, GHz, THz) both through gv and "
        "through LPF's explicit fs=, cut-offs always a fraction of fs, histories at normalised rates with a 1 Hz cut-off"
        "; gv configured in every way ((sps,R), (sps,fs), (R,fs) with fs not a multiple of R, fs alone, slot count N in force) for a third "
        "of the LPF/BPF cases, a third of the tone (cut-off) cases and one step of every history, cut-offs and the model referring to the "
        "REQUESTED rate; every real call runs under an operand monitor (operand bytes unchanged, result is a new object, no shared memory); "
        "every LPF/BPF case chains a second stage of equal, larger and smaller bandwidth on the RETURNED object and compares it bit for bit "
        "with the same call on a fresh container of the same samples; the returned object's attribute set is monitored; "
        "every LPF/BPF case repeats the call on the same object, calls positionally in the documented order vs by keyword, and (LPF) with "
        "retH=True; tones are carried by the signal AND the noise component, for LPF also with retH=True "
        "+ long records (65537, 100000, 131072 samples; LPF and BPF; 1 and 2 polarisations; Gaussian pulses at different instants on every "
        "row of signal and noise; the WHOLE record goes through the Lean model and the symmetric-pulse / zero-delay clause is checked per row) "
        "+ tone / pulse / retH / too-short records; non-trivial = filter applied to a "
        "non-constant record longer than the padding; distinct by all parameters and the data seed")
PARTIAL = [
    "-6.0 dB at cut-off (BW for LPF, BW/2 either side of the carrier for BPF): depends on scipy's Bessel design (norm='mag'); oracle: tone at the cut-off fitted in the central third of a long record, |att-6.0206 dB| <= 0.05 dB",
    "attenuation grows monotonically with frequency: oracle on 7 tones per case (gain non-increasing within 1e-6)",
    "zero delay / symmetric pulse response: oracle (Gaussian pulse, mirror error <= 1e-9 of the peak; tone phase <= 1e-5 rad), also on every signal/noise row of records of 65537, 100000 and 131072 samples; those long records are ALSO tied to the Lean model in full (the whole record is filtered by the model and compared sample by sample, no prefix/decimation)",
    "never increases the power of a stationary tone: oracle (fitted gain <= 1+1e-6 on every tone)",
    "retH: its length, fftshift layout, DC value, Hermitian symmetry and its meaning for the recursion (steady-state exponential scaled by H per pass, |H|^2 forward-backward) ARE theorems and the Float model is compared with the returned array; what stays oracle-only is |H(cut-off)| = 1/sqrt2 (Bessel design) and the agreement of |H|^2 with the two-pass gain MEASURED on the real filter with its real (DC steady-state) initial conditions and edges",
    "scipy.signal.bessel / sosfilt_zi / the compiled _sosfilt loop are trusted to be what the model's parameters and recursion say; Float rounding is outside the theorems",
]
ASSUMPTIONS = ["scipy.signal.sosfiltfilt implements the documented pad/zi/forward-backward algorithm (tied by the differential run)",
               "SteadyState(sos, zi) and prod G = 1 hold for the coefficients scipy returns (evaluated on every case, rel. 1e-9)",
               "IEEE double arithmetic on both sides"]
BUDGET = {"quick": 120, "thorough": 900}

ATT_DB = 20 * math.log10(2.0)          # 6.0206: two passes of a prototype with -3.0103 dB at Wn
# (sps, R) pairs; fs = sps*R spans normalised rates (1, 2.5, 5, 7, 25, 64: odd and fractional), kHz, MHz, GHz and THz.
# The first four are the GHz rates of the recurring absolute cut-offs (GVS_FIXED).
GVS = [(16, 1e9), (8, 10e9), (4, 2.5e9), (33, 1e9), (16, 40e9),
       (5, 1.0), (7, 1.0), (25, 1.0), (5, 0.5), (64, 1.0), (1, 1.0), (9, 4.9e3), (3, 1.7e6), (7, 0.3e9), (16, 1e12), (3, 0.7e12)]
# explicit fs= arguments of LPF over the same scales (None = take gv.fs)
FS_ARGS = [None, None, None, 3.3e9, 7e10, 1.0, 2.5, 5.0, 7.0, 25.0, 64.0, 44101.0, 4.7e6, 2.5e12]
# absolute cut-offs (Hz) that recur, within one process, under several sampling rates (history / memoisation of the design):
# each is inside (0.01, 0.45)*fs for the first four entries of GVS (fs = 16, 80, 10, 33 GS/s)
WN_FIXED = [1e9, 2e9, 4e9]
GVS_FIXED = GVS[:4]
# documented positional order of the anchored functions (signatures of /repo HEAD 8caea4c; literal on purpose)
POSITIONAL = {"LPF": ["input", "BW", "n", "fs", "retH"], "BPF": ["input", "BW", "n"]}
# every way of configuring gv: (sps,R), (sps,fs), (R,fs) with NON-integer fs/R, fs alone (R stays at its default), slot count N in force
GV_CONFIGS = [{"sps": 16, "R": 1e9}, {"sps": 8, "fs": 20e9}, {"R": 10e9, "fs": 25e9}, {"R": 2.5e9, "fs": 33e9}, {"R": 3e9, "fs": 10e9},
              {"fs": 12.5e9}, {"fs": 16e9}, {"R": 10e9, "fs": 25e9, "N": 4}, {"sps": 8, "R": 5e9, "N": 3}, {"sps": 5, "fs": 12e9, "N": 2},
              # small / normalised, kHz, MHz, THz rates (odd and fractional fs included)
              {"sps": 5, "R": 1.0}, {"fs": 7.0}, {"sps": 25, "R": 1.0}, {"sps": 5, "fs": 2.5}, {"R": 2.0, "fs": 5.0}, {"sps": 1, "R": 1.0},
              {"sps": 7, "R": 1.0, "N": 3}, {"fs": 25.0, "R": 10.0}, {"sps": 9, "R": 4.9e3}, {"R": 1.5e6, "fs": 4.7e6}, {"fs": 2.5e12, "sps": 4}]
GV_NONINT = [{"R": 10e9, "fs": 25e9}, {"R": 2.5e9, "fs": 33e9}, {"R": 3e9, "fs": 10e9}, {"fs": 12.5e9}, {"R": 10e9, "fs": 25e9, "N": 4}]
# for the histories (absolute cut-offs 1/2/4 GHz stay inside (0.01,0.45)*fs)
GV_HIST_EXTRA = [{"R": 10e9, "fs": 25e9}, {"fs": 12.5e9}, {"sps": 8, "fs": 20e9, "N": 4}]
# histories at normalised rates: absolute cut-off 1 Hz is inside (0.01, 0.45)*fs for fs = 5, 7, 25, 2.5 (and 3.5)
GV_HIST_SMALL = [{"sps": 5, "R": 1.0}, {"fs": 7.0}, {"sps": 25, "R": 1.0}, {"sps": 5, "R": 0.5}, {"R": 1.0, "fs": 3.5}]


def _fs_requested(cfg):
    """the sampling rate a gv(...) call asks for (gv.R defaults to 1e9 after gv.clean())"""
    if "fs" in cfg and not ("sps" in cfg and "R" in cfg):
        return float(cfg["fs"])
    return float(int(round(cfg["sps"])) * cfg["R"])


def _gvcfg(case):
    return case.get("gvcfg") or {"sps": case["sps"], "R": case["R"]}


# ------------------------------------------------------------------------------------------------ generators

def _edge(order):
    return 3 * (order + 1)


def _fcn(rng):
    r = rng.random()
    if r < 0.08:
        return 0.0101
    if r < 0.16:
        return 0.4499
    return math.exp(rng.uniform(math.log(0.0101), math.log(0.4499)))


def gen_cases(rng, tier):
    cases = []
    quick = tier == "quick"
    nmax = 300 if quick else 2000
    reps = 9 if quick else 180
    special = [16, 17, 31, 32, 33, 64, 97, 127, 128, 256, 257]
    for order in range(1, 9):
        e = _edge(order)
        for rep in range(reps):
            for dev in ("lpf", "bpf"):
                pick = rep % 6
                if pick == 0:
                    n = e + 1
                elif pick == 1:
                    n = e + 2
                elif pick == 2:
                    n = rng.choice([v for v in special if v > e])
                elif pick == 3 and not quick:
                    n = rng.randint(301, nmax)
                else:
                    n = rng.randint(e + 1, 300)
                sps, R = rng.choice(GVS)
                c = {"kind": dev, "order": order, "fcn": _fcn(rng), "n": n, "sps": sps, "R": R,
                     "noise": rng.random() < 0.5, "seed": rng.getrandbits(32),
                     # amplitude regimes: every tolerance is relative to the data, so femto-volt and giga-volt records must behave alike
                     "scale": rng.choice([1e-15, 1e-13, 1e-9, 1e-3, 1.0, 1.0, 50.0, 1e9]),
                     "nscale": rng.choice([0.1, 0.1, 1.0, 1e-11]),            # noise level relative to the signal level
                     "hom": rng.choice([1e-15, 1e-13, 1e-9, 1e9]),            # homogeneity factor: F(h x) = h F(x)
                     "a": [rng.uniform(-3, 3), rng.uniform(-3, 3)], "b": [rng.uniform(-3, 3), rng.uniform(-3, 3)]}
                if rep % 3 == 0:
                    c["gvcfg"] = dict(rng.choice(GV_CONFIGS))
                if rep % 3 == 2:
                    # the SAME absolute cut-off recurs across cases of the run under different sampling rates
                    c["sps"], c["R"] = rng.choice(GVS_FIXED)
                    c["wn"] = rng.choice(WN_FIXED)
                if dev == "lpf":
                    c["form"] = rng.choice(["ndarray", "ndarray-int", "container", "container", "container-complex"])
                    c["fs_arg"] = rng.choice(FS_ARGS) if "wn" not in c else rng.choice([None, None, 33e9, 80e9])
                    if not c["form"].startswith("container"):
                        c["noise"] = False
                    c["npol"] = 1
                    if rep % 9 == 4:
                        # a record whose signal part is identically zero but which carries noise
                        c["form"], c["noise"], c["dark"] = "container", True, "all"
                else:
                    c["form"] = "container"
                    c["npol"] = rng.choice([1, 2])
                    if rep % 3 == 1:
                        # dark polarisation(s): signal identically zero on x, on y or everywhere, noise (ASE) on every row
                        c["noise"] = True
                        c["dark"] = rng.choice(["x", "y", "all"]) if c["npol"] == 2 else "all"
                cases.append(c)
    # design-dependent clauses: tones, pulses, retH (oracle only)
    nt = 3 if quick else 12
    for order in range(1, 9):
        for k in range(nt):
            sps, R = rng.choice(GVS)
            fcn = [0.0101, 0.4499, _fcn(rng)][k] if k < 3 else _fcn(rng)
            cases.append({"kind": "tone", "dev": rng.choice(["lpf", "bpf"]) if k else ("lpf" if order % 2 else "bpf"),
                          "order": order, "fcn": fcn, "sps": sps, "R": R, "npol": rng.choice([1, 2]),
                          "phase": rng.uniform(0, 6.28), "amp": rng.choice([1e-13, 0.01, 1.0, 7.0, 1e9]), "seed": rng.getrandbits(32),
                          "fs_arg": rng.choice(FS_ARGS)})
            if k == 2 or (k >= 4 and k % 2 == 0):
                # cut-off clause under every way of configuring gv; non-integer fs/R for both devices in every run
                t = cases[-1]
                t["dev"] = "bpf" if (order + k // 2) % 2 == 0 else "lpf"
                t["gvcfg"] = dict(GV_NONINT[(order + k) % len(GV_NONINT)] if k == 2 else rng.choice(GV_CONFIGS))
                t["fs_arg"] = None
            if k >= 1 and k % 2 == 1:
                t = cases[-1]
                t["sps"], t["R"] = rng.choice(GVS_FIXED)
                t["wn"] = rng.choice(WN_FIXED)
                t["fs_arg"] = rng.choice([None, None, 33e9, 80e9])
        for k in range(1 if quick else 4):
            sps, R = rng.choice(GVS)
            cases.append({"kind": "pulse", "dev": rng.choice(["lpf", "bpf"]), "order": order, "fcn": _fcn(rng), "sps": sps, "R": R,
                          "npol": 1, "pos": rng.uniform(0.4, 0.6), "seed": rng.getrandbits(32)})
        # retH: odd and even record lengths (fftshift and ifftshift differ on odd ones), cut-off on a grid bin
        for nr in ([rng.choice([33, 101, 257, 601]), rng.choice([64, 400, 512])] if quick else [33, 64, 101, 257, 400, 512, 601]):
            sps, R = rng.choice(GVS)
            cases.append({"kind": "reth", "dev": "lpf", "order": order, "nr": nr,
                          "kc": rng.randint(max(1, int(math.ceil(0.011 * nr))), int(0.44 * nr)),
                          "sps": sps, "R": R, "npol": 1, "fs_arg": rng.choice([None, 5e9, 7.0, 25.0, 2.5]), "seed": rng.getrandbits(32)})
        # records not longer than the padding: scipy refuses them (outside the statement; the model must agree on the error)
        sdev = rng.choice(["lpf", "bpf"])
        cases.append({"kind": "short", "dev": sdev, "order": order, "fcn": _fcn(rng),
                      "n": rng.choice([1, 2, _edge(order) - 1, _edge(order)]), "sps": 16, "R": 1e9,
                      "npol": rng.choice([1, 2]) if sdev == "bpf" else 1,
                      "noise": False, "scale": 1.0, "seed": rng.getrandbits(32), "form": "container"})
    rng.shuffle(cases)
    # histories: the same (BW, order) under 3 sampling rates in sequence and back to the first, inside ONE run_impl.
    # They run FIRST: a violation that needs a history is then reported from a self-contained (replayable) case.
    hist = []
    for order in range(1, 9):
        for hdev in (["lpf", "bpf", "lpf-fs"] if not quick else [["lpf", "bpf", "lpf-fs"][(order + j) % 3] for j in range(2)]):
            for _ in range(1 if quick else 3):
                small = (order % 3 == 0) if quick else (_ == 2)
                if small:                                  # normalised rates, cut-off 1 Hz
                    seq = rng.sample(GV_HIST_SMALL, 3)
                else:
                    seq = rng.sample(GVS_FIXED, 2) + [rng.choice(GV_HIST_EXTRA)]
                    rng.shuffle(seq)
                seq = [g if isinstance(g, dict) else {"sps": g[0], "R": g[1]} for g in seq]
                seq = seq + [seq[0]]
                hist.append({"kind": "hist", "dev": hdev, "order": order, "wn": 1.0 if small else rng.choice(WN_FIXED), "seq": [dict(g) for g in seq],
                              "sps": 16, "R": 1e9, "n": rng.randint(_edge(order) + 1, 90), "npol": rng.choice([1, 2]) if hdev == "bpf" else 1,
                              "noise": rng.random() < 0.5, "scale": 1.0, "seed": rng.getrandbits(32)})
    rng.shuffle(hist)
    # long records (longer than any plausible internal block size: 2^16+1, 1e5, 2^17), 1 and 2 polarisations, LPF and BPF:
    # full model tie (the Lean model filters the whole record) + zero-delay / symmetric-pulse clause on every row and component
    longs = []
    plan = [(65537, "bpf", 2, False), (100000, "bpf", 1, True), (131072, "bpf", 2, False),
            (65537, "lpf", 1, True), (100000, "lpf", 1, False), (131072, "lpf", 1, False)]
    for rnd in range(1 if quick else 3):
        for n, ldev, npol, noise in plan:
            sps, R = rng.choice(GVS)
            longs.append({"kind": "long", "dev": ldev, "order": rng.randint(1, 8) if rnd else rng.choice([4, 4, 2, 7]),
                          "fcn": 0.0625 if rnd == 0 and n == 65537 else _fcn(rng), "n": n, "npol": npol,
                          "noise": noise if rnd == 0 else rng.random() < 0.4, "sps": sps, "R": R,
                          "pos": [rng.uniform(0.2, 0.8) for _ in range(4)], "amp": rng.choice([1e-9, 1.0, 30.0]),
                          "seed": rng.getrandbits(32)})
    return hist + cases + longs


# ------------------------------------------------------------------------------------------------ data

def _data(case):
    """deterministic input arrays of a lpf/bpf/short case: (signal, noise|None, second signal, second noise|None)"""
    r = np.random.default_rng(case["seed"])
    n, npol = case["n"], case["npol"]
    shape = (n,) if npol == 1 else (2, n)
    form = case.get("form", "container")
    cplx = case["kind"] == "bpf" or case.get("dev") == "bpf" or form == "container-complex"

    def arr(scale):
        t = np.arange(n)
        base = r.normal(size=shape) + 0.7 * np.cos(2 * np.pi * r.uniform(0, 0.5) * t + r.uniform(0, 6.28)) + r.uniform(-2, 2)
        if form == "ndarray-int":
            return np.round(base * 10).astype(np.int64)
        if cplx:
            base = base + 1j * (r.normal(size=shape) + r.uniform(-2, 2))
        return base * scale
    ns = case["scale"] * case.get("nscale", 0.1)
    s = arr(case["scale"])
    nz = arr(ns) if case.get("noise") else None
    s2 = arr(case["scale"])
    nz2 = arr(ns) if case.get("noise") else None
    dark = case.get("dark")
    if dark:                                   # the signal part (of the main input only) is identically zero there
        s = s.copy()
        if npol == 1 or dark == "all":
            s[...] = 0
        else:
            s[0 if dark == "x" else 1] = 0
    return s, nz, s2, nz2


def _pack(a):
    a = np.ascontiguousarray(np.asarray(a, dtype=np.complex128))
    return {"shape": list(a.shape), "b64": base64.b64encode(a.tobytes()).decode("ascii")}


def _unpack(d):
    return np.frombuffer(base64.b64decode(d["b64"]), dtype=np.complex128).reshape(d["shape"])


def _rows(a):
    a = np.asarray(a)
    return a[None, :] if a.ndim == 1 else a


# ------------------------------------------------------------------------------------------------ spies

class _Spy:
    """records what opticomlib.devices hands to / gets from scipy.signal (it calls `sg.bessel`, `sg.sosfiltfilt`)"""

    def __init__(self, dev):
        self.sg = dev.sg
        self.orig = (self.sg.bessel, self.sg.sosfiltfilt)
        self.bessel = []
        self.ff = []
        self.on = True

    def __enter__(self):
        ob, of = self.orig

        def bessel(*a, **k):
            r = ob(*a, **k)
            if self.on:
                try:
                    self.bessel.append(np.array(r, dtype=float, copy=True))
                except Exception:  # noqa  (other output= forms)
                    self.bessel.append(None)
            return r

        def sosfiltfilt(sos, x, *a, **k):
            if self.on:
                kw = dict(k)
                for name, v in zip(("axis", "padtype", "padlen"), a):
                    kw[name] = v
                self.ff.append({"sos": np.array(sos, dtype=float, copy=True), "axis": kw.get("axis", -1),
                                "padtype": kw.get("padtype", "odd"), "padlen": kw.get("padlen", None),
                                "ndim": int(np.ndim(x))})
            return of(sos, x, *a, **k)
        self.sg.bessel, self.sg.sosfiltfilt = bessel, sosfiltfilt
        return self

    def __exit__(self, *exc):
        self.sg.bessel, self.sg.sosfiltfilt = self.orig
        return False


def _params(spy):
    """model parameters from the spied calls of the MAIN call: sos rows, zi (scipy.signal.sosfilt_zi), pad length computed
    exactly as scipy.signal.sosfiltfilt does; plus remarks about anything the model cannot represent"""
    import scipy.signal as ssg
    remarks = []
    if spy.ff:
        f0 = spy.ff[0]
        sos = f0["sos"]
        for f in spy.ff[1:]:
            if f["sos"].shape != sos.shape or not np.array_equal(f["sos"], sos):
                remarks.append("sosfiltfilt was called with different coefficients for different components")
        if f0["padtype"] != "odd":
            remarks.append(f"padtype={f0['padtype']!r} (the model has the odd extension only)")
        if f0["axis"] not in (-1, f0["ndim"] - 1):
            remarks.append(f"axis={f0['axis']}")
        padlen = f0["padlen"]
    elif spy.bessel and spy.bessel[0] is not None:
        remarks.append("scipy.signal.sosfiltfilt was not called by the implementation")
        sos, padlen = spy.bessel[0], None
    else:
        return None, ["neither scipy.signal.bessel nor sosfiltfilt was called by the implementation"]
    if sos.ndim != 2 or sos.shape[1] != 6:
        return None, remarks + [f"sos shape {sos.shape}"]
    if not np.all(sos[:, 3] == 1.0):
        remarks.append("a0 != 1 in a section")
    ntaps = 2 * sos.shape[0] + 1
    ntaps -= min(int((sos[:, 2] == 0).sum()), int((sos[:, 5] == 0).sum()))
    edge = ntaps * 3 if padlen is None else int(padlen)
    zi = ssg.sosfilt_zi(sos)
    # the hypotheses of theorem dc_gain, evaluated on these very numbers
    u, worst = 1.0, 0.0
    for row, z in zip(sos, zi):
        b0, b1, b2, _, a1, a2 = (float(v) for v in row)
        sa = 1.0 + a1 + a2
        if sa == 0.0:
            worst = float("inf")
            break
        g = u * (b0 + b1 + b2) / sa
        mag = max(abs(g), abs(u), 1e-300) * (1 + abs(a1) + abs(a2) + abs(b0) + abs(b1) + abs(b2))
        worst = max(worst, abs(z[1] - (b2 * u - a2 * g)) / mag, abs(z[0] - (g - b0 * u)) / mag)
        u = g
    return {"sos": [[float(v) for v in row] for row in sos], "zi": [[float(v) for v in row] for row in zi], "edge": edge,
            "steady_resid": worst, "gain_prod": u, "bessel_calls": len(spy.bessel), "ff_calls": len(spy.ff)}, remarks


# ------------------------------------------------------------------------------------------------ real code

def _mk(dev_name, s, nz, npol):
    from opticomlib.typing import optical_signal, electrical_signal
    if dev_name == "bpf":
        return optical_signal(s, nz, n_pol=npol)
    return electrical_signal(s, nz)


_MON = []          # operand monitor findings of the current run_impl


def _arrays(obj):
    if isinstance(obj, np.ndarray):
        return [("array", obj)]
    out = [("signal", obj.signal)]
    if getattr(obj, "noise", None) is not None:
        out.append(("noise", obj.noise))
    return out


def _monitored(fname, func, x, *args, **kw):
    """every real LPF/BPF call: the operand must come back untouched (same bytes, same noise presence), the result must be a new
    object and must not share memory with the operand"""
    before = [(nm, a, a.tobytes(), a.dtype, a.shape) for nm, a in _arrays(x)]
    out = func(x, *args, **kw)
    y = out[0] if isinstance(out, tuple) else out
    after = _arrays(x)
    if [nm for nm, *_ in before] != [nm for nm, _ in after]:
        _MON.append(("operand-modified", f"{fname}: the operand's noise component appeared/disappeared"))
    for (nm, a0, b0, dt, sh), (_, a1) in zip(before, after):
        if a1 is not a0 or a1.dtype != dt or a1.shape != sh or a1.tobytes() != b0:
            _MON.append(("operand-modified", f"{fname}: the operand's .{nm} was changed by the call"
                                             + (" (array replaced)" if a1 is not a0 else " (samples overwritten)")))
    if hasattr(y, "signal"):
        # the result is an ordinary container: the attribute set of a fresh object of its class (execution_time apart)
        fresh = type(y)(np.zeros(2)) if y.signal.ndim == 1 else type(y)(np.zeros((2, 2)))
        ka, kb = set(vars(y)) - {"execution_time"}, set(vars(fresh)) - {"execution_time"}
        if ka != kb:
            _MON.append(("result-attributes", f"{fname}: the returned {type(y).__name__} carries attributes {sorted(ka ^ kb)} that a fresh "
                                              f"container of that class does not (or lacks them)"))
    if y is x:
        _MON.append(("result-is-operand", f"{fname} returned its own operand object"))
    elif hasattr(y, "signal"):
        for nm, a in _arrays(x):
            for nm2, b in _arrays(y):
                if np.shares_memory(a, b):
                    _MON.append(("result-aliases-operand", f"{fname}: result .{nm2} shares memory with the operand's .{nm}"))
    return out


def _call(dev_name, x, case, bw, **kw):
    from opticomlib.devices import LPF, BPF
    if dev_name == "bpf":
        return _monitored("BPF", BPF, x, bw, case["order"])
    if case.get("fs_arg"):
        return _monitored("LPF", LPF, x, bw, case["order"], fs=case["fs_arg"], **kw)
    return _monitored("LPF", LPF, x, bw, case["order"], **kw)


def _same(p, q):
    """two result containers equal bit for bit (signal and noise, noise presence, class)"""
    if type(p) is not type(q) or (p.noise is None) != (q.noise is None):
        return False
    if p.signal.shape != q.signal.shape or p.signal.dtype != q.signal.dtype or p.signal.tobytes() != q.signal.tobytes():
        return False
    return p.noise is None or (p.noise.shape == q.noise.shape and p.noise.tobytes() == q.noise.tobytes())


def _maxabs(a):
    a = np.asarray(a)
    return float(np.max(np.abs(a))) if a.size else 0.0


def _fit(x, y, fn, lo, hi, cplx):
    """least-squares amplitude of the tone at normalised frequency fn in x and y over samples lo..hi:
    (complex gain y/x, residual of y relative to its amplitude)"""
    k = np.arange(len(x))[lo:hi]
    if cplx:
        e = np.exp(2j * np.pi * fn * k)
        cx = np.vdot(e, x[lo:hi]) / len(k)
        cy = np.vdot(e, y[lo:hi]) / len(k)
        resid = _maxabs(y[lo:hi] - cy * e)
    else:
        B = np.stack([np.cos(2 * np.pi * fn * k), np.sin(2 * np.pi * fn * k)], 1)
        px = np.linalg.lstsq(B, np.real(x[lo:hi]), rcond=None)[0]
        py = np.linalg.lstsq(B, np.real(y[lo:hi]), rcond=None)[0]
        cx, cy = px[0] - 1j * px[1], py[0] - 1j * py[1]
        resid = _maxabs(B @ py - np.real(y[lo:hi]))
    return cy / cx, resid / max(abs(cx), 1e-300)


def _tone_len(fn_cut):
    return int(max(600, 60 / fn_cut, 60 / (0.5 - fn_cut)))


def run_impl(case):
    from opticomlib.typing import gv
    import opticomlib.devices as dev
    res = {}
    kind = case["kind"]
    devn = case.get("dev", kind)
    try:
        with warnings.catch_warnings():
            warnings.simplefilter("ignore")
            gv.clean()
            del _MON[:]
            cfg = _gvcfg(case)
            gv(**cfg)
            # the rate the session was ASKED to run at (not read back from gv): cut-offs, tones and the model refer to it
            fs_req = _fs_requested(cfg)
            res["gv_fs"], res["fs_req"] = float(gv.fs), fs_req
            fs = float(case.get("fs_arg") or fs_req) if devn == "lpf" else fs_req
            res["fs"] = fs
            with _Spy(dev) as spy, time_limit(60):
                if kind in ("lpf", "bpf", "short"):
                    _run_main(case, devn, fs, spy, res)
                elif kind == "tone":
                    _run_tone(case, devn, fs, spy, res)
                elif kind == "pulse":
                    _run_pulse(case, devn, fs, spy, res)
                elif kind == "reth":
                    _run_reth(case, fs, spy, res)
                elif kind == "hist":
                    _run_hist(case, spy, res)
                elif kind == "long":
                    _run_long(case, devn, fs, spy, res)
                else:
                    raise ValueError("unknown kind")
    except Timeout as e:
        res.update(status="timeout", detail=str(e))
    except Exception as e:  # noqa
        res.update(status="err", err=exc_enum(e), detail=repr(e)[:200])
    finally:
        res["monitor"] = sorted({(a, b) for a, b in _MON})
        try:
            gv.clean()
        except Exception:
            pass
    return res


def _bw(case, devn, fs):
    """the BW argument: from the normalised cut-off, or an absolute cut-off `wn` (then fcn is derived and stored)"""
    if "wn" in case:
        case["fcn"] = case["wn"] / fs
        return case["wn"] * (2.0 if devn == "bpf" else 1.0)
    return case["fcn"] * fs * (2.0 if devn == "bpf" else 1.0)


def _run_main(case, devn, fs, spy, res):
    s, nz, s2, nz2 = _data(case)
    npol = case["npol"]
    bw = _bw(case, devn, fs)
    form = case.get("form", "container")
    x = np.array(s) if form.startswith("ndarray") else _mk(devn, s, nz, npol)
    try:
        y = _call(devn, x, case, bw)
    finally:
        spy.on = False                       # only the main call defines the model's parameters
        res["params"], res["remarks"] = _params(spy)
    res.update(status="ok", cls=type(y).__name__, npol=getattr(y, "n_pol", 1), shape=list(y.signal.shape),
               out=_pack(_rows(y.signal)), out_noise=None if y.noise is None else _pack(_rows(y.noise)),
               has_noise_in=nz is not None,
               finite=bool(np.all(np.isfinite(y.signal)) and (y.noise is None or np.all(np.isfinite(y.noise)))))
    if case["kind"] == "short":
        return
    scale = max(_maxabs(s), _maxabs(s2))
    res["scale"] = scale
    res["mag_s"] = _maxabs(s)
    res["mag_n"] = None if nz is None else max(_maxabs(nz), _maxabs(nz2))
    cplx_scalars = devn == "bpf"
    a = complex(*case["a"]) if cplx_scalars else case["a"][0]
    b = complex(*case["b"]) if cplx_scalars else case["b"][0]
    # linearity on the object kind of the case
    if form == "ndarray-int":
        sf, s2f = s.astype(float), s2.astype(float)
    else:
        sf, s2f = s, s2
    mk = (lambda sig, noi: np.array(sig)) if form.startswith("ndarray") else (lambda sig, noi: _mk(devn, sig, noi, npol))
    y2 = _call(devn, mk(s2f, nz2), case, bw)
    comb_n = None if nz is None else a * nz + b * nz2
    y3 = _call(devn, mk(a * sf + b * s2f, comb_n), case, bw)
    res["lin_sig"] = _maxabs(y3.signal - (a * y.signal + b * y2.signal))
    res["lin_noise"] = None if nz is None or y3.noise is None or y.noise is None or y2.noise is None else \
        _maxabs(y3.noise - (a * y.noise + b * y2.noise))
    # components are treated alike and independently
    if nz is not None and y.noise is not None:
        ysw = _call(devn, _mk(devn, nz, s, npol), case, bw)
        # each half relative to the magnitude of the component it concerns
        res["swap_n"] = _maxabs(ysw.signal - y.noise)
        res["swap_s"] = None if ysw.noise is None else _maxabs(ysw.noise - y.signal)
        yalone = _call(devn, _mk(devn, s, None, npol), case, bw)
        res["indep"] = _maxabs(yalone.signal - y.signal)
        res["alone_noise_none"] = yalone.noise is None
    if npol == 2:
        ysp = _call(devn, _mk(devn, s[::-1].copy(), None if nz is None else nz[::-1].copy(), 2), case, bw)
        res["polswap"] = _maxabs(ysp.signal[::-1] - y.signal)
        yone = _call(devn, _mk(devn, s[1].copy(), None, 1), case, bw)
        res["pol_alone"] = _maxabs(yone.signal - y.signal[1])
    # chains on the RETURNED object: a second stage of equal, larger and smaller bandwidth must act exactly as on a fresh
    # container holding the same samples (the result depends on the samples, not on the container's history)
    fcn = case["fcn"]
    chain = []
    for f in (1.0, min(1.5, 0.449 / fcn), min(1.0, max(0.6, 0.0102 / fcn))):
        zr = _call(devn, y, case, bw * f)
        ys = np.array(y.signal, copy=True)
        yn = None if y.noise is None else np.array(y.noise, copy=True)
        zf = _call(devn, _mk(devn, ys, yn, npol), case, bw * f)
        chain.append({"f": f, "same": _same(zr, zf)})
    res["chain"] = chain
    # the same object filtered again gives the same result (the operand is not consumed)
    yrep = _call(devn, x, case, bw)
    res["repeat"] = _same(yrep, y)
    # positional twin: documented order POSITIONAL[...] vs every argument by keyword, bit-identical results
    from opticomlib.devices import LPF, BPF
    try:
        if devn == "bpf":
            names = POSITIONAL["BPF"]
            vals = [x, bw, case["order"]]
            yp = _monitored("BPF", BPF, *vals)
            yk = BPF(**dict(zip(names, vals)))
            res["positional"] = _same(yp, yk) and _same(yp, y)
        else:
            names = POSITIONAL["LPF"]
            vals = [x, bw, case["order"], case.get("fs_arg"), False]
            yp = _monitored("LPF", LPF, *vals)
            yk = LPF(**dict(zip(names, vals)))
            res["positional"] = _same(yp, yk) and _same(yp, y)
            vals[4] = True
            rp = _monitored("LPF", LPF, *vals)
            rk = LPF(**dict(zip(names, vals)))
            ok = isinstance(rp, tuple) and isinstance(rk, tuple) and len(rp) == 2 and len(rk) == 2
            res["positional_reth"] = bool(ok and _same(rp[0], rk[0]) and np.array_equal(np.asarray(rp[1]), np.asarray(rk[1])))
            # retH=True must not change what happens to the signal and to the NOISE: same output object value-wise
            res["reth_same"] = bool(ok and _same(rp[0], y))
            res["reth_noise_present"] = bool(ok and (rp[0].noise is not None) == (y.noise is not None))
    except Timeout:
        raise
    except Exception as e:  # noqa
        res["positional"] = False
        res["positional_err"] = repr(e)[:200]
    # constants
    cval = case["scale"] * (complex(1.7, -0.6) if devn == "bpf" else -2.3)
    n = case["n"]
    cs = np.full((n,) if npol == 1 else (2, n), cval)
    yc = _call(devn, mk(cs, None if nz is None else 0.5 * cs), case, bw)
    res["const"] = _maxabs(yc.signal - cs) / abs(cval)
    res["const_noise"] = None if nz is None or yc.noise is None else _maxabs(yc.noise - 0.5 * cs) / abs(0.5 * cval)
    # homogeneity over many decades: F(h x) = h F(x) (signal and noise)
    h = case.get("hom")
    if h:
        yh = _call(devn, mk(h * sf, None if nz is None else h * nz), case, bw)
        res["hom_sig"] = _maxabs(yh.signal - h * y.signal) / abs(h)
        res["hom_noise"] = None if nz is None or yh.noise is None or y.noise is None else _maxabs(yh.noise - h * y.noise) / abs(h)


def _run_tone(case, devn, fs, spy, res):
    bw = _bw(case, devn, fs)
    fc = case["fcn"]
    res["fcn"] = fc
    n = _tone_len(fc)
    k = np.arange(n)
    top = 0.49
    fns = [0.25 * fc, 0.6 * fc, fc, fc + 0.15 * (top - fc), fc + 0.4 * (top - fc), fc + 0.7 * (top - fc), top]
    if devn == "bpf":
        fns = [f * sg_ for f, sg_ in zip(fns, [1, -1, 1, 1, -1, 1, -1])] + [-fc]
    gains = []
    npol = case["npol"] if devn == "bpf" else 1
    lo, hi = n // 3, 2 * n // 3
    for fn in fns:
        if devn == "bpf":
            row = case["amp"] * np.exp(1j * (2 * np.pi * fn * k + case["phase"]))
            s = row if npol == 1 else np.array([row, 0.5j * row])
        else:
            s = case["amp"] * np.cos(2 * np.pi * fn * k + case["phase"])
        # the noise component carries a tone of its own (other amplitude and phase): every clause applies to it alike
        nzt = s * (0.37 * np.exp(0.8j)) if devn == "bpf" else 0.37 * case["amp"] * np.cos(2 * np.pi * fn * k + case["phase"] + 0.8)
        y = _call(devn, _mk(devn, s, nzt, npol), case, bw)
        groups = [("signal", s, y.signal), ("noise", nzt, y.noise)]
        if devn == "lpf":
            yr_ = _call(devn, _mk(devn, s, nzt, npol), case, bw, retH=True)
            yr_ = yr_[0] if isinstance(yr_, tuple) else yr_
            groups += [("signal/retH=True", s, yr_.signal), ("noise/retH=True", nzt, yr_.noise)]
        for gname, xin, yout in groups:
            if yout is None:
                gains.append({"grp": gname, "fn": fn, "g": float("nan"), "ph": float("nan"), "resid": float("nan"), "pratio": float("nan")})
                continue
            for ri, (xr, yr) in enumerate(zip(_rows(xin), _rows(yout))):
                g, resid = _fit(xr, yr, fn, lo, hi, devn == "bpf")
                p_in = float(np.mean(np.abs(xr[lo:hi]) ** 2))
                p_out = float(np.mean(np.abs(yr[lo:hi]) ** 2))
                gains.append({"grp": f"{gname} row {ri}", "fn": fn, "g": abs(g), "ph": float(np.angle(g)), "resid": resid,
                              "pratio": p_out / p_in})
    res.update(status="ok", gains=gains, n=n, rows=sorted({g["grp"] for g in gains}))
    res["params"], res["remarks"] = _params(spy)


def _step_case(case, i):
    """the data-defining pseudo-case of step i of a history"""
    d = case["dev"]
    return {"kind": "bpf" if d == "bpf" else "lpf", "n": case["n"], "npol": case["npol"], "noise": case["noise"], "scale": case["scale"],
            "seed": (case["seed"] + 7919 * i) % (1 << 32), "form": "container"}


def _run_hist(case, spy, res):
    """same BW and order, sampling rate changing between the calls (gv, or LPF's explicit fs=), back to the first at the end"""
    from opticomlib.typing import gv
    from opticomlib.devices import LPF, BPF
    hdev = case["dev"]
    devn = "bpf" if hdev == "bpf" else "lpf"
    order, wn, npol = case["order"], case["wn"], case["npol"]
    bw = wn * (2.0 if devn == "bpf" else 1.0)
    ob, of = spy.orig
    steps = []
    res.update(status="ok", steps=steps)

    def call(x, fs_arg):
        if devn == "bpf":
            return _monitored("BPF", BPF, x, bw, order)
        return _monitored("LPF", LPF, x, bw, order, fs=fs_arg) if fs_arg else _monitored("LPF", LPF, x, bw, order)
    for i, cfg in enumerate(case["seq"]):
        st = {"i": i}
        steps.append(st)
        if isinstance(cfg, (list, tuple)):                       # older replay files
            cfg = {"sps": cfg[0], "R": cfg[1]}
        if hdev == "lpf-fs":
            gv.clean()
            gv(**case["seq"][0]) if isinstance(case["seq"][0], dict) else gv(sps=case["seq"][0][0], R=case["seq"][0][1])
            fs, fs_arg = _fs_requested(cfg), _fs_requested(cfg)   # gv stays put; the rate is given explicitly
        else:
            gv.clean()
            gv(**cfg)
            fs, fs_arg = _fs_requested(cfg), None                 # the REQUESTED rate
            st["gv_fs"] = float(gv.fs)
        st["fs"] = fs
        fcn = wn / fs
        st["fcn"] = fcn
        s, nz, _, _ = _data(_step_case(case, i))
        spy.bessel.clear()
        spy.ff.clear()
        spy.on = True
        try:
            y = call(_mk(devn, s, nz, npol), fs_arg)
        except Exception as e:  # noqa
            st.update(status="err", err=exc_enum(e), detail=repr(e)[:200])
            spy.on = False
            st["params"], st["remarks"] = _params(spy)
            continue
        finally:
            spy.on = False
        st["params"], st["remarks"] = _params(spy)
        st.update(status="ok", cls=type(y).__name__, shape=list(y.signal.shape), out=_pack(_rows(y.signal)),
                  out_noise=None if y.noise is None else _pack(_rows(y.noise)), scale=_maxabs(s),
                  scale_n=None if nz is None else _maxabs(nz))
        # reference: the prototype designed NOW for the rate in force, applied by scipy itself (unspied originals)
        sos_ref = ob(N=order, Wn=wn, btype="low", fs=fs, output="sos", norm="mag")
        ref = of(sos_ref, s, axis=-1)
        ref = ref if devn == "bpf" else ref.real
        st["ref_err"] = _maxabs(y.signal - ref) if y.signal.shape == ref.shape else None
        if nz is not None and y.noise is not None:
            refn = of(sos_ref, nz, axis=-1)
            refn = refn if devn == "bpf" else refn.real
            st["ref_err_noise"] = _maxabs(y.noise - refn) if y.noise.shape == refn.shape else None
        # -6 dB clause at this rate
        nt = _tone_len(fcn)
        k = np.arange(nt)
        tone = np.exp(2j * np.pi * fcn * k) if devn == "bpf" else np.cos(2 * np.pi * fcn * k + 0.4)
        yt = call(_mk(devn, tone, None, 1), fs_arg).signal
        g, resid = _fit(tone, yt, fcn, nt // 3, 2 * nt // 3, devn == "bpf")
        st["tone"] = {"fn": fcn, "g": abs(g), "ph": float(np.angle(g)), "resid": resid}


def _long_width(case):
    return max(1.5, 0.4 / case["fcn"])


def _long_data(case):
    """one Gaussian pulse per row (different instants), signal rows then noise rows; complex phase for BPF"""
    n, npol = case["n"], case["npol"]
    k = np.arange(n)
    w = _long_width(case)
    rows, centres = [], []
    for i in range(2 * npol if case["noise"] else npol):
        m = int(case["pos"][i] * n)
        x = case["amp"] * (1 + 0.5 * i) * np.exp(-((k - m) / w) ** 2 / 2)
        if case["dev"] == "bpf":
            x = x * np.exp(1j * (0.9 + i))
        rows.append(x)
        centres.append(m)
    sig = rows[0] if npol == 1 else np.array(rows[:2])
    nz = None
    if case["noise"]:
        nz = rows[npol] if npol == 1 else np.array(rows[2:4])
    return sig, nz, centres


def _run_long(case, devn, fs, spy, res):
    sig, nz, centres = _long_data(case)
    bw = _bw(case, devn, fs)
    try:
        y = _call(devn, _mk(devn, sig, nz, case["npol"]), case, bw)
    finally:
        spy.on = False
        res["params"], res["remarks"] = _params(spy)
    res.update(status="ok", cls=type(y).__name__, shape=list(y.signal.shape), out=_pack(_rows(y.signal)),
               out_noise=None if y.noise is None else _pack(_rows(y.noise)), has_noise_in=nz is not None)
    outs = list(_rows(y.signal)) + ([] if y.noise is None else list(_rows(y.noise)))
    pulses = []
    w = _long_width(case)
    for i, (m, yr) in enumerate(zip(centres, outs)):
        if len(yr) != case["n"]:
            continue
        half = int(min(m, case["n"] - 1 - m, 60 * w + 200)) - 1
        kk = np.arange(1, half)
        peak = _maxabs(yr)
        pulses.append({"row": i, "m": m, "argmax": int(np.argmax(np.abs(yr))), "peak": peak,
                       "mirror": _maxabs(yr[m + kk] - yr[m - kk]) / peak if peak > 0 else float("nan")})
    res["pulses"] = pulses
    res["rows_expected"] = len(centres)


def _run_pulse(case, devn, fs, spy, res):
    fc = case["fcn"]
    n = _tone_len(fc) | 1
    bw = _bw(case, devn, fs)
    m = int(case["pos"] * n)
    k = np.arange(n)
    width = max(1.5, 0.4 / fc)
    x = np.exp(-((k - m) / width) ** 2 / 2)
    if devn == "bpf":
        x = x * np.exp(0.9j)
    y = _call(devn, _mk(devn, x, None, 1), case, bw).signal
    half = min(m, n - 1 - m) - 60
    kk = np.arange(1, half)
    peak = _maxabs(y)
    res.update(status="ok", n=n, m=m, half=int(half), peak=peak, peak_in=_maxabs(x),
               mirror=_maxabs(y[m + kk] - y[m - kk]) / peak, argmax=int(np.argmax(np.abs(y))))
    res["params"], res["remarks"] = _params(spy)


def _run_reth(case, fs, spy, res):
    from opticomlib.devices import LPF
    n = case["nr"]
    kc = case["kc"]
    bw = kc * fs / n                      # cut-off exactly on the grid of retH
    r = np.random.default_rng(case["seed"])
    x = r.normal(size=n)
    kw = {"fs": case["fs_arg"]} if case.get("fs_arg") else {}
    out = _monitored("LPF", LPF, x, bw, case["order"], retH=True, **kw)
    if not (isinstance(out, tuple) and len(out) == 2):
        res.update(status="ok", reth_form="not a pair")
        return
    y, H = out
    H = np.asarray(H)
    res.update(status="ok", reth_form="pair", Hlen=int(H.size), n=n, out_len=int(y.signal.size))
    spy.on = False
    res["params"], res["remarks"] = _params(spy)
    if H.ndim == 1:
        res["H"] = _pack(H)
    if H.size != n:
        return
    c = n // 2                            # DC after fftshift
    res["H0"] = [float(H[c].real), float(H[c].imag)]
    res["Hcut"] = float(abs(H[c + kc]))
    ks = np.arange(1, (n - 1) // 2)
    res["herm"] = _maxabs(H[c + ks] - np.conj(H[c - ks]))
    # |H|^2 against the two-pass gain measured on tones of the real filter (long records, bins of the same grid)
    meas = []
    nl = n * max(2, int(math.ceil(_tone_len(kc / n) / n)))
    kk = np.arange(nl)
    for kb in sorted({max(1, kc // 2), kc, min((n - 1) // 2 - 1, kc + (n // 2 - kc) // 3)}):
        fn = kb / n
        t = np.cos(2 * np.pi * fn * kk + 0.3)
        yt = _monitored("LPF", LPF, t, bw, case["order"], **kw).signal
        g, resid = _fit(t, yt, fn, nl // 3, 2 * nl // 3, False)
        meas.append({"kb": int(kb), "g2pass": abs(g), "H2": float(abs(H[c + kb]) ** 2), "resid": resid})
    res["meas"] = meas


# ------------------------------------------------------------------------------------------------ model

def _enc_c(z):
    z = complex(z)
    return enc_f(z.real) + " " + enc_f(z.imag)


def _enc_rows(a):
    rows = _rows(a)
    out = [str(len(rows))]
    for row in rows:
        out.append(str(len(row)))
        out.extend(_enc_c(z) for z in row)
    return " ".join(out)


def model_requests(case, res):
    if case["kind"] == "hist":
        reqs = []
        for st in res.get("steps") or []:
            if st.get("params"):
                s, nz, _, _ = _data(_step_case(case, st["i"]))
                reqs.append(_request("bpf" if case["dev"] == "bpf" else "lpf", st["params"], s, nz))
        return reqs
    if case["kind"] == "reth":
        p = res.get("params")
        if not p or res.get("status") != "ok" or res.get("reth_form") != "pair":
            return []
        secs = [str(len(p["sos"]))]
        for row, z in zip(p["sos"], p["zi"]):
            secs += [enc_f(row[0]), enc_f(row[1]), enc_f(row[2]), enc_f(row[4]), enc_f(row[5]), enc_f(z[0]), enc_f(z[1])]
        return [f"filter.reth {case['nr']} {' '.join(secs)}"]
    if case["kind"] == "long":
        if not res.get("params"):
            return []
        sig, nz, _ = _long_data(case)
        return [_request(case["dev"], res["params"], sig, nz)]
    if case["kind"] not in ("lpf", "bpf", "short"):
        return []
    p = res.get("params")
    if not p:
        return []
    s, nz, _, _ = _data(case)
    devn = case.get("dev", case["kind"])
    if case.get("form", "container").startswith("ndarray"):
        nz = None
    return [_request(devn, p, s, nz)]


def _request(devn, p, s, nz):
    secs = [str(len(p["sos"]))]
    for row, z in zip(p["sos"], p["zi"]):
        secs += [enc_f(row[0]), enc_f(row[1]), enc_f(row[2]), enc_f(row[4]), enc_f(row[5]), enc_f(z[0]), enc_f(z[1])]
    noise = "0" if nz is None else "1 " + _enc_rows(nz)
    return f"filter.{devn} {p['edge']} {' '.join(secs)} {_enc_rows(s)} {noise}"


def _read_sig(reply, cplx):
    t = Toks(reply[3:])
    rd = t.clist if cplx else t.flist
    rows = [rd() for _ in range(t.nat())]
    noise = None
    if t.nat() == 1:
        noise = [rd() for _ in range(t.nat())]
    return rows, noise


def _cmp(name, m_rows, i_arr, tol):
    i_rows = _rows(i_arr)
    if len(m_rows) != len(i_rows):
        return [f"{name}: {len(m_rows)} rows (model) vs {len(i_rows)} (implementation)"]
    for r, (mr, ir) in enumerate(zip(m_rows, i_rows)):
        if len(mr) != len(ir):
            return [f"{name} row {r}: length {len(mr)} (model) vs {len(ir)} (implementation)"]
        d = np.abs(np.array(mr, dtype=complex) - ir)
        if not np.all(d <= tol):                      # NaN-safe
            k = int(np.argmax(np.where(np.isnan(d), np.inf, d)))
            return [f"{name} row {r} sample {k}: model {mr[k]!r} implementation {complex(ir[k])!r} (tol {tol:.3e})"]
    return []


def _hyp(p):
    """hypotheses of theorem dc_gain on what scipy returned for this very call"""
    out = []
    if not (p["steady_resid"] <= 1e-9):
        out.append(f"hypothesis SteadyState(sos, zi) of dc_gain fails on scipy's coefficients: residual {p['steady_resid']:.3e}")
    if not (abs(p["gain_prod"] - 1.0) <= 1e-9):
        out.append(f"hypothesis prod(sum b/sum a) = 1 of dc_gain fails on scipy's coefficients: {p['gain_prod']!r}")
    return out


def _compare_reply(devn, st, reply, s, n):
    """one implementation call (dict with status/err/out/out_noise) against one model reply"""
    out = []
    if st.get("status") == "err":
        if reply != "err " + st["err"]:
            out.append(f"implementation raised {st['err']}, model replied {reply[:60]}")
        return out
    if st.get("status") != "ok":
        return out
    if not reply.startswith("ok "):
        return [f"implementation returned a result, model replied {reply[:60]}"]
    m_rows, m_noise = _read_sig(reply, devn == "bpf")
    # purely relative, per component: 1e-12 * n * (largest |model sample| of that component); an all-zero component must
    # come back exactly zero.  No absolute floor (a flush-to-zero of "small" samples must show).
    out += _cmp("signal", m_rows, _unpack(st["out"]), 1e-12 * n * _maxabs_rows(m_rows))
    if (m_noise is None) != (st["out_noise"] is None):
        out.append(f"noise: model {'none' if m_noise is None else 'present'}, implementation {'none' if st['out_noise'] is None else 'present'}")
    elif m_noise is not None:
        out += _cmp("noise", m_noise, _unpack(st["out_noise"]), 1e-12 * n * _maxabs_rows(m_noise))
    return out


def _maxabs_rows(rows):
    return max((_maxabs(np.array(r, dtype=complex)) for r in rows), default=0.0)


def compare(case, res, reqs, replies):
    if case["kind"] == "hist":
        out, pos = [], 0
        for st in res.get("steps") or []:
            pre = f"history step {st['i']} (fs={st.get('fs'):.4g}): "
            out += [pre + "model parameters: " + rm for rm in st.get("remarks") or []]
            if st.get("params"):
                out += [pre + h for h in _hyp(st["params"])]
                s, _, _, _ = _data(_step_case(case, st["i"]))
                out += [pre + d for d in _compare_reply("bpf" if case["dev"] == "bpf" else "lpf", st, replies[pos], s, case["n"])]
                pos += 1
            else:
                out.append(pre + "no filter coefficients observed")
        return out
    out = []
    p = res.get("params")
    for rm in res.get("remarks") or []:
        out.append("model parameters: " + rm)
    if p:
        out += _hyp(p)
    if case["kind"] == "reth":
        if not reqs:
            if res.get("status") == "ok":
                out.append("retH: no (output, H) pair / no coefficients observed, nothing to compare with the model")
            return out
        if not replies[0].startswith("ok "):
            return out + [f"retH: model replied {replies[0][:60]}"]
        m = Toks(replies[0][3:]).clist()
        if "H" not in res:
            return out + ["retH: implementation returned a response that is not a 1-D array"]
        # |H| <= 1; both sides evaluate B(z^-1)/A(z^-1) per section in doubles (different association, Smith's complex division
        # in numpy): observed difference <= 1e-13, tolerance 1e-9 absolute
        return out + _cmp("retH", [m], _unpack(res["H"]), 1e-9)
    if not reqs:
        if case["kind"] in ("lpf", "bpf", "short", "long") and not p and res.get("status") != "timeout":
            out.append("no filter coefficients observed: the implementation did not reach scipy.signal")
        return out
    if case["kind"] == "long":
        return out + _compare_reply(case["dev"], res, replies[0], None, case["n"])
    # both sides execute the same IEEE operations in the same order (observed difference: 0); the tolerance 1e-12*scale*n only
    # leaves room for a differently compiled scipy (FMA contraction)
    s, _, _, _ = _data(case)
    return out + _compare_reply(case.get("dev", case["kind"]), res, replies[0], s, case["n"])


# ------------------------------------------------------------------------------------------------ oracle

def _clean(g):
    """the fitted section is a stationary tone: edge transients have died out there"""
    return g["resid"] <= 1e-6 * max(g["g"], 1e-3)


def oracle(case, res):
    """clauses common to every case (operand monitor, sampling rate in force) + the clauses of the case's kind"""
    devn = case.get("dev", case["kind"])
    v = []
    for tag, msg in res.get("monitor") or []:
        v.append((f"C11:{devn}-{tag}", msg))
    if "gv_fs" in res and not (res["gv_fs"] == res["fs_req"]):
        v.append(("C11:gv-fs", f"gv(**{_gvcfg(case)}) leaves gv.fs = {res['gv_fs']!r}, requested {res['fs_req']!r}"))
    return v + _oracle_kind(case, res)


def _oracle_kind(case, res):
    kind = case["kind"]
    devn = case.get("dev", kind)
    if res.get("status") == "timeout":
        return [(f"C11:{devn}-timeout", f"{devn.upper()} did not return")]
    if kind == "short":
        return []                                        # outside the quantifier (not longer than the padding)
    if res.get("status") != "ok":
        return [(f"C11:{devn}-raises", f"{devn.upper()} failed on a valid input: {res.get('detail')}")]
    v = []
    if kind in ("lpf", "bpf"):
        n, npol = case["n"], case["npol"]
        want_cls = "optical_signal" if devn == "bpf" else "electrical_signal"
        want_shape = [n] if npol == 1 else [2, n]
        if res["cls"] != want_cls or res["shape"] != want_shape or (devn == "bpf" and res["npol"] != npol):
            v.append((f"C11:{devn}-length", f"length/layout not preserved: {res['cls']} n_pol={res['npol']} shape={res['shape']}, "
                                           f"expected {want_cls} {want_shape}"))
            return v
        if res["has_noise_in"] != (res["out_noise"] is not None):
            v.append((f"C11:{devn}-noise-presence", "noise component appeared/disappeared"))
        if not res.get("finite", False):
            v.append((f"C11:{devn}-nonfinite", "finite input, non-finite (NaN/inf) samples in the output"))
        # every tolerance below is RELATIVE to the magnitude of the data it concerns (no absolute floor)
        ab = 1 + abs(complex(*case["a"])) + abs(complex(*case["b"]))
        tol = 1e-9 * res["scale"] * ab * n
        real_in = case.get("form") != "container-complex"      # LPF: the statement speaks of real inputs
        if real_in and not (res["lin_sig"] <= tol):
            v.append((f"C11:{devn}-linear-signal", f"F(a x + b y) differs from a F(x) + b F(y) by {res['lin_sig']:.3e} on the signal (n={n}, data ~{res['scale']:.1e})"))
        if real_in and res.get("lin_noise") is not None and not (res["lin_noise"] <= 1e-9 * res["mag_n"] * ab * n):
            v.append((f"C11:{devn}-linear-noise", f"F(a x + b y) differs from a F(x) + b F(y) by {res['lin_noise']:.3e} on the noise (n={n}, noise ~{res['mag_n']:.1e})"))
        if real_in and "hom_sig" in res:
            if not (res["hom_sig"] <= 1e-9 * res["mag_s"] * n):
                v.append((f"C11:{devn}-homogeneous-signal", f"F(h x) differs from h F(x) by {res['hom_sig']:.3e}*h on the signal (h={case['hom']:g}, data ~{res['mag_s']:.1e}, n={n})"))
            if res.get("hom_noise") is not None and not (res["hom_noise"] <= 1e-9 * res["mag_n"] * n):
                v.append((f"C11:{devn}-homogeneous-noise", f"F(h x) differs from h F(x) by {res['hom_noise']:.3e}*h on the noise (h={case['hom']:g}, noise ~{res['mag_n']:.1e}, n={n})"))
        if res["has_noise_in"] and res["out_noise"] is not None:
            # F applied to the noise array as `.noise` must equal F applied to the same array as `.signal`, and vice versa
            if not (res["swap_n"] <= 1e-12 * res["mag_n"]):
                v.append((f"C11:{devn}-signal-noise-alike", f"an array is filtered differently as noise component than as signal component "
                                                             f"(diff {res['swap_n']:.3e}, array ~{res['mag_n']:.1e}"
                                                             + (f", signal part dark on {case['dark']}" if case.get("dark") else "") + ")"))
            if res.get("swap_s") is None or not (res["swap_s"] <= 1e-12 * res["mag_s"]):
                v.append((f"C11:{devn}-signal-noise-alike", f"an array is filtered differently as signal component than as noise component "
                                                             f"(diff {res.get('swap_s')}, array ~{res['mag_s']:.1e})"))
            if not (res["indep"] <= 1e-12 * res["mag_s"]) or not res["alone_noise_none"]:
                v.append((f"C11:{devn}-signal-noise-independent", f"the filtered signal depends on the noise (diff {res['indep']:.3e})"))
        if npol == 2:
            if not (res["polswap"] <= 1e-12 * res["scale"]):
                v.append((f"C11:{devn}-pol-alike", f"exchanging the polarisations does not exchange the outputs (diff {res['polswap']:.3e})"))
            if not (res["pol_alone"] <= 1e-12 * res["scale"]):
                v.append((f"C11:{devn}-pol-independent", f"a polarisation is filtered differently alone and beside the other (diff {res['pol_alone']:.3e})"))
        fname_ = "BPF" if devn == "bpf" else "LPF"
        for ch in res.get("chain") or [{"f": None, "same": False}]:
            if not ch["same"]:
                v.append((f"C11:{devn}-chain", f"{fname_}({fname_}(x, BW), {ch['f']}*BW) on the returned object differs from the same call on a fresh "
                                               f"container holding the same samples (second stage "
                                               + ("narrower" if ch["f"] is not None and ch["f"] < 1 else "equal or wider") + ")"))
        if not res.get("repeat", False):
            v.append((f"C11:{devn}-repeat", "filtering the same input object a second time gives a different result"))
        fname = "BPF" if devn == "bpf" else "LPF"
        if not res.get("positional", False):
            v.append((f"C11:positional:{fname}", f"{fname}({', '.join(POSITIONAL[fname])}) called positionally in the documented order differs from the "
                                                f"keyword call / the plain call ({res.get('positional_err', 'results differ')})"))
        if devn == "lpf" and "positional_err" not in res:
            if not res.get("positional_reth", False):
                v.append(("C11:positional:LPF", "LPF(input, BW, n, fs, True) positionally differs from LPF(..., retH=True) by keyword"))
            if not res.get("reth_noise_present", False) or not res.get("reth_same", False):
                v.append(("C11:lpf-retH-same-output", "LPF(x, ..., retH=True)[0] is not the same output (signal AND noise) as LPF(x, ...)"
                          + (" for an input that carries noise" if res["has_noise_in"] else "")))
        if real_in or devn == "bpf":
            if not (res["const"] <= 1e-9 * n):
                v.append((f"C11:{devn}-dc-gain", f"a constant input is changed by {res['const']:.3e} (relative, n={n})"))
            if res.get("const_noise") is not None and not (res["const_noise"] <= 1e-9 * n):
                v.append((f"C11:{devn}-dc-gain-noise", f"a constant noise component is changed by {res['const_noise']:.3e} (relative)"))
        return v
    if kind == "hist":
        return _oracle_hist(case, res)
    if kind == "long":
        n, npol = case["n"], case["npol"]
        if res["shape"] != ([n] if npol == 1 else [2, n]) or res["has_noise_in"] != (res["out_noise"] is not None) \
                or len(res["pulses"]) != res["rows_expected"]:
            return [(f"C11:{devn}-long-length", f"length/layout not preserved on a record of {n} samples: shape {res['shape']}")]
        for pz in res["pulses"]:
            comp = "signal" if pz["row"] < npol else "noise"
            where = f"{comp} row {pz['row'] % npol} of a {n}-sample record (order {case['order']}, cut-off {case['fcn']:.4f} fs)"
            if not (pz["mirror"] <= 1e-9):
                v.append((f"C11:{devn}-long-pulse-symmetry", f"{where}: response to a symmetric pulse centred at sample {pz['m']} is not "
                                                            f"symmetric about it (mirror error {pz['mirror']:.3e} of the peak)"))
            if pz["argmax"] != pz["m"]:
                v.append((f"C11:{devn}-long-pulse-delay", f"{where}: pulse centred at sample {pz['m']} comes out peaking at {pz['argmax']} "
                                                        f"(delay {pz['argmax'] - pz['m']:+d} samples)"))
        return v
    if kind == "tone":
        fc = res.get("fcn", case["fcn"])
        for grp in res["rows"]:
            gs = [g for g in res["gains"] if g["grp"] == grp]
            devn = f"{case['dev']}" if grp.startswith("signal row") else f"{case['dev']}-{grp.split(' row')[0].replace('/', '-')}"
            for g in gs:
                if not all(math.isfinite(g[k]) for k in ("g", "ph", "resid", "pratio")):
                    v.append((f"C11:{devn}-nonfinite", f"tone at {g['fn']:.4f} fs ({grp}): non-finite / missing output ({g})"))
                    continue
                clean = _clean(g)
                if abs(abs(g["fn"]) - fc) < 1e-15 and clean:
                    att = -20 * math.log10(max(g["g"], 1e-300))
                    if not abs(att - ATT_DB) <= 0.05:
                        side = "" if devn == "lpf" else (" (upper side)" if g["fn"] > 0 else " (lower side)")
                        v.append((f"C11:{devn}-cutoff-6dB", f"tone at the cut-off{side} attenuated by {att:.4f} dB, 6.0 dB required "
                                                           f"(order {case['order']}, cut-off {fc:.4f} fs)"))
                if clean and g["g"] > 1e-3 and not abs(g["ph"]) <= 1e-5:
                    v.append((f"C11:{devn}-zero-phase", f"tone at {g['fn']:.4f} fs comes out with phase {g['ph']:.3e} rad (delay)"))
                if not (g["g"] <= 1 + 1e-6) or (clean and not (g["pratio"] <= 1 + 1e-6)):
                    v.append((f"C11:{devn}-tone-power", f"tone at {g['fn']:.4f} fs gains power: amplitude x{g['g']:.9f}"))
            seq = sorted(gs, key=lambda g: abs(g["fn"]))
            for g1, g2 in zip(seq, seq[1:]):
                if not (math.isfinite(g1["g"]) and math.isfinite(g2["g"])):
                    continue                                 # reported above
                if abs(g2["fn"]) > abs(g1["fn"]) and not (g2["g"] <= g1["g"] + 1e-6):
                    v.append((f"C11:{devn}-monotone", f"attenuation not monotone: gain {g1['g']:.6e} at {g1['fn']:.4f} fs, "
                                                     f"{g2['g']:.6e} at {g2['fn']:.4f} fs"))
                    break
        return v
    if kind == "pulse":
        if not (res["mirror"] <= 1e-9):
            v.append((f"C11:{devn}-pulse-symmetry", f"response to a symmetric pulse centred at {res['m']} is not symmetric about it "
                                                   f"(mirror error {res['mirror']:.3e} of the peak)"))
        if res["argmax"] != res["m"]:
            v.append((f"C11:{devn}-pulse-delay", f"pulse centred at sample {res['m']} peaks at {res['argmax']}"))
        return v
    if kind == "reth":
        if res["reth_form"] != "pair" or res["Hlen"] != res["n"] or res["out_len"] != res["n"]:
            return [("C11:retH-grid", f"retH is not (output, H) with H on the signal's {res['n']}-point grid: {res.get('Hlen')}")]
        if not (abs(complex(*res["H0"]) - 1) <= 1e-9):
            v.append(("C11:retH-dc", f"returned response is {complex(*res['H0'])} at DC (centre of the fftshift-ed grid), 1 required"))
        if not (abs(res["Hcut"] - math.sqrt(0.5)) <= 1e-6):
            v.append(("C11:retH-cutoff", f"|H| at the cut-off bin is {res['Hcut']:.6f}; the single-pass prototype has 1/sqrt2"))
        if not (res["herm"] <= 1e-9):
            v.append(("C11:retH-symmetry", f"returned response is not Hermitian about the centre bin ({res['herm']:.3e})"))
        for m in res["meas"]:
            if not all(math.isfinite(m[k]) for k in ("resid", "g2pass", "H2")):
                v.append(("C11:retH-nonfinite", f"non-finite response / measured gain at bin {m['kb']}: {m}"))
                break
            if m["resid"] <= 1e-6 * max(m["g2pass"], 1e-3) and not (abs(m["H2"] - m["g2pass"]) <= 1e-7 * max(1e-2, m["g2pass"])):
                v.append(("C11:retH-single-pass", f"|H|^2 = {m['H2']:.6e} at bin {m['kb']} but the filter's measured (two-pass) gain is "
                                                  f"{m['g2pass']:.6e}"))
                break
        return v
    return v


def _oracle_hist(case, res):
    """every call of a history must be the filter for the sampling rate in force at THAT call"""
    v = []
    hdev = case["dev"]
    devn = "bpf" if hdev == "bpf" else "lpf"
    n = case["n"]
    for st in res["steps"]:
        where = f"call {st['i'] + 1} of {len(res['steps'])} with the same BW and order, fs={st['fs']:.4g} (cut-off {st['fcn']:.4f} fs)"
        if "gv_fs" in st and not (st["gv_fs"] == st["fs"]):
            v.append(("C11:gv-fs", f"{where}: gv reports fs = {st['gv_fs']!r} after being configured with {case['seq'][st['i']]}"))
        if st.get("status") != "ok":
            v.append((f"C11:{hdev}-history-raises", f"{where}: {st.get('detail')}"))
            continue
        tol = 1e-9 * st["scale"] * n
        if st.get("ref_err") is None or not (st["ref_err"] <= tol):
            v.append((f"C11:{hdev}-history-stale-design", f"{where}: output differs from the Bessel(norm='mag') prototype designed for "
                                                         f"this rate, applied forward-backward, by {st.get('ref_err')}"))
        if "ref_err_noise" in st and (st["ref_err_noise"] is None or not (st["ref_err_noise"] <= 1e-9 * st["scale_n"] * n)):
            v.append((f"C11:{hdev}-history-stale-design-noise", f"{where}: noise output differs from the reference by {st['ref_err_noise']}"))
        g = st["tone"]
        if not all(math.isfinite(g[k]) for k in ("g", "ph", "resid")):
            v.append((f"C11:{hdev}-history-nonfinite", f"{where}: non-finite tone response {g}"))
        elif _clean(g):
            att = -20 * math.log10(max(g["g"], 1e-300))
            if not abs(att - ATT_DB) <= 0.05:
                v.append((f"C11:{hdev}-history-cutoff-6dB", f"{where}: tone at the cut-off attenuated by {att:.4f} dB, 6.0 dB required"))
    return v


def features(case, res):
    kind = case["kind"]
    f = ["kind=" + kind, "status=" + str(res.get("status")), f"order={case['order']}"]
    if kind in ("lpf", "bpf"):
        f += ["form=" + case["form"], f"npol={case['npol']}", "noise" if case["noise"] else "no-noise",
              "n=pad+1" if case["n"] == _edge(case["order"]) + 1 else ("n<=64" if case["n"] <= 64 else ("n<=300" if case["n"] <= 300 else "n>300")),
              "fc<0.03" if case["fcn"] < 0.03 else ("fc>0.4" if case["fcn"] > 0.4 else "fc-mid"), f"scale={case['scale']}"]
        if kind == "lpf":
            f.append("fs=explicit" if case.get("fs_arg") else "fs=gv")
    elif kind != "reth":
        f.append("dev=" + case["dev"])
    if case.get("dark"):
        f.append(f"dark-signal={case['dark']}/npol={case['npol']}")
    if kind in ("lpf", "bpf"):
        f += [f"noise-level={case.get('nscale')}" if case["noise"] else "noise-level=none", f"hom={case.get('hom'):g}"]
    if kind == "tone":
        f.append(f"amp={case['amp']:g}")
    if "gvcfg" in case or kind == "hist":
        cfgs = [case["gvcfg"]] if "gvcfg" in case else [c for c in case["seq"] if isinstance(c, dict)]
        for c in cfgs:
            f.append("gv(" + ",".join(sorted(c)) + ")" + ("/fs-not-multiple-of-R" if "fs" in c and "sps" not in c and abs(c["fs"] / c.get("R", 1e9) - round(c["fs"] / c.get("R", 1e9))) > 1e-9 else ""))
    if kind == "long":
        f += [f"long-n={case['n']}", f"npol={case['npol']}", "noise" if case["noise"] else "no-noise"]
    if kind == "reth":
        f.append("retH-N-odd" if case["nr"] % 2 else "retH-N-even")
    if "wn" in case:
        f.append(f"recurring-cutoff={case['wn']:.0e}Hz@fs={res.get('fs', 0):.3g}" if kind != "hist" else f"history-cutoff={case['wn']:.0e}Hz")
    if kind == "hist":
        f.append(f"history-steps-ok={sum(1 for st in res.get('steps') or [] if st.get('status') == 'ok')}")
    if kind == "tone" and res.get("status") == "ok":
        at_cut = [g for g in res["gains"] if abs(abs(g["fn"]) - res.get("fcn", case["fcn"])) < 1e-15]
        f.append("cutoff-tone-measured" if at_cut and all(_clean(g) for g in at_cut) else "cutoff-tone-NOT-stationary")
        f.append(f"stationary-tones={sum(1 for g in res['gains'] if _clean(g))}/{len(res['gains'])}")
    if res.get("status") == "err":
        f.append("err=" + str(res.get("err")))
    return f


def nontrivial_key(case, res):
    if res.get("status") != "ok" or case["kind"] == "short":
        return None
    return (case["kind"], case.get("dev"), case["order"], case.get("wn") or case.get("fcn", case.get("kc")), res.get("fs"), case.get("n"), case["npol"],
            case.get("form"), case.get("noise"), case["seed"])
