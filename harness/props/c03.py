"""C03 — a noise-free link built from the library's blocks returns the transmitted bits."""
import warnings

import numpy as np

from harness.common.wire import enc_f, enc_list, Toks, exc_enum
from harness.common.watchdog import time_limit, Timeout

ID = "C03"
MANIFEST = {
    "text": "Lean 4 theorems (Props/C03.lean): the memoryless part of the chain composed from the library's blocks — DAC NRZ slot "
            "expansion, MZM field factor (the transfer function translated from devices.py for C06), PD square law, SAMPLER "
            "stride, threshold midway between the received levels — returns exactly the transmitted bits for EVERY bit "
            "sequence, sps, sampling instant inside the slot, CW amplitude, responsivity, load, MZM loss/ER/Vpi/bias and DAC "
            "amplitude/bias with distinct ON/OFF levels, in both polarisation layouts; decision_margin: for any received "
            "sequence closer than half the level gap to its levels the mid-level decision returns the bits (bridge to the "
            "filtered/dispersed chain, whose margin is measured on the real code for every case); the detected level depends on "
            "the DAC bias and the MZM bias only through their sum, with period 2*Vpi (rx_bias_interchange, rx_bias_period: the "
            "push-pull and shifted drive arrangements are one link); the error counter is k/n for k "
            "flipped bits and 0 for identical sequences.  Tie: the waveform entering PD's output filter (spied) is compared with "
            "the model's received waveform at Float, the counter with the model's count; the whole real chain, ook.DSP and "
            "ppm.DSP (soft, and hard with estimated threshold) are run by the oracle.",
    "note": "That a 4-pole Bessel filter with BW >= 0.7 R and |beta2 L| < 1% T^2 keep the inter-symbol interference below half the "
            "level gap is numerical (oracle on the real code, margin recorded), as are the eye-based decision routines "
            "(GET_EYE uses KMeans/KDE). Gaussian pulse shapes are oracle-only. Axioms: propext, Classical.choice, Quot.sound.",
    "technique": "Lean 4 proof (induction over the bit list; real arithmetic for the mid-level decision) composed from the DAC/MZM/PD/SAMPLER models, differential run on the pre-filter waveform, end-to-end oracle on the real chain",
    "design": "§5 C03",
}
GEN = ["OptDev", "Ppm"]
MODELS = ["OptiVerif.Model.Link", "OptiVerif.Model.Modulators", "OptiVerif.Gen.OptDev"]
RULE = ("cases = (bit pattern kind: random/PRBS/long runs/alternating/single 1/single 0, sps in {4,5,8,16,33,64}, slot rate, "
        "pulse shape nrz/gaussian, MZM Vpi/loss/ER>=10 dB, 13 (DAC bias, MZM bias) drive arrangements incl. negative biases and the inverting ones, launch power, PD r/R_load/BW>=0.7R, 1/2 polarisations, optional DM or "
        "linear FIBER with |beta2 L| < 1% T^2) plus ook.DSP on >=32 PRBS/random slots, ppm.DSP soft/hard for M in {2,4,8,16}, "
        "counter with k flipped bits; non-trivial = both symbols present and waveform longer than the filter padding")
PARTIAL = ["ISI of the Bessel filter / dispersion stays below half the level gap: measured on the real code (oracle), not proved",
           "eye-based threshold estimation (GET_EYE: KMeans, KDE) in ook.DSP and ppm.DSP(hard): oracle only",
           "Gaussian pulse shape: oracle only"]
ASSUMPTIONS = ["scipy's Bessel/sosfiltfilt (C11) and numpy FFT (C02/C07) as modelled there", "sklearn KMeans under a fixed numpy seed"]
THOROUGH_ROUNDS = 8      # the thorough tier draws the whole generator this many times
BUDGET = {"quick": 150, "thorough": 900}

SPS = [4, 5, 8, 16, 33, 64]


def _bits(rng, kind, n):
    if kind == "random":
        b = [rng.randint(0, 1) for _ in range(n)]
    elif kind == "prbs":
        from opticomlib.devices import PRBS
        b = [int(x) for x in PRBS(rng.choice([7, 9, 11]), n, rng.randrange(1, 100)).data]
    elif kind == "runs":
        b = []
        v = rng.randint(0, 1)
        while len(b) < n:
            b += [v] * rng.randint(3, 12)
            v ^= 1
        b = b[:n]
    elif kind == "alt":
        b = [(i + rng.randint(0, 1)) % 2 for i in range(n)] if False else [i % 2 for i in range(n)]
    elif kind == "single1":
        b = [0] * n
        b[rng.randrange(2, n - 2)] = 1
    else:  # single0
        b = [1] * n
        b[rng.randrange(2, n - 2)] = 0
    if 1 not in b:
        b[n // 2] = 1
    if 0 not in b:
        b[n // 3] = 0
    return b


def gen_cases(rng, tier):
    cases = []
    reps = 2 if tier == "quick" else 10
    for _ in range(reps):
        for sps in SPS:
            for kind in ["random", "prbs", "runs", "alt", "single1", "single0"]:
                R = rng.choice([1e9, 2.5e9, 10e9])
                nb = rng.choice([12, 16, 24, 40]) if sps >= 33 else rng.choice([16, 32, 48, 64])
                shape = "gaussian" if (kind in ("single1", "random") and rng.random() < 0.35) else "nrz"
                Vpi = rng.choice([2.0, 3.5, 5.0])
                prop = rng.choice(["none", "none", "dm", "fiber"])
                T2 = (1 / R * 1e12) ** 2                      # squared slot period in ps^2
                cases.append({"kind": "chain", "bits": _bits(rng, kind, nb), "pattern": kind, "sps": sps, "R": R, "shape": shape,
                              "Vpi": Vpi, "loss_dB": rng.choice([0.0, 3.0, 6.5]), "ER_dB": rng.choice([10.0, 13.0, 20.0, 30.0, 60.0]),
                              "P": 10 ** rng.uniform(-4, -1.5), "npol": rng.choice([1, 2]), "pol": rng.choice(["x", "y"]),
                              "r": rng.uniform(0.3, 1.0), "Rl": rng.choice([50.0, 100.0, 1e3]), "bw": rng.uniform(0.7, 1.5),
                              "prop": prop, "D": rng.uniform(-0.0099, 0.0099) * T2, "L": rng.uniform(1, 50),
                              "instant": None, "cphase": rng.choice([0.0, np.pi / 2, rng.uniform(-np.pi, np.pi)]),
                              "detune": rng.random() < 0.3, "drive": rng.choice(DRIVES) if rng.random() < 0.5 else DRIVES[0]})
    # short records: 3..9 slots, just longer than the 16-sample filter padding (pulse kernels longer than the record, both shapes)
    for _ in range(10 if tier == "quick" else 60):
        nb = rng.choice([3, 4, 5, 6, 7, 8, 9])
        sps = rng.choice([s for s in SPS if nb * s > 32] or [64])
        R = rng.choice([1e9, 10e9])
        cases.append({"kind": "chain", "bits": _bits(rng, "random", nb), "pattern": "short", "sps": sps, "R": R,
                      "shape": rng.choice(["nrz", "gaussian", "gaussian"]), "Vpi": 3.5, "loss_dB": rng.choice([0.0, 3.0]),
                      "ER_dB": rng.choice([13.0, 30.0]), "P": 10 ** rng.uniform(-4, -1.5), "npol": rng.choice([1, 2]),
                      "pol": rng.choice(["x", "y"]), "r": 0.8, "Rl": 100.0, "bw": rng.choice([1.0, 1.2, 1.5]), "prop": "none",
                      "D": 0.0, "L": 1.0, "instant": None})
    # the same direct link at very low received power with the default dark current (levels 0.5 uV apart by only a few nV)
    for _ in range(3 if tier == "quick" else 20):
        sps = rng.choice([8, 16])
        cases.append({"kind": "chain", "bits": _bits(rng, "random", 48), "pattern": "random", "sps": sps, "R": rng.choice([1e9, 10e9]),
                      "shape": rng.choice(["nrz", "gaussian"]), "Vpi": 3.5, "loss_dB": 3.0, "ER_dB": 30.0, "P": 10 ** rng.uniform(-9.3, -8.5),
                      "npol": rng.choice([1, 2]), "pol": "x", "r": 0.7, "Rl": 50.0, "bw": 1.0, "prop": "none", "D": 0.0, "L": 1.0,
                      "instant": None, "idark": "default", "libcmp": True})
    # every sampling instant for one NRZ case without filter influence is covered by the model tie (pre-filter waveform)
    for M in [2, 4, 8, 16]:
        for dec in ["soft", "hard"]:
            for _ in range(2 if tier == "quick" else 6):
                k = M.bit_length() - 1
                nsym = 96 // 1 if tier != "quick" else 48
                bits = [rng.randint(0, 1) for _ in range(nsym * k)]
                cases.append({"kind": "ppm", "bits": bits, "M": M, "decision": dec, "sps": rng.choice([4, 5, 6, 7, 8, 9, 16, 33, 64]), "R": 1e9,
                              "Vpi": 3.5, "loss_dB": 3.0, "ER_dB": rng.choice([13.0, 30.0]), "P": 1e-3, "npol": rng.choice([1, 2]),
                              "pol": "x", "r": 0.9, "Rl": 50.0, "bw": rng.uniform(0.75, 1.2), "seed": rng.getrandbits(31),
                              "drive": rng.choice(NONINV)})
    # ook.DSP (eye-based threshold): the whole statement range — low extinction ratios with a very clean eye included
    ook_grid = [(sps, shape, er, bw) for sps in (8, 16, 32, 33, 64) for shape in ("nrz", "gaussian")
                for er in (10.0, 13.0, 20.0, 30.0) for bw in (0.7, 1.0, 1.5, 2.0)]
    rng.shuffle(ook_grid)
    must = [(16, "nrz", 10.0, 2.0), (32, "nrz", 13.0, 2.0), (16, "nrz", 10.0, 1.5), (33, "gaussian", 10.0, 0.7)]
    for sps, shape, er, bw in must + ook_grid[: (6 if tier == "quick" else 60)]:
        kind = rng.choice(["random", "prbs"])
        cases.append({"kind": "ook", "bits": _bits(rng, kind, rng.choice([33, 45, 64, 127, 128, 254])), "pattern": kind, "sps": sps,
                      "R": rng.choice([1e9, 10e9]), "shape": shape, "Vpi": 3.5, "loss_dB": 3.0, "ER_dB": er, "P": 10 ** rng.uniform(-4, -2),
                      "npol": rng.choice([1, 2]), "pol": "x", "r": 0.8, "Rl": 50.0, "bw": bw, "prop": "none", "seed": rng.getrandbits(31),
                      "drive": rng.choice(NONINV)})
    # two tributaries modulated onto the SAME two-polarisation carrier object (x then y, or y then x)
    for _ in range(3 if tier == "quick" else 20):
        sps = rng.choice([8, 9, 16, 32])
        nb = rng.choice([32, 48])
        cases.append({"kind": "dual", "bits": _bits(rng, "random", nb), "bits2": _bits(rng, "random", nb), "order": rng.choice([["x", "y"], ["y", "x"]]),
                      "sps": sps, "R": rng.choice([1e9, 10e9]), "shape": rng.choice(["nrz", "gaussian"]), "Vpi": 3.5, "loss_dB": 3.0,
                      "ER_dB": rng.choice([13.0, 30.0]), "P": 1e-3, "npol": 2, "pol": "x", "r": 0.9, "Rl": 50.0, "bw": rng.choice([1.0, 1.5]),
                      "prop": "none", "D": 0.0, "L": 1.0, "seed": rng.getrandbits(31)})
    # PPM at the lowest sampling rates, both decisions, every run
    for sps in (4, 5):
        for dec in ("soft", "hard"):
            for M in ([2, 4, 8, 16] if sps == 4 else [rng.choice([2, 4, 8, 16])]):
                # wide detectors included: at 4/5 samples per slot no sample falls strictly inside the eye, GET_EYE falls back to
                # the nominal slot centre and the estimated threshold must still come out finite
                for shape, bw in ([("nrz", 0.7), ("gaussian", 0.7), ("nrz", 1.0), ("gaussian", 1.0), ("nrz", 1.5), ("gaussian", 1.9)]
                                  if (sps == 4 and dec == "hard")
                                  else [(rng.choice(["nrz", "gaussian"]), rng.choice([0.7, 0.9, 1.2, 1.5, 1.9])),
                                        (rng.choice(["nrz", "gaussian"]), rng.choice([1.5, 1.9]))] if dec == "hard"
                                  else [(rng.choice(["nrz", "gaussian"]), rng.choice([0.7, 0.9, 1.2, 1.9]))]):
                    k = M.bit_length() - 1
                    bits = [rng.randint(0, 1) for _ in range(48 * k)]
                    cases.append({"kind": "ppm", "bits": bits, "M": M, "decision": dec, "sps": sps, "R": rng.choice([1e9, 10e9]), "shape": shape,
                                  "Vpi": 3.5, "loss_dB": rng.choice([1.0, 3.0]), "ER_dB": rng.choice([20.0, 30.0]), "P": 1e-3, "npol": 1,
                                  "pol": "x", "r": 0.9, "Rl": 50.0, "bw": bw, "seed": rng.getrandbits(31), "drive": rng.choice(NONINV)})
    # weak received signals (-55 … -47 dBm launch) with the DEFAULT dark current: the pedestal i_dark*R_load sits in .noise and is
    # comparable to the swing; the packaged decisions must cope (they estimate the threshold from the received eye)
    for kind_, dec in (("ook", None), ("ook", None), ("ppm", "hard"), ("ppm", "hard"), ("ppm", "soft")):
        P = 10 ** rng.uniform(-9.3, -7.7)          # -63 … -47 dBm: eye openings down to a few nV on a 0.5 uV pedestal
        base = {"sps": rng.choice([8, 16]), "R": rng.choice([1e9, 10e9]), "shape": rng.choice(["nrz", "gaussian"]), "Vpi": 3.5,
                "loss_dB": rng.choice([1.0, 3.0]), "ER_dB": rng.choice([20.0, 30.0]), "P": P, "npol": rng.choice([1, 2]), "pol": "x",
                "r": rng.choice([0.7, 1.0]), "Rl": 50.0,
                "bw": rng.choice([1.0, 1.5]), "prop": "none", "idark": "default", "seed": rng.getrandbits(31),
                "cphase": rng.choice([0.0, np.pi / 2])}
        if kind_ == "ook":
            k2 = rng.choice(["random", "prbs"])
            cases.append(dict(base, kind="ook", bits=_bits(rng, k2, rng.choice([64, 127, 128])), pattern=k2))
        else:
            M = rng.choice([2, 4, 16])
            kb = M.bit_length() - 1
            cases.append(dict(base, kind="ppm", bits=[rng.randint(0, 1) for _ in range(48 * kb)], M=M, decision=dec))
    # long 16-PPM records with Gaussian pulses and a wide detector (BW = 1.5 R): thousands of OFF slots, a few of them between two
    # ON slots across a symbol boundary — a hard-decision threshold that sits too close to the OFF level only fails on those
    for sps in (4, 8, 16):
        bits = [rng.randint(0, 1) for _ in range(4 * (1500 if tier == "quick" else 3000))]
        cases.append({"kind": "ppm", "bits": bits, "M": 16, "decision": "hard", "sps": sps, "R": 1e9, "shape": "gaussian", "Vpi": 5.0,
                      "loss_dB": 2.0, "ER_dB": 13.0, "P": 1e-3, "npol": 1, "pol": "x", "r": 1.0, "Rl": 50.0, "bw": 1.5,
                      "seed": rng.getrandbits(31)})
    # several links in ONE process with the same PD bandwidth while the sampling rate goes down (a stale filter design or
    # any other state carried from one simulation to the next shows up here)
    for _ in range(2 if tier == "quick" else 8):
        R = rng.choice([1e9, 10e9])
        cases.append({"kind": "sweep", "sps_seq": rng.choice([[64, 16, 8, 5, 4], [33, 8, 4], [64, 5], [16, 4, 16]]), "R": R,
                      "nbits": 48, "pattern": rng.choice(["random", "prbs"]), "shape": rng.choice(["nrz", "nrz", "gaussian"]),
                      "Vpi": 3.5, "loss_dB": 3.0, "ER_dB": rng.choice([13.0, 30.0]), "P": 1e-3, "npol": rng.choice([1, 2]), "pol": "x",
                      "r": 0.9, "Rl": 50.0, "bw": 0.7, "prop": "none", "seed": rng.getrandbits(31)})
    for _ in range(2 if tier == "quick" else 8):
        R0 = rng.choice([10e9, 40e9])
        cases.append({"kind": "sweep", "sps_seq": [{"sps": 16, "R": R0}, {"R": R0 / 4}, {"R": R0 / 10}, {"sps": 8, "R": R0}], "R": R0,
                      "nbits": 48, "pattern": rng.choice(["random", "prbs"]), "shape": rng.choice(["nrz", "gaussian"]),
                      "Vpi": 3.5, "loss_dB": 3.0, "ER_dB": 30.0, "P": 1e-3, "npol": rng.choice([1, 2]), "pol": "x",
                      "r": 0.9, "Rl": 50.0, "bw": 0.75, "prop": "none", "seed": rng.getrandbits(31)})
    for _ in range(30 if tier == "quick" else 300):
        n = rng.choice([1, 2, 7, 64, 255, 300, 600, 2100])
        tx = [rng.randint(0, 1) for _ in range(n)]
        k = rng.choice([0, 1, n, 255, 256, 257, 511, 512, 1000, rng.randint(0, n)])
        k = min(k, n)
        pos = sorted(rng.sample(range(n), k))
        cases.append({"kind": "counter", "tx": tx, "flip": pos, "module": rng.choice(["ook", "ppm"]),
                      "form": rng.choice(["binary_sequence", "list", "ndarray"])})
    rng.shuffle(cases)
    return cases


def _levels(case):
    """analytic ON/OFF voltages: r * P * loss * (cos^2 g + k^2 sin^2 g) * R_load"""
    loss = 10 ** (-case["loss_dB"] / 10)
    k = 10 ** (-case["ER_dB"] / 20)
    db, mb = _drive(case)
    def v(u):
        g = np.pi * (u + db + mb) / (2 * case["Vpi"])      # default drive: DAC bias 0, MZM bias Vpi: u = 0 -> extinction, u = Vpi -> transmission
        return case["r"] * case["P"] * loss * (np.cos(g) ** 2 + k ** 2 * np.sin(g) ** 2) * case["Rl"]
    return float(v(0.0)), float(v(case["Vpi"]))


# (DAC bias, MZM bias) in units of Vpi: every arrangement puts the two drive levels on an extinction and a transmission point
# (the push-pull arrangement of the MZM docstring is (-1/2, +1/2): bit 1 -> extinction)
NONINV = [(0.0, 1.0), (-0.5, 1.5), (0.5, 0.5), (-1.0, 2.0), (1.0, 0.0), (-1.0, 0.0), (-2.0, 1.0), (0.5, -1.5)]     # bit 1 -> light
DRIVES = NONINV + [(-0.5, 0.5), (0.0, 0.0), (1.0, 1.0), (-1.5, -0.5), (-2.0, 2.0)]                              # bit 1 -> extinction


def _drive(case):
    a, b = case.get("drive", (0.0, 1.0))
    return a * case["Vpi"], b * case["Vpi"]


def _run_chain(case, bits, cw=None, pol=None):
    """the real chain; returns (received electrical_signal, pre-filter waveform spied at PD's LPF)"""
    from opticomlib.typing import gv, optical_signal
    import opticomlib.devices as dev
    n = len(bits) * case["sps"]
    db, mb = _drive(case)
    x = dev.DAC(bits, Vout=case["Vpi"], bias=db, pulse_shape="gaussian" if case.get("shape") == "gaussian" else "nrz")
    amp = np.sqrt(case["P"])
    # the CW carrier is any constant-power field: a constant phase, or (without dispersion) a frequency offset of R/16
    car = np.full(n, amp, dtype=complex) * np.exp(1j * case.get("cphase", 0.0))
    if case.get("detune") and case.get("prop", "none") == "none":
        car = car * np.exp(2j * np.pi * (case["R"] / 16.0) * np.arange(n) / (case["sps"] * case["R"]))
    if cw is not None:
        pass                                     # a carrier object handed in by the caller (shared between tributaries)
    elif case["npol"] == 1:
        cw = optical_signal(car)
    else:
        cw = optical_signal(np.array([car, car.copy()]))
    pol = pol or (case["pol"] if case["npol"] == 2 else "x")
    y = dev.MZM(cw, x, bias=mb, Vpi=case["Vpi"], loss_dB=case["loss_dB"], ER_dB=case["ER_dB"], pol=pol)
    if case.get("prop") == "dm":
        y = dev.DM(y, case["D"])
    elif case.get("prop") == "fiber":
        y = dev.FIBER(y, case["L"], beta_2=case["D"] / case["L"])
    spy = {}
    orig = dev.LPF

    def lpf_spy(sig, BW, *a, **k):
        spy["pre"] = np.array(sig.signal, dtype=float).copy()
        spy["pre_noise"] = None if sig.noise is None else np.array(sig.noise, dtype=float).copy()
        return orig(sig, BW, *a, **k)
    dev.LPF = lpf_spy
    try:
        if case.get("idark") == "default":       # the documented default dark current (10 nA): a pedestal carried in .noise
            z = dev.PD(y, BW=case["bw"] * case["R"], r=case["r"], R_load=case["Rl"], include_noise="ase-only")
        else:
            z = dev.PD(y, BW=case["bw"] * case["R"], r=case["r"], R_load=case["Rl"], include_noise="ase-only", i_dark=0.0)
    finally:
        dev.LPF = orig
    return z, spy


def run_impl(case):
    from opticomlib.typing import gv, binary_sequence
    import opticomlib.devices as dev
    res = {}
    try:
        with warnings.catch_warnings():
            warnings.simplefilter("ignore")
            gv.clean()
            if case["kind"] == "counter":
                import opticomlib.ook as ook
                import opticomlib.ppm as ppm
                tx = list(case["tx"])
                rx = list(tx)
                for p in case["flip"]:
                    rx[p] ^= 1
                conv = {"binary_sequence": binary_sequence, "list": list, "ndarray": lambda v: np.array(v)}[case["form"]]
                mod = ook if case["module"] == "ook" else ppm
                with time_limit(20):
                    ber = mod.BER_analizer("counter", Tx=conv(tx), Rx=conv(rx))
                    ber0 = mod.BER_analizer("counter", Tx=conv(tx), Rx=conv(tx))
                res.update(status="ok", ber=float(ber), ber0=float(ber0), rx=rx)
                return res
            gv(sps=case.get("sps", 16), R=case["R"])
            np.random.seed(case.get("seed", 1234))
            if case["kind"] == "chain":
                with time_limit(120):
                    z, spy = _run_chain(case, case["bits"])
                    inst = gv.sps // 2
                    s = dev.SAMPLER(z, inst)
                v0, v1 = _levels(case)
                ped = 10e-9 * case["Rl"] if case.get("idark") == "default" else 0.0     # the default dark current sits on both levels
                ys = np.array(s.signal.real, dtype=float) + (0 if s.noise is None else np.array(s.noise.real, dtype=float))
                thr = (v0 + v1) / 2 + ped
                dec = [int(b) for b in ((ys > thr) if v1 > v0 else (ys < thr))]
                if case.get("libcmp"):                      # the library's own threshold comparison on the sampled container
                    res["decoded_lib"] = [int(b) for b in ((s > thr) if v1 > v0 else (s < thr)).data]
                lv = np.where(np.array(case["bits"]) == 1, v1, v0) + ped
                res.update(status="ok", decoded=dec, v0=v0, v1=v1, n=len(z), pre=[float(t) for t in spy["pre"]],
                           pre_noise_zero=bool(spy["pre_noise"] is None or not np.any(spy["pre_noise"])
                                               or (case.get("idark") == "default"      # only the constant dark-current pedestal
                                                   and bool(np.all(np.abs(spy["pre_noise"] - 10e-9 * case["Rl"]) <= 1e-9 * 10e-9 * case["Rl"])))),
                           margin=float(np.max(np.abs(ys - lv)) / (abs(v1 - v0) / 2)), cls=type(z).__name__)
            elif case["kind"] == "dual":
                # polarisation multiplexing: ONE two-polarisation CW carrier object feeds two modulators (pol x, then pol y)
                from opticomlib.typing import optical_signal
                n = len(case["bits"]) * case["sps"]
                amp = np.sqrt(case["P"])
                cw = optical_signal(np.array([np.full(n, amp, dtype=complex), np.full(n, amp, dtype=complex)]))
                v0, v1 = _levels(case)
                thr = (v0 + v1) / 2
                trib = []
                for pol, bits in zip(case["order"], (case["bits"], case["bits2"])):
                    with time_limit(120):
                        z, _ = _run_chain(case, bits, cw=cw, pol=pol)
                        smp = dev.SAMPLER(z, gv.sps // 2)
                    ys = np.array(smp.signal.real, dtype=float)
                    dec = [int(b) for b in ((ys > thr) if v1 > v0 else (ys < thr))]
                    trib.append({"pol": pol, "bits": bits, "decoded": dec})
                res.update(status="ok", trib=trib, carrier_intact=bool(np.all(np.abs(cw.signal) == amp)))
            elif case["kind"] == "sweep":
                rr = __import__("random").Random(case["seed"])
                steps = []
                for sps in case["sps_seq"]:
                    if isinstance(sps, dict):          # a gv(...) call exactly as written, e.g. only the slot rate lowered
                        gv(**sps)
                        c2 = dict(case, sps=int(gv.sps), R=float(gv.R))
                        sps = int(gv.sps)
                    else:
                        gv(sps=sps, R=case["R"])
                        c2 = dict(case, sps=sps)
                    bits = _bits(rr, case["pattern"], case["nbits"])
                    with time_limit(120):
                        z, _ = _run_chain(c2, bits)
                        smp = dev.SAMPLER(z, gv.sps // 2)
                    v0, v1 = _levels(c2)
                    ys = np.array(smp.signal.real, dtype=float)
                    thr = (v0 + v1) / 2
                    dec = [int(b) for b in ((ys > thr) if v1 > v0 else (ys < thr))]
                    steps.append({"sps": sps, "bits": bits, "decoded": dec})
                res.update(status="ok", steps=steps)
            elif case["kind"] == "ook":
                import opticomlib.ook as ook
                with time_limit(300):
                    z, _ = _run_chain(case, case["bits"])
                    out, eye_obj, rth = ook.DSP(z)
                    ber = ook.BER_analizer("counter", Tx=binary_sequence(case["bits"]), Rx=out)
                res.update(status="ok", decoded=[int(b) for b in out.data], ber=float(ber), rth=float(rth))
            elif case["kind"] == "ppm":
                import opticomlib.ppm as ppm
                with time_limit(300):
                    slots = ppm.PPM_ENCODER(case["bits"], case["M"])
                    z, _ = _run_chain(case, [int(b) for b in slots.data])
                    out = ppm.DSP(z, case["M"], case["decision"])
                    k = case["M"].bit_length() - 1
                    want = case["bits"][: (len(case["bits"]) // k) * k]
                    ber = ppm.BER_analizer("counter", Tx=binary_sequence(want), Rx=out)
                res.update(status="ok", decoded=[int(b) for b in out.data], want=want, ber=float(ber))
    except Timeout as e:
        res.update(status="timeout", detail=str(e))
    except Exception as e:  # noqa
        res.update(status="err", err=exc_enum(e), detail=repr(e)[:300])
    finally:
        try:
            gv.clean()
        except Exception:
            pass
    return res


def model_requests(case, res):
    if res.get("status") != "ok":
        return []
    if case["kind"] == "counter":
        return [f"link.errors {enc_list(case['tx'])} {enc_list(res['rx'])}"]
    if case["kind"] == "chain" and case["shape"] == "nrz":
        kpd = case["r"] * case["Rl"] * case["P"]
        db, mb = _drive(case)
        return [f"link.rx {enc_f(kpd)} {enc_f(case['loss_dB'])} {enc_f(case['ER_dB'])} {enc_f(case['Vpi'])} {enc_f(mb)} "
                f"{enc_f(case['Vpi'])} {enc_f(db)} {case['sps']} {enc_list(case['bits'])}"]
    return []


def compare(case, res, reqs, replies):
    if not reqs:
        return []
    rep = replies[0]
    if not rep.startswith("ok "):
        return [f"model reply {rep[:80]}"]
    t = Toks(rep[3:])
    if case["kind"] == "counter":
        errs, n = t.nat(), t.nat()
        want = errs / n if n else float("nan")
        return [] if abs(want - res["ber"]) <= 1e-15 else [f"counter: model {errs}/{n} impl {res['ber']!r}"]
    out = []
    v0, v1 = t.f(), t.f()
    w = t.flist()
    if case["prop"] == "none":
        pre = res["pre"]
        scale = max(abs(v0), abs(v1), 1e-300)
        if len(w) != len(pre):
            out.append(f"pre-filter waveform length model {len(w)} impl {len(pre)}")
        else:
            bad = [i for i, (a, b) in enumerate(zip(w, pre)) if not (abs(a - b) <= 1e-9 * scale)]
            if bad:
                out.append(f"pre-filter waveform differs at sample {bad[0]}: model {w[bad[0]]!r} impl {pre[bad[0]]!r}")
    if not (abs(v0 - res["v0"]) <= 1e-9 * max(abs(v0), 1e-300)) or not (abs(v1 - res["v1"]) <= 1e-9 * max(abs(v1), 1e-300)):
        out.append(f"levels: model ({v0!r},{v1!r}) closed form ({res['v0']!r},{res['v1']!r})")
    return out


def oracle(case, res):
    v = []
    if res.get("status") == "timeout":
        return [("C03:timeout", f"{case['kind']} did not return")]
    if res.get("status") != "ok":
        return [(f"C03:raises:{case['kind']}", f"{case['kind']} raised {res.get('err')} {res.get('detail')}")]
    if case["kind"] == "counter":
        n = len(case["tx"])
        want = len(case["flip"]) / n
        if not (abs(res["ber"] - want) <= 1e-15):
            v.append(("C03:counter", f"BER_analizer('counter') = {res['ber']} for {len(case['flip'])} flipped bits of {n} ({case['module']}, {case['form']})"))
        if res["ber0"] != 0:
            v.append(("C03:counter-zero", f"counter reports {res['ber0']} for identical sequences"))
        return v
    tag = {k: case[k] for k in case if k not in ("bits", "bits2", "tx")}
    if case["kind"] == "chain":
        if res["decoded"] != case["bits"]:
            nerr = sum(a != b for a, b in zip(res["decoded"], case["bits"])) + abs(len(res["decoded"]) - len(case["bits"]))
            v.append((f"C03:chain:{case['shape']}", f"{nerr} bit errors after slot-centre sampling and mid-level threshold (margin {res['margin']:.3f}) {tag}"))
        if "decoded_lib" in res and res["decoded_lib"] != case["bits"]:
            nerr = sum(x != y for x, y in zip(res["decoded_lib"], case["bits"])) + abs(len(res["decoded_lib"]) - len(case["bits"]))
            v.append(("C03:chain:library-threshold", f"{nerr} bit errors when the sampled signal is compared with the midway threshold through the library's `>` (margin {res['margin']:.3f}) {tag}"))
        if res["n"] != len(case["bits"]) * case["sps"] or res["cls"] != "electrical_signal":
            v.append(("C03:chain-shape", f"received {res['cls']} of length {res['n']}"))
        if not res["pre_noise_zero"]:
            v.append(("C03:noise-free", "PD produced a non-zero noise component with every noise source switched off"))
        return v
    if case["kind"] == "dual":
        for t in res["trib"]:
            if t["decoded"] != t["bits"]:
                nerr = sum(a != b for a, b in zip(t["decoded"], t["bits"])) + abs(len(t["decoded"]) - len(t["bits"]))
                v.append(("C03:chain:shared-carrier", f"tributary on pol {t['pol']} (modulators fed from one 2-pol carrier in the order {case['order']}): {nerr} bit errors {tag}"))
                break
        return v
    if case["kind"] == "sweep":
        for i, st in enumerate(res["steps"]):
            if st["decoded"] != st["bits"]:
                nerr = sum(a != b for a, b in zip(st["decoded"], st["bits"]))
                v.append(("C03:chain-after-reconfiguration", f"link {i} of the sequence sps={case['sps_seq']} (same PD bandwidth {case['bw']}*R, sps={st['sps']}): {nerr} bit errors {tag}"))
                break
        return v
    want = case["bits"] if case["kind"] == "ook" else res["want"]
    if res["decoded"] != want:
        nerr = sum(a != b for a, b in zip(res["decoded"], want)) + abs(len(res["decoded"]) - len(want))
        sig = "C03:ook-dsp" if case["kind"] == "ook" else f"C03:ppm-dsp:{case['decision']}"
        v.append((sig, f"{nerr} bit errors of {len(want)} {tag}"))
    if res["ber"] != (0.0 if res["decoded"] == want else res["ber"]):
        v.append(("C03:counter-dsp", f"counter reports {res['ber']} for a perfect reception"))
    return v


def features(case, res):
    f = ["kind=" + case["kind"], "status=" + str(res.get("status"))]
    if case["kind"] == "chain":
        f += ["sps=%d" % case["sps"], "pattern=" + case["pattern"], "shape=" + case["shape"], "prop=" + case["prop"],
              "npol=%d" % case["npol"], "drive=(%g,%g)Vpi" % tuple(case.get("drive", (0.0, 1.0)))]
        if res.get("status") == "ok":
            m = res["margin"]
            f.append("margin<0.25" if m < 0.25 else "margin<0.5" if m < 0.5 else "margin<0.75" if m < 0.75 else "margin<1" if m < 1 else "margin>=1")
    if case["kind"] == "ppm":
        f += [f"M={case['M']}", case["decision"], "sps=%d" % case["sps"]]
    if case["kind"] == "dual" and res.get("status") == "ok":
        f.append("carrier-intact" if res.get("carrier_intact") else "carrier-modified")
    return f


def nontrivial_key(case, res):
    if res.get("status") != "ok":
        return None
    if case["kind"] == "counter":
        return ("counter", tuple(case["tx"]), tuple(case["flip"]), case["module"], case["form"]) if len(case["tx"]) > 1 else None
    if case["kind"] == "sweep":
        return ("sweep", repr(case["sps_seq"]), case["R"], case["shape"], case["seed"])
    return (case["kind"], tuple(case["bits"]), case["sps"], case["R"], case.get("shape"), case.get("prop"), case["npol"], case["ER_dB"], case.get("M"), case.get("decision"), tuple(case.get("drive", (0.0, 1.0))), case.get("bw"))
