"""C15 — binary_sequence is a closed, immutable-by-operation algebra over {0,1}; electrical_signal >, < comparisons."""
import itertools
import warnings
from fractions import Fraction

from harness.common.wire import exc_enum, enc_opt_int
from harness.common.watchdog import time_limit, Timeout

ID = "C15"
MANIFEST = {
    "text": "Lean 4 theorems (Props/C15.lean) over an exact model of typing.binary_sequence (constructor, +, reflected +, ~, "
            "int/slice indexing with CPython's slice adjustment, len/ones/zeros) and of electrical_signal.__gt__/__lt__, unbounded "
            "(every length, every operand, every slice triple, every ordered field): the constructor accepts exactly 0-D/1-D data "
            "whose elements all equal 0 or 1 and stores their bits; every operator result is again a valid sequence; "
            "len(a+b)=len a+len b, (a+b)[:len a]=a, b+a reflected, ~~a=a, (a+b)+c=a+(b+c), ~(a+b)=~a+~b, ones/zeros/len additive over +, (a+b)[i] read from a or b, ones+zeros=len, ones(~a)=zeros(a), a[:]=a, slice length and "
            "element formula; comparisons give a valid sequence of the signal's length, equal to the element-wise comparison of "
            "|signal+noise| with |threshold| and, for non-negative reals, of signal+noise with the threshold.  Tie: exact "
            "differential run of the compiled model against the real classes (all bit strings <= 8/12 in 5+ container forms, all "
            "slice triples on short sequences, random operator programs, malformed data), strings through a str2array model.",
    "note": "Trusted: Lean kernel, harness (which classifies the cells of np.array(data) as ==0 / ==1 / neither), numpy semantics of "
            "np.array, ==, concatenate, basic indexing.  Operand immutability and 'new object' are runtime monitors (bytes "
            "before/after, np.shares_memory), not theorems.  ndarray as LEFT operand of + is numpy's dispatch and is excluded "
            "(DESIGN §7).  Complex-class strings and fancy indexes are oracle-only.  Axioms: propext, Classical.choice, Quot.sound.",
    "technique": "Lean 4 proof (induction, order/ring algebra) over an executable model; differential correspondence run; runtime monitors",
    "design": "§5 C15",
}
GEN = []
RULE = ("cases = constructor calls (all bit strings up to 8 quick / 12 thorough, each in 5 container forms; scalars; malformed: "
        "values outside {0,1}, nan, None, strings inside lists, 2-D, ragged; ~120 literal + random strings over the separator, "
        "digit, float and complex alphabets); single indexing steps for every (start, stop, step) triple on every length <= 4 "
        "(quick) / 7 (thorough); random programs of 1..8 steps over +, reflected +, ~, int and slice indexing with 14 operand "
        "forms; electrical_signal >/< with real, integer and complex samples, optional noise, 12 threshold forms, ties.  "
        "non-trivial = accepted call/step, distinct by (kind, input, operation)")
PARTIAL = [
    "operands are left unchanged / results are new objects: runtime monitor on every step (bytes of .data and of ndarray/list operands "
    "before and after, np.shares_memory), not a theorem (the model is functional)",
    "fancy indexes (list / boolean mask), tuple indexes, complex-class strings ('1+0j'): oracle only (closure), not modelled",
    "float comparison of complex moduli (np.abs = hypot) is tied on samples whose squared moduli differ or whose parts coincide up to "
    "sign/order; rounding of hypot is outside the theorem",
]
ASSUMPTIONS = [
    "the harness's cell classification (element == 0, == 1, neither) of np.array(data) is what numpy's `(data == 0) | (data == 1)` computes",
    "generated real samples are dyadic (k/8) so signal+noise is exact in float64; integer-typed samples/noise are generated so that "
    "signal+noise stays inside the dtype (numpy wraps `uint8(200)+uint8(100)` to 44 before any comparison: reported, not generated)",
    "int64 samples are compared with INTEGER thresholds only (numpy compares int64 with a float64 threshold after a cast to float64, so "
    "`electrical_signal(np.array([2**53+1])) > 2.0**53` is 0: reported, not generated)",
    "the driver evaluates the same Lean definitions the theorems are about",
]
BUDGET = {"quick": 120, "thorough": 900}
EXHAUSTIVE = {"quick": True, "thorough": True}

SCALE = 8
# documented positional order of the anchored callables at /repo HEAD 8caea4c (a literal: never read from the code under test)
SIGNATURES = {
    "binary_sequence": ["data"],
    "electrical_signal": ["signal", "noise", "dtype"],
    "str2array": ["string", "dtype"],
}
BIT_FORMS = ["str", "list", "tuple", "ndarray", "ndarray_bool", "ndarray_float", "ndarray_u8", "list_bool", "list_float",
             "list_cplx", "str_sep"]
FIVE = ["str", "list", "tuple", "ndarray", "ndarray_bool"]


# ------------------------------------------------------------------------------------------------ building objects

def _obj(spec):
    """the Python object for a data / operand / threshold spec"""
    import numpy as np
    from opticomlib.typing import binary_sequence
    form = spec["form"]
    if form in ("str", "str_sep", "text"):
        return spec["text"]
    vals = spec.get("vals")
    if form == "list":
        return _delist(vals)
    if form == "tuple":
        return tuple(_delist(vals))
    if form == "ndarray":
        return np.array(_delist(vals))
    if form == "ndarray_bool":
        return np.array(vals, dtype=bool)
    if form == "ndarray_float":
        return np.array(vals, dtype=float)
    if form == "ndarray_u8":
        return np.array(vals, dtype=np.uint8)
    if form == "ndarray_dt":
        return np.array(vals, dtype=getattr(np, spec["dtype"]))
    if form == "zerod_dt":
        return np.array(vals, dtype=getattr(np, spec["dtype"]))            # vals is one number: a 0-d array
    if form == "list_npscalars":
        return [getattr(np, spec["dtype"])(v) for v in vals]
    if form == "bs_dt":
        return binary_sequence(np.array(vals, dtype=getattr(np, spec["dtype"])))
    if form == "list_bool":
        return [bool(v) for v in vals]
    if form == "list_float":
        return [float(v) for v in vals]
    if form == "list_cplx":
        return [complex(v) for v in vals]
    if form == "bs":
        return binary_sequence(list(vals))
    if form == "scalar":
        return _delist(vals)
    if form == "npscalar":
        return getattr(np, spec["np"])(vals)
    if form == "none":
        return None
    if form == "range":
        return range(vals)
    if form == "set":
        return set(vals)
    if form == "bytes":
        return bytes(vals)
    raise ValueError(form)


def _delist(v):
    """JSON has no nan / None-in-number / complex: tagged values"""
    if isinstance(v, list):
        return [_delist(x) for x in v]
    if isinstance(v, dict):
        if "nan" in v:
            return float("nan")
        if "inf" in v:
            return float("inf")
        if "c" in v:
            return complex(v["c"][0], v["c"][1])
        if "none" in v:
            return None
        if "s" in v:
            return v["s"]
        if "b" in v:
            return bool(v["b"])
    return v


def _bits_spec(form, bits, rng=None):
    if form == "str":
        return {"form": "str", "text": bits, "bits": bits}
    if form == "str_sep":
        seps = ["", " ", ",", "  ", ", ", " ,"]
        text = "".join(b + rng.choice(seps) for b in bits) or " "
        return {"form": "str_sep", "text": rng.choice(["", " ", ","]) + text, "bits": bits}
    return {"form": form, "vals": [int(c) for c in bits], "bits": bits}


def _cell(e):
    try:
        if isinstance(e, (str, bytes)) or e is None:
            return "x"
        if e == 0:
            return "0"
        if e == 1:
            return "1"
    except Exception:  # noqa
        pass
    return "x"


def _wire_data(spec):
    """model input for a data spec: the string itself, or the cells of np.array(object)"""
    import numpy as np
    if spec["form"] in ("str", "str_sep", "text"):
        cps = [ord(c) for c in spec["text"]]
        return "str " + " ".join([str(len(cps))] + [str(c) for c in cps])
    obj = _obj(spec)
    try:
        with warnings.catch_warnings():
            warnings.simplefilter("ignore")
            a = np.array(obj)
    except ValueError:
        return "ragged"
    cells = [_cell(e) for e in a.ravel().tolist()] if a.ndim else [_cell(a.item() if a.dtype != object else a[()])]
    if a.ndim == 0:
        return "scalar " + cells[0]
    if a.ndim == 1:
        return "vec " + " ".join([str(len(cells))] + cells)
    return f"nd {a.ndim} " + " ".join([str(len(cells))] + cells)


def _wire_operand(spec):
    import numpy as np
    form = spec["form"]
    if form in ("bs", "bs_dt"):
        return "bs " + " ".join([str(len(spec["vals"]))] + [str(v) for v in spec["vals"]])
    if form in ("str", "str_sep", "text"):
        return _wire_data(spec)
    obj = _obj(spec)
    if isinstance(obj, (list, tuple, np.ndarray)):
        return _wire_data(spec)
    return "other"


def _wire_bits(b):
    return " ".join([str(len(b))] + list(b))


def _wire_index(ix):
    t = ix["t"]
    if t == "int":
        return f"int {ix['i']}"
    if t == "slice":
        return f"slice {enc_opt_int(ix['a'])} {enc_opt_int(ix['b'])} {enc_opt_int(ix['c'])}"
    return t


def _index_obj(ix):
    import numpy as np
    t = ix["t"]
    if t == "int":
        return ix["i"]
    if t == "npint":
        return np.int64(ix["i"])
    if t == "slice":
        return slice(ix["a"], ix["b"], ix["c"])
    if t == "newaxis":
        return None
    if t == "ellipsis":
        return Ellipsis
    if t == "list":
        return list(ix["i"])
    if t == "mask":
        return np.array(ix["i"], dtype=bool)
    if t == "float":
        return float(ix["i"])
    raise ValueError(t)


def _seq_out(r):
    import numpy as np
    d = r.data
    return {"status": "ok", "cls": type(r).__name__, "dtype": str(d.dtype), "ndim": int(d.ndim),
            "bits": "".join(str(int(x)) for x in np.asarray(d).ravel()), "len": int(len(r)), "len2": int(r.len()),
            "ones": float(r.ones()), "zeros": float(r.zeros())}


def _err(e):
    return {"status": "err", "err": exc_enum(e), "exc": type(e).__name__, "detail": repr(e)[:160]}


# ------------------------------------------------------------------------------------------------ generation

def _all_bits(maxlen):
    for n in range(0, maxlen + 1):
        for t in itertools.product("01", repeat=n):
            yield "".join(t)


def _rand_bits(rng, n):
    return "".join(rng.choice("01") for _ in range(n))


BAD_DATA = [
    {"form": "list", "vals": [0, 2]}, {"form": "list", "vals": [0, -1]}, {"form": "list", "vals": [0.5]},
    {"form": "list", "vals": [{"nan": 1}]}, {"form": "list", "vals": [1, {"inf": 1}]}, {"form": "list", "vals": [{"none": 1}]},
    {"form": "list", "vals": [{"s": "0"}, {"s": "1"}]}, {"form": "list", "vals": [{"s": "a"}]}, {"form": "list", "vals": [1, {"s": "0"}]},
    {"form": "list", "vals": [[0, 1]]}, {"form": "list", "vals": [[0], [1]]}, {"form": "list", "vals": [[0, 1], [1, 0]]},
    {"form": "list", "vals": [[[1]]]}, {"form": "list", "vals": [[0, 1], [1]]}, {"form": "list", "vals": [[], []]},
    {"form": "tuple", "vals": [1, 0, 3]}, {"form": "ndarray", "vals": [[1, 0], [0, 1]]}, {"form": "ndarray", "vals": [1, 0, 7]},
    {"form": "ndarray_float", "vals": [0.0, 0.25]}, {"form": "list", "vals": [{"c": [1, 1]}]}, {"form": "list", "vals": [{"c": [0, 1]}]},
    {"form": "scalar", "vals": 2}, {"form": "scalar", "vals": -1}, {"form": "scalar", "vals": 0.5}, {"form": "scalar", "vals": {"nan": 1}},
    {"form": "scalar", "vals": {"c": [1, 1]}}, {"form": "none"}, {"form": "range", "vals": 3}, {"form": "set", "vals": [0, 1]},
    {"form": "bytes", "vals": [48, 49]}, {"form": "npscalar", "np": "uint8", "vals": 2}, {"form": "npscalar", "np": "float64", "vals": 0.5},
    {"form": "list", "vals": [1e-300]}, {"form": "list", "vals": [1.0000000000000002]}, {"form": "list", "vals": [255, 256]},
    {"form": "list", "vals": [2 ** 64]}, {"form": "list", "vals": [-0.0, 1, 2]},
]
# integers that are 0 or 1 only modulo 256 (or modulo 2^16, 2^32, 2^64): a cast to uint8 before the 0/1 test would let them in
WIDE = [256, 257, 512, 513, -255, -256, 65536, 65537, 2 ** 32, 2 ** 32 + 1, -2 ** 32 + 1, 2 ** 63 - 255, 255, 254, -1, 2]
WIDE_DTYPES = {"uint16": (0, 2 ** 16 - 1), "int16": (-2 ** 15, 2 ** 15 - 1), "int32": (-2 ** 31, 2 ** 31 - 1),
               "uint32": (0, 2 ** 32 - 1), "int64": (-2 ** 63, 2 ** 63 - 1), "uint64": (0, 2 ** 64 - 1)}


def _wide_specs(rng, per_value):
    """containers (list / tuple / ndarray of a wide integer dtype) holding one such integer, alone or among valid bits"""
    out = []
    for w in WIDE:
        for _ in range(per_value):
            n = rng.choice([1, 1, 2, 3, 5])
            vals = [rng.randrange(2) for _ in range(n)]
            vals[rng.randrange(n)] = w
            form = rng.choice(["list", "tuple", "ndarray", "ndarray_dt"])
            if form == "ndarray_dt":
                fits = [d for d, (lo, hi) in WIDE_DTYPES.items() if all(lo <= x <= hi for x in vals)]
                if not fits:
                    form = "list"
                else:
                    out.append({"form": "ndarray_dt", "dtype": rng.choice(fits), "vals": vals})
                    continue
            out.append({"form": form, "vals": vals})
    return out


GOOD_SCALARS = [
    ({"form": "scalar", "vals": 0}, "0"), ({"form": "scalar", "vals": 1}, "1"), ({"form": "scalar", "vals": {"b": 1}}, "1"),
    ({"form": "scalar", "vals": {"b": 0}}, "0"), ({"form": "scalar", "vals": 1.0}, "1"), ({"form": "scalar", "vals": 0.0}, "0"),
    ({"form": "scalar", "vals": -0.0}, "0"), ({"form": "scalar", "vals": {"c": [1, 0]}}, "1"), ({"form": "scalar", "vals": {"c": [0, 0]}}, "0"),
    ({"form": "npscalar", "np": "uint8", "vals": 1}, "1"), ({"form": "npscalar", "np": "bool_", "vals": 0}, "0"),
    ({"form": "npscalar", "np": "float32", "vals": 1}, "1"), ({"form": "npscalar", "np": "int64", "vals": 0}, "0"),
    ({"form": "range", "vals": 2}, "01"), ({"form": "range", "vals": 0}, ""), ({"form": "list", "vals": [-0.0, 1.0]}, "01"),
    ({"form": "list", "vals": [{"b": 1}, 0, 1.0, {"c": [0, 0]}]}, "1010"),
]
TEXTS = ["", " ", ",", ";", "0;1", "01;10", "0 1;1", "0\t1", "0\n1", "01\n", "\t", "0\x0b1", "0\xa01", "0 1", "2", "12", "0 1 2",
         "10 11", "+1 -0", "1,,0", ",1", "1,", "007 0", "00 01", "-1", "+", "1-1", "+-1", "9223372036854775807", "-9223372036854775808",
         "0.5", "1.0 0.0", "1.", ".5", ".", "1.2.3", "0.0", "-0.0", "-.0", "-1.0", "+.5", "+1.", "0." + "0" * 330 + "1",
         "0." + "9" * 20, "1." + "0" * 20 + "1", "0.99999999999999994", "0.99999999999999995", "1.0000000000000001",
         "1.00000000000000011102230246251565404236316680908203125", "1.00000000000000011102230246251565404236316680908203126",
         "0.999999999999999944488848768742172978818416595458984375", "0.999999999999999944488848768742172978818416595458984374",
         "1e3", "a", "01a", "1+0j", "j", "1j 0", "0x1", "１", "١", "1_0", " 0 1 ", "0 ,1", "1  0", "1 ; 0", "1;", "\n1", "0,1 1,0",
         "1.0, 0.0 ,1.", "1 0.0", "0 1.5", "1 -0", "1 +1 01", "0" * 40 + "1", "1 " * 30]


# integer literals outside the C long range: numpy raises OverflowError inside str2array; the constructor turns it into
# ValueError (fix e0d1539), and so do + and reflected + (fix 79ce078)
OVERFLOW_TEXTS = ["9223372036854775808", "-9223372036854775809", "99999999999999999999", "0 1 99999999999999999999",
                  "1,-99999999999999999999", "9223372036854775808;1", " 18446744073709551616 "]


# every kind of white space Python's `\\s` knows, around and inside bit patterns: only the blank (and the comma) separate bits;
# any other white-space character left in a 0/1 pattern is refused by HEAD (numpy cannot read it as a number)
ALL_DTYPES = ["bool_", "int8", "int16", "int32", "int64", "uint8", "uint16", "uint32", "uint64",
              "float16", "float32", "float64", "complex64", "complex128", "object_"]


def _dtype_specs(rng, bits):
    """the same valid bits as data of every numpy dtype, in every container kind"""
    out = []
    for dt in ALL_DTYPES:
        v = [int(c) for c in bits]
        out.append({"form": "ndarray_dt", "dtype": dt, "vals": v, "bits": bits})
        out.append({"form": "zerod_dt", "dtype": dt, "vals": v[0], "bits": bits[0]})
        if dt != "object_":
            out.append({"form": "npscalar", "np": dt, "vals": v[0], "bits": bits[0]})
            out.append({"form": "list_npscalars", "dtype": dt, "vals": v, "bits": bits})
    return out


WS_CHARS = ["\t", "\n", "\r\n", "\r", "\f", "\v", "\xa0", "\x1c", "\x85", "\u2003", "\u2028", "\u3000"]


def _ws_texts(rng, per):
    out = []
    for ws in WS_CHARS:
        for _ in range(per):
            bits = _rand_bits(rng, rng.randrange(1, 9))
            where = rng.choice(["lead", "trail", "inner", "inner", "both", "with-blanks"])
            if where == "lead":
                t = ws + bits
            elif where == "trail":
                t = bits + ws
            elif where == "both":
                t = ws + bits + ws
            elif where == "inner":
                k = rng.randrange(1, len(bits)) if len(bits) > 1 else 1
                t = bits[:k] + ws + bits[k:]
            else:
                t = " ".join(bits) + ws + " " + rng.choice(["0", "1", ""])
            out.append(t)
    return out


LINE_BREAKS = ["\n", "\r\n", " \n", "\n\n", "\r", "\n ", "\x0b", "\x0c", "\x85", "\u2028"]


def _multiline_texts(rng, per):
    """(text, expectation): a valid first line, a line break of every kind, and a second line"""
    out = []
    for br in LINE_BREAKS:
        for _ in range(per):
            first = _rand_bits(rng, rng.randrange(1, 7))
            if rng.random() < 0.4:
                first = " ".join(first)
            kind = rng.choice(["digit", "digit", "digits", "letter", "sign", "bits", "mixed"])
            if kind == "digit":
                second, exp = rng.choice("23456789"), "err"
            elif kind == "digits":
                second, exp = "".join(rng.choice("0123456789") for _ in range(rng.randrange(1, 4))) + rng.choice("23456789"), "err"
            elif kind == "letter":
                second, exp = rng.choice(["a", "ab", "x1", "1e3", "O", "l"]), "err"
            elif kind == "sign":
                second, exp = rng.choice(["+1", "-0", "-", "+", "-1", "+0 +1"]), "any"
            elif kind == "bits":
                second, exp = _rand_bits(rng, rng.randrange(1, 5)), "any"
            else:
                second, exp = rng.choice(["0 2", "1,5", "01 7 1", "9;1"]), "err"
            out.append((first + br + second, exp))
    return out


def _bool_class_digits(text):
    """for a string made only of 0, 1, comma and white space (one row): its digit characters, the only possible elements"""
    if text and all(ch in "01," or ch.isspace() or ch in "\x1c\x1d\x1e\x1f\x85" for ch in text):
        return "".join(ch for ch in text if ch in "01")
    return None


def _slice_vals(n):
    return [None] + list(range(-n - 2, n + 3))


def _rand_operand(rng, op):
    """(spec, bits or None, expectation)"""
    r = rng.random()
    if r < 0.62:
        forms = ["bs", "str", "str_sep", "list", "tuple", "ndarray", "ndarray_bool", "ndarray_float", "list_bool", "list_float"]
        if op == "radd":
            forms = [f for f in forms if not f.startswith("ndarray")]    # numpy's own dispatch (DESIGN §7)
        form = rng.choice(forms)
        bits = _rand_bits(rng, rng.choice([0, 1, 1, 2, 3, 5, 8, 13]))
        if form == "str" and not bits:
            bits = "1"
        if form == "bs":
            return {"form": "bs", "vals": [int(c) for c in bits], "bits": bits}, bits, "ok"
        return _bits_spec(form, bits, rng), bits, "ok"
    if r < 0.72:
        cand = [{"form": "scalar", "vals": 1}, {"form": "scalar", "vals": 0}, {"form": "none"}, {"form": "scalar", "vals": 1.0},
                {"form": "set", "vals": [0, 1]}, {"form": "range", "vals": 2}]
        if op == "add":
            cand.append({"form": "npscalar", "np": "uint8", "vals": 1})    # on the left it would be numpy's dispatch (DESIGN §7)
        return rng.choice(cand), None, "err"
    if r < 0.92:
        cand = [s for s in BAD_DATA if s["form"] in ("list", "tuple") or (op == "add" and s["form"].startswith("ndarray"))]
        if rng.random() < 0.3:
            wide = [s for s in _wide_specs(rng, 1) if s["form"] in ("list", "tuple") or op == "add"]
            cand = wide or cand                      # a single wide spec of array form is not usable on the left of `+`
        return rng.choice(cand), None, "err"
    t = rng.choice(TEXTS)
    return {"form": "text", "text": t}, None, "any"


def _rand_index(rng, n):
    r = rng.random()
    if r < 0.3:
        return {"t": rng.choice(["int", "int", "npint"]), "i": rng.randrange(-n - 2, n + 3)}
    if r < 0.9:
        v = _slice_vals(n)
        return {"t": "slice", "a": rng.choice(v), "b": rng.choice(v), "c": rng.choice([None, None, 1, -1, 2, -2, 3, -3, 0, n + 1, -n - 1])}
    if r < 0.94:
        return {"t": rng.choice(["newaxis", "ellipsis"])}
    if r < 0.97 and n:
        return {"t": "list", "i": [rng.randrange(-n, n) for _ in range(rng.randrange(0, 4))]}
    if r < 0.99:
        return {"t": "mask", "i": [rng.randrange(2) for _ in range(n)]}
    return {"t": "float", "i": 0}


def _rand_samples(rng, n, cplx, lo=-24, hi=24):
    if cplx:
        return [[rng.randint(lo, hi), rng.randint(lo, hi)] for _ in range(n)]
    return [[rng.randint(lo, hi), 0] for _ in range(n)]


def _mag2(z):
    return z[0] * z[0] + z[1] * z[1]


def _risky_tie(a, b):
    """equal squared moduli reached by different parts: hypot rounding could separate them in float"""
    return _mag2(a) == _mag2(b) and sorted((abs(a[0]), abs(a[1]))) != sorted((abs(b[0]), abs(b[1]))) and (a[1] != 0 or b[1] != 0)


def gen_cases(rng, tier):
    quick = tier == "quick"
    cases = []
    # --- constructor: exhaustive small domain x 5 forms ---------------------------------------------
    maxlen = 8 if quick else 12
    for bits in _all_bits(maxlen):
        for form in FIVE:
            if form == "str" and not bits:
                cases.append({"kind": "mk", "data": {"form": "text", "text": ""}, "expect": "err"})
                continue
            cases.append({"kind": "mk", "data": _bits_spec(form, bits, rng), "expect": "ok"})
    for _ in range(150 if quick else 3000):
        bits = _rand_bits(rng, rng.choice([1, 2, 9, 16, 17, 64, 100, rng.randrange(1, 2000)]))
        cases.append({"kind": "mk", "data": _bits_spec(rng.choice(BIT_FORMS), bits, rng), "expect": "ok"})
    for spec, bits in GOOD_SCALARS:
        cases.append({"kind": "mk", "data": dict(spec, bits=bits), "expect": "ok"})
    for spec in BAD_DATA:
        cases.append({"kind": "mk", "data": spec, "expect": "err"})
    for _ in range(60 if quick else 1500):
        # one offending element somewhere in an otherwise valid container
        n = rng.randrange(1, 12)
        vals = [rng.randrange(2) for _ in range(n)]
        vals[rng.randrange(n)] = rng.choice([2, -1, 0.5, {"nan": 1}, {"none": 1}, {"s": "1"}, 3.0, {"c": [1, 1]}, 1e-9, 256, -0.5])
        cases.append({"kind": "mk", "data": {"form": rng.choice(["list", "tuple", "ndarray"]), "vals": vals}, "expect": "err"})
    for _ in range(20 if quick else 300):
        r, c = rng.randrange(1, 4), rng.randrange(0, 4)
        cases.append({"kind": "mk", "data": {"form": rng.choice(["list", "ndarray"]), "vals": [[rng.randrange(2) for _ in range(c)] for _ in range(r)]},
                      "expect": "err"})
    # integers congruent to 0/1 modulo a power of 256, in wide dtypes: constructor and both orders of +
    for spec in _wide_specs(rng, 2 if quick else 12):
        cases.append({"kind": "mk", "data": spec, "expect": "err"})
    for spec in _wide_specs(rng, 2 if quick else 12):
        for op in (("add",) if spec["form"].startswith("ndarray") else ("add", "radd")):
            cases.append({"kind": "prog", "init": _rand_bits(rng, rng.randrange(0, 7)),
                          "steps": [{"op": op, "operand": spec, "obits": None, "expect": "err", "keep": False}]})
    # every numpy dtype in every container kind: constructor, then every operator result (stored dtype must be uint8)
    for _ in range(1 if quick else 10):
        for spec in _dtype_specs(rng, _rand_bits(rng, rng.randrange(1, 9))):
            cases.append({"kind": "mk", "data": spec, "expect": "ok"})
    for _ in range(1 if quick else 10):
        for dt in ALL_DTYPES:
            init = _rand_bits(rng, rng.randrange(1, 9))
            ob = _rand_bits(rng, rng.randrange(1, 6))
            ov = [int(c) for c in ob]
            steps = [{"op": "get", "index": {"t": "slice", "a": rng.choice([None, 0, 1]), "b": None, "c": rng.choice([None, 1, -1, 2])}, "keep": False},
                     {"op": "get", "index": {"t": "int", "i": rng.choice([0, -1])}, "keep": False},
                     {"op": "inv", "keep": False},
                     {"op": "add", "operand": {"form": "bs_dt", "dtype": dt, "vals": ov, "bits": ob}, "obits": ob, "expect": "ok", "keep": False},
                     {"op": "add", "operand": {"form": "ndarray_dt", "dtype": dt, "vals": ov, "bits": ob}, "obits": ob, "expect": "ok", "keep": False}]
            if dt != "object_":
                steps.append({"op": "add", "operand": {"form": "list_npscalars", "dtype": dt, "vals": ov, "bits": ob}, "obits": ob,
                              "expect": "ok", "keep": False})
                steps.append({"op": "radd", "operand": {"form": "list_npscalars", "dtype": dt, "vals": ov, "bits": ob}, "obits": ob,
                              "expect": "ok", "keep": True})
            steps.append({"op": "radd", "operand": {"form": "bs_dt", "dtype": dt, "vals": ov, "bits": ob}, "obits": ob, "expect": "ok", "keep": True})
            steps.append({"op": "get", "index": {"t": "slice", "a": 1, "b": None, "c": None}, "keep": True})
            steps.append({"op": "inv", "keep": True})
            cases.append({"kind": "prog", "init": init, "init_dtype": dt, "steps": steps})
    for t, exp in _multiline_texts(rng, 3 if quick else 30):
        cases.append({"kind": "mk", "data": {"form": "text", "text": t}, "expect": exp})
    for t, exp in _multiline_texts(rng, 2 if quick else 20):
        for op in ("add", "radd"):
            cases.append({"kind": "prog", "init": _rand_bits(rng, rng.randrange(0, 6)),
                          "steps": [{"op": op, "operand": {"form": "text", "text": t}, "obits": None, "expect": exp, "keep": False}]})
    for t in ["0101\n2", "0101\r\n2", "0101 \n2", "0101\n\n2", "01\n7", "0\n9\n1"]:
        cases.append({"kind": "mk", "data": {"form": "text", "text": t}, "expect": "err"})
        for op in ("add", "radd"):
            cases.append({"kind": "prog", "init": "01", "steps": [{"op": op, "operand": {"form": "text", "text": t}, "obits": None,
                                                                   "expect": "err", "keep": False}]})
    for t in _ws_texts(rng, 2 if quick else 20):
        cases.append({"kind": "mk", "data": {"form": "text", "text": t}, "expect": "any"})
    for t in _ws_texts(rng, 1 if quick else 10):
        for op in ("add", "radd"):
            cases.append({"kind": "prog", "init": _rand_bits(rng, rng.randrange(0, 6)),
                          "steps": [{"op": op, "operand": {"form": "text", "text": t}, "obits": None, "expect": "any", "keep": False}]})
    for t in TEXTS:
        cases.append({"kind": "mk", "data": {"form": "text", "text": t}, "expect": "any"})
    for t in OVERFLOW_TEXTS:
        cases.append({"kind": "mk", "data": {"form": "text", "text": t}, "expect": "err"})
    for _ in range(150 if quick else 3000):
        alpha = rng.choice(["01 ,", "01 ,", "01 ,;", "01 ,\t\n", "012 ,", "0123456789 ,+-", "01 ,.", "01.+- ,;", "01. ", "01j+ ,"])
        t = "".join(rng.choice(alpha) for _ in range(rng.randrange(1, 14)))
        cases.append({"kind": "mk", "data": {"form": "text", "text": t}, "expect": "any"})

    # --- every slice triple on short sequences ----------------------------------------------------------
    for n in range(0, 5 if quick else 8):
        bits = _rand_bits(rng, n)
        steps = [None, 1, -1, 2, -2, 3, -3, 0, n + 1, -(n + 1)]
        for a in _slice_vals(n):
            for b in _slice_vals(n):
                for c in steps:
                    cases.append({"kind": "prog", "init": bits, "steps": [{"op": "get", "index": {"t": "slice", "a": a, "b": b, "c": c}}]})
        for i in range(-n - 2, n + 3):
            cases.append({"kind": "prog", "init": bits, "steps": [{"op": "get", "index": {"t": "int", "i": i}}]})
    # --- all pairs of short words: concatenation laws ------------------------------------------------------
    for a in _all_bits(3 if quick else 5):
        for b in _all_bits(3 if quick else 4):
            form = rng.choice(["bs", "str", "list", "tuple", "ndarray"])
            if form == "str" and not b:
                form = "list"
            spec = {"form": "bs", "vals": [int(c) for c in b], "bits": b} if form == "bs" else _bits_spec(form, b, rng)
            op = "radd" if (form in ("str", "list", "tuple") and rng.random() < 0.5) else "add"
            cases.append({"kind": "prog", "init": a, "steps": [{"op": op, "operand": spec, "obits": b, "expect": "ok", "keep": True},
                                                               {"op": "inv", "keep": True}]})
    # --- random programs --------------------------------------------------------------------------------------
    for _ in range(300 if quick else 10000):
        init = _rand_bits(rng, rng.choice([0, 1, 2, 3, 4, 7, 8, 9, 16, 31, rng.randrange(0, 200)]))
        n = len(init)
        steps = []
        for _ in range(rng.randrange(1, 9)):
            op = rng.choice(["add", "add", "radd", "inv", "get", "get"])
            if op in ("add", "radd"):
                spec, bits, exp = _rand_operand(rng, op)
                steps.append({"op": op, "operand": spec, "obits": bits, "expect": exp, "keep": rng.random() < 0.8})
                if exp == "ok" and steps[-1]["keep"]:
                    n += len(bits)
            elif op == "inv":
                steps.append({"op": "inv", "keep": rng.random() < 0.8})
            else:
                steps.append({"op": "get", "index": _rand_index(rng, n), "keep": False})
        cases.append({"kind": "prog", "init": init, "steps": steps})

    # --- electrical_signal > threshold, < threshold ---------------------------------------------------------------
    thr_forms = ["scalar", "scalar", "list", "tuple", "ndarray", "esig", "esig_noise", "str", "npscalar", "list1", "wrong_len", "empty", "nd2"]
    for _ in range(400 if quick else 8000):
        n = rng.choice([1, 1, 2, 3, 4, 5, 8, 17])
        style = rng.choice(["nonneg", "nonneg", "real", "int", "cplx", "ties"])
        cplx = style == "cplx"
        lo, hi = (0, 24) if style in ("nonneg", "ties") else (-24, 24)
        if style == "ties":
            lo, hi = 0, 3
        sig = _rand_samples(rng, n, cplx, lo, hi)
        noise = None
        if rng.random() < 0.5:
            noise = _rand_samples(rng, n, cplx and rng.random() < 0.7, 0 if style in ("nonneg", "ties") else -8, 8 if style != "ties" else 2)
        form = rng.choice(thr_forms)
        if form == "str" and style == "int":
            form = "list"      # '10' would be read as the two bits 1,0 by str2array
        tc = cplx and rng.random() < 0.5 and form != "npscalar"
        tlo = 0 if style in ("nonneg", "ties") else -24
        thi = 3 if style == "ties" else 24
        m = {"scalar": 1, "npscalar": 1, "list1": 1, "empty": 0, "wrong_len": n + rng.choice([1, 2]) if n > 1 or rng.random() < .5 else 3,
             "nd2": n}.get(form, n)
        if form == "str":
            m = rng.choice([1, n])
        tv = _rand_samples(rng, m, tc, tlo, thi)
        tn = _rand_samples(rng, m, False, 0, 4) if form == "esig_noise" else None
        scale = 1 if style == "int" else SCALE
        c = {"kind": "cmp", "op": rng.choice(["gt", "lt"]), "sig": sig, "noise": noise, "scale": scale,
             "thr": {"form": form, "vals": tv, "noise": tn}}
        # avoid float-rounding-sensitive complex ties (see PARTIAL)
        tot = [[s[0] + (noise[i][0] if noise else 0), s[1] + (noise[i][1] if noise else 0)] for i, s in enumerate(sig)]
        tt = [[t[0] + (tn[i][0] if tn else 0), t[1]] for i, t in enumerate(tv)]
        pairs = zip(tot, tt * n if len(tt) == 1 else tt)
        if any(_risky_tie(a, b) for a, b in pairs):
            continue
        cases.append(c)
    # integer-typed signals (int64 from lists / arange, int32, uint8, bool), with and without integer noise, against
    # FRACTIONAL thresholds (x.5, x.25, above 255 for uint8, negative fractions) in every threshold form: the threshold must
    # be compared as it is, not cast to the signal's dtype
    frac_forms = ["scalar", "npscalar", "npscalar32", "list", "tuple", "ndarray", "esig", "esig_noise", "str", "list1"]
    for dt in ["pylist", "arange", "int64", "int32", "uint8", "bool_"]:
        for form in frac_forms:
            for rep_ in range(2 if quick else 24):
                n = rng.choice([1, 2, 3, 5, 8])
                hi = 1 if dt == "bool_" else (120 if dt == "uint8" else 12)
                lo = 0 if dt in ("uint8", "bool_", "arange") or rep_ % 2 == 0 else -12
                sig = [[i, 0] for i in range(n)] if dt == "arange" else [[rng.randint(lo, hi), 0] for _ in range(n)]
                noise = None
                if rng.random() < 0.4 and dt != "bool_":
                    noise = [[rng.randint(0, 3), 0] for _ in range(n)]
                m = 1 if form in ("scalar", "npscalar", "npscalar32", "list1") else (rng.choice([1, n]) if form == "str" else n)
                def frac(i):
                    base = sig[min(i, n - 1)][0] + (noise[min(i, n - 1)][0] if noise else 0)
                    k = rng.choice([8 * base + 4, 8 * base - 4, 8 * base + 2, 8 * base - 2, 8 * base + 6, 4, 2, 20,
                                    rng.randrange(0, 8 * hi + 8), 2 * rng.randrange(0, 4 * hi + 4) + 1])
                    if dt == "uint8" and rng.random() < 0.25:
                        k = 8 * rng.choice([256, 257, 300, 511]) + rng.choice([2, 4, 6])
                    if rng.random() < 0.1:
                        k = -abs(k) - 4
                    if form == "str" and k < 0:
                        k = -k
                    return k
                tv = [[frac(i), 0] for i in range(m)]
                tn = [[rng.choice([0, 2, 4, 8]), 0] for _ in range(m)] if form == "esig_noise" else None
                cases.append({"kind": "cmp", "op": rng.choice(["gt", "lt"]), "sig": sig, "noise": noise, "sscale": 1, "scale": SCALE,
                              "sig_dtype": dt, "thr": {"form": form, "vals": tv, "noise": tn}})
    # UNSIGNED integer signals (+ unsigned noise) against UNSIGNED integer thresholds — numpy scalar, 0-d array, 1-element
    # array, full-length array, electrical_signal of that dtype — and the mixed pairs unsigned/signed, unsigned/Python int:
    # a difference of two unsigned values wraps, a comparison must not.  Sums are kept inside the dtype's range (numpy's own
    # wrap-around of `signal + noise` on overflow is reported separately, not generated).
    udts = ["uint8", "uint16", "uint32", "uint64"]
    sdts = ["int16", "int32", "int64"]
    pairs = [(a, b) for a in udts for b in udts] + [(a, b) for a in udts for b in sdts + [None]] + [(a, b) for a in sdts for b in udts]
    uforms = ["npscalar", "zerod", "list1", "ndarray", "esig", "esig_noise"]
    for sd, td in pairs:
        for form in (uforms if td else ["scalar", "pylist1", "pylist"]):
            for rep_ in range(1 if quick else 12):
                n = rng.choice([1, 2, 3, 7, 8])
                # every sample, sum and threshold must fit the narrowest dtype involved (thresholds reach 2*top + 21)
                top = 100 if "uint8" in (sd, td) else rng.choice([100, 12000]) if "int16" in (sd, td) else rng.choice([100, 30000])
                sig = [[rng.randint(0, top), 0] for _ in range(n)]
                noise = [[rng.randint(0, top // 2), 0] for _ in range(n)] if rng.random() < 0.4 else None
                m = n if form in ("ndarray", "esig", "esig_noise", "pylist") else 1
                def near(i):
                    base = sig[min(i, n - 1)][0] + (noise[min(i, n - 1)][0] if noise else 0)
                    return max(0, rng.choice([base, base + 1, base - 1, base + rng.randint(1, top // 2 + 1), rng.randint(0, top), top]))
                tv = [[near(i), 0] for i in range(m)]
                if m == 1 and n > 1:           # a scalar threshold strictly inside the range of the samples when possible
                    tot_ = sorted(x[0] + (noise[i][0] if noise else 0) for i, x in enumerate(sig))
                    tv = [[rng.choice([tot_[len(tot_) // 2], tot_[-1], tot_[0] + 1]), 0]]
                tn = [[rng.randint(0, 20), 0] for _ in range(m)] if form == "esig_noise" else None
                thr = {"form": {"pylist1": "list1", "pylist": "list"}.get(form, form), "vals": tv, "noise": tn}
                if td:
                    thr["dtype"] = td
                for op in ("gt", "lt"):
                    cases.append({"kind": "cmp", "op": op, "sig": sig, "noise": noise, "sscale": 1, "scale": 1,
                                  "sig_dtype": sd, "thr": thr})
    # the plain instance: sample codes against a code threshold of the same unsigned dtype
    for dt in udts:
        for form in ("npscalar", "list1", "ndarray"):
            for op in ("gt", "lt"):
                cases.append({"kind": "cmp", "op": op, "sig": [[10, 0], [50, 0], [90, 0]], "noise": None, "sscale": 1, "scale": 1,
                              "sig_dtype": dt, "thr": {"form": form, "dtype": dt, "noise": None,
                                                       "vals": [[50, 0]] * (3 if form == "ndarray" else 1)}})
    # amplitude regimes over the whole float range: real samples k * 2^e (k small, so every sum is exact) and decimal
    # magnitudes 1e-300 ... 1e300, threshold at the same scale and at a different scale; squares of such values under- or
    # overflow, magnitudes do not.  Values travel to the model as exact integers (common power-of-two denominator).
    fforms = ["scalar", "npscalar", "list1", "list", "tuple", "ndarray", "esig"]
    decades = [-300, -200, -170, -154, -100, -30, 0, 30, 100, 154, 170, 200, 300]
    for _ in range(150 if quick else 3000):
        n = rng.choice([1, 2, 3, 4, 6])
        mode = rng.choice(["pow2", "pow2", "decimal", "mixed-scales", "with-zero"])
        if mode in ("pow2", "with-zero"):
            e = rng.choice([-1060, -1000, -600, -520, -500, -300, -60, 0, 60, 300, 500, 511, 520, 600, 1000, 1010])
            sig = [float(rng.randint(0, 24)) * 2.0 ** e for _ in range(n)]
            noise = [float(rng.randint(0, 8)) * 2.0 ** e for _ in range(n)] if rng.random() < 0.4 else None
            tb = lambda: float(rng.randint(0, 30)) * 2.0 ** e      # noqa: E731
            if mode == "with-zero":
                sig[rng.randrange(n)] = 0.0
                tb = lambda: 0.0                                   # noqa: E731
        elif mode == "decimal":
            d = rng.choice(decades)
            sig = [float(f"{rng.randint(1, 99)}e{d - 1}") for _ in range(n)]
            noise = None
            tb = lambda: float(f"{rng.randint(1, 99)}e{d - 1}")     # noqa: E731
        else:
            sig = [float(f"{rng.randint(1, 9)}e{rng.choice(decades)}") for _ in range(n)]
            noise = None
            tb = lambda: float(f"{rng.randint(1, 9)}e{rng.choice(decades)}")   # noqa: E731
        form = rng.choice(fforms)
        m = 1 if form in ("scalar", "npscalar", "list1") else n
        tv = [tb() for _ in range(m)]
        if rng.random() < 0.3:
            tv[0] = sig[0] + (noise[0] if noise else 0.0)             # an exact tie
        for op in ("gt", "lt"):
            cases.append({"kind": "cmpf", "op": op, "sig": sig, "noise": noise, "thr": {"form": form, "vals": tv}})
    # the documented shape of the failure of a squared comparison
    for sig, tv in [([0.0, 1e-200, 3e-170, 1.0], [0.0]), ([1e200, 2e200, 3e200], [1.5e200]), ([1e-300, 2e-300, 3e-300], [2e-300]),
                    ([5e-324, 0.0, 1e-310], [0.0]), ([1.7e308, 1e308], [1.5e308])]:
        for op in ("gt", "lt"):
            for form in ("scalar", "list1"):
                cases.append({"kind": "cmpf", "op": op, "sig": sig, "noise": None, "thr": {"form": form, "vals": tv}})
    # float32 / float16 signals against float64 thresholds placed BETWEEN adjacent representable values of the signal's
    # precision (Python float, np.float64, one-element list / array / electrical_signal, full float64 array): the comparison
    # must be made on the stored sample and the threshold as they are, not after rounding the threshold to the signal's dtype
    import struct

    def nxt(v, code, up):
        fmt, ifmt = ("<f", "<I") if code == "float32" else ("<e", "<H")
        b = struct.unpack(ifmt, struct.pack(fmt, v))[0]
        return struct.unpack(fmt, struct.pack(ifmt, b + (1 if up else -1)))[0]       # v > 0: neighbouring representable value

    def rnd(v, code):
        return struct.unpack("<f" if code == "float32" else "<e", struct.pack("<f" if code == "float32" else "<e", v))[0]

    for code in ("float32", "float16"):
        for _ in range(40 if quick else 800):
            n = rng.choice([1, 2, 3, 5])
            sig = [rnd(rng.choice([0.1, 0.2, 0.3, 0.7, 1.1, 2.5, 3.3, 0.001, 100.1, rng.uniform(0.01, 50.0)]), code) for _ in range(n)]
            form = rng.choice(["scalar", "npscalar", "list1", "ndarray1", "esig1", "ndarray", "list"])
            m = n if form in ("ndarray", "list") else 1
            tv = []
            for i in range(m):
                s0 = sig[i if m > 1 else rng.randrange(n)]
                lo, hi = nxt(s0, code, False), nxt(s0, code, True)
                tv.append(rng.choice([s0, (s0 + hi) / 2, (s0 + lo) / 2, s0 + (hi - s0) / 4, s0 - (s0 - lo) / 4, hi, lo,
                                      float(repr(s0)[:5]) if float(repr(s0)[:5]) > 0 else s0]))
            for op in ("gt", "lt"):
                cases.append({"kind": "cmpf", "op": op, "sig": sig, "noise": None, "fdtype": code, "thr": {"form": form, "vals": tv}})
    for code, vals in (("float32", [0.1, 0.3, 0.7]), ("float16", [0.1, 0.3, 0.7])):
        for form in ("scalar", "npscalar", "list1", "ndarray1"):
            for t0 in (0.1, 0.3, 0.7):
                for op in ("gt", "lt"):
                    cases.append({"kind": "cmpf", "op": op, "sig": [rnd(x, code) for x in vals], "noise": None, "fdtype": code,
                                  "thr": {"form": form, "vals": [t0]}})
    # large int64 samples (2^53 ... 2^62) against INTEGER thresholds one unit apart: a cast to float would tie them.
    # (int64 samples against a FLOAT threshold are compared by numpy after a cast to float64: reported, not generated)
    for _ in range(40 if quick else 800):
        n = rng.choice([1, 2, 3, 5])
        b = rng.choice([2 ** 53, 2 ** 53 + 2 ** 20, 2 ** 56, 2 ** 60, 2 ** 62, 2 ** 62 + 2 ** 61 - 8])
        sig = [b + rng.randint(-3, 3) for _ in range(n)]
        noise = [rng.randint(0, 3) for _ in range(n)] if rng.random() < 0.3 else None
        form = rng.choice(["scalar", "npscalar", "list1", "list", "ndarray", "esig"])
        m = 1 if form in ("scalar", "npscalar", "list1") else n
        tv = [b + rng.randint(-3, 4) for _ in range(m)]
        for op in ("gt", "lt"):
            cases.append({"kind": "cmpf", "op": op, "sig": sig, "noise": noise, "int64": True, "thr": {"form": form, "vals": tv}})
    # the plain instance of the documented use: a ramp against x.5
    for n in [4, 8]:
        for op in ("gt", "lt"):
            for form in ("scalar", "ndarray"):
                cases.append({"kind": "cmp", "op": op, "sig": [[i, 0] for i in range(n)], "noise": None, "sscale": 1, "scale": SCALE,
                              "sig_dtype": "arange", "thr": {"form": form, "vals": [[20, 0]] * (1 if form == "scalar" else n), "noise": None}})
    # all comparisons of a 2-sample signal over a tiny grid with a scalar / array threshold (ties included)
    grid = [0, 1, 2] if quick else [0, 1, 2, 3]
    for s0, s1, n0, t0 in itertools.product(grid, grid, [None] + grid[:2], grid):
        for op in ("gt", "lt"):
            cases.append({"kind": "cmp", "op": op, "sig": [[s0, 0], [s1, 0]], "noise": None if n0 is None else [[n0, 0], [1, 0]],
                          "scale": SCALE, "thr": rng.choice([{"form": rng.choice(["scalar", "list", "ndarray"]), "vals": [[t0, 0]], "noise": None},
                                                             {"form": rng.choice(["tuple", "list", "ndarray"]), "vals": [[t0, 0], [1, 0]], "noise": None}])})
    for bad in [{"form": "none"}, {"form": "text", "text": "a"}, {"form": "text", "text": ""}, {"form": "dict"}]:
        cases.append({"kind": "cmp", "op": "gt", "sig": [[8, 0], [16, 0]], "noise": None, "scale": SCALE, "thr": bad})
    # out-of-range integer literals as operands of + / reflected + (fix 79ce078), the former suspect cases
    cases += [dict(c) for c in OVERFLOW_OPERANDS]
    for t in OVERFLOW_TEXTS:
        for op in ("add", "radd"):
            cases.append({"kind": "prog", "init": _rand_bits(rng, rng.randrange(0, 6)),
                          "steps": [{"op": op, "operand": {"form": "text", "text": t}, "obits": None, "expect": "err", "keep": False}]})
    rng.shuffle(cases)
    return cases


OVERFLOW_OPERANDS = [
    {"kind": "prog", "init": "01", "steps": [{"op": "add", "operand": {"form": "text", "text": "-9223372036854775809"}, "obits": None,
                                              "expect": "err", "keep": False}]},
    {"kind": "prog", "init": "01", "steps": [{"op": "radd", "operand": {"form": "text", "text": "99999999999999999999"}, "obits": None,
                                              "expect": "err", "keep": False}]},
]


# ------------------------------------------------------------------------------------------------ real code

def _run_mk(case):
    from opticomlib.typing import binary_sequence
    import numpy as np
    obj = _obj(case["data"])
    before = obj.tobytes() if isinstance(obj, np.ndarray) else repr(obj)
    try:
        with time_limit(20):
            with warnings.catch_warnings():
                warnings.simplefilter("ignore")
                r = binary_sequence(obj)
        res = _seq_out(r)
        if isinstance(obj, np.ndarray):
            res["shares"] = bool(np.shares_memory(r.data, obj))
    except Timeout:
        raise
    except Exception as e:  # noqa
        res = _err(e)
    after = obj.tobytes() if isinstance(obj, np.ndarray) else repr(obj)
    res["input_unchanged"] = before == after
    # keyword twin (documented parameter names, SIGNATURES): same outcome as the positional call
    try:
        with time_limit(20):
            with warnings.catch_warnings():
                warnings.simplefilter("ignore")
                rk = binary_sequence(**{SIGNATURES["binary_sequence"][0]: _obj(case["data"])})
        kw = _seq_out(rk)
    except Timeout:
        raise
    except Exception as e:  # noqa
        kw = _err(e)
    res["kw"] = {k: kw.get(k) for k in ("status", "bits", "err", "exc", "dtype", "ndim")}
    if isinstance(obj, str):
        from opticomlib.utils import str2array

        def s2a(*a, **k):
            try:
                with time_limit(20):
                    with warnings.catch_warnings():
                        warnings.simplefilter("ignore")
                        r = str2array(*a, **k)
                return ["ok", str(r.dtype), list(r.shape), repr(r.tolist())[:400]]
            except Timeout:
                raise
            except Exception as e:  # noqa
                return ["err", type(e).__name__]
        names = SIGNATURES["str2array"]
        res["s2a"] = [[s2a(obj, dt), s2a(**{names[0]: obj, names[1]: dt})] for dt in (None, bool, int)]
    return res


def _run_prog(case):
    import numpy as np
    from opticomlib.typing import binary_sequence
    if case.get("init_dtype"):
        cur = binary_sequence(np.array([int(c) for c in case["init"]], dtype=getattr(np, case["init_dtype"])))
    else:
        cur = binary_sequence([int(c) for c in case["init"]])
    out = []
    for st in case["steps"]:
        prev = "".join(str(int(x)) for x in cur.data)
        rec = {"prev": prev, "prev_dtype": str(cur.data.dtype)}
        snap = cur.data.tobytes()
        op = st["op"]
        operand = None
        osnap = None
        try:
            with time_limit(20):
                with warnings.catch_warnings():
                    warnings.simplefilter("ignore")
                    if op in ("add", "radd"):
                        operand = _obj(st["operand"])
                        if isinstance(operand, binary_sequence):
                            rec["operand_dtype"] = str(operand.data.dtype)
                        osnap = (operand.data.tobytes() if isinstance(operand, binary_sequence) else
                                 operand.tobytes() if isinstance(operand, np.ndarray) else repr(operand))
                        r = (cur + operand) if op == "add" else (operand + cur)
                    elif op == "inv":
                        r = ~cur
                    else:
                        r = cur[_index_obj(st["index"])]
                    rec.update(_seq_out(r))
                    rec["is_new"] = r is not cur and not np.shares_memory(r.data, cur.data)
                    if operand is not None and isinstance(operand, (np.ndarray, binary_sequence)):
                        od = operand.data if isinstance(operand, binary_sequence) else operand
                        rec["is_new"] = rec["is_new"] and r is not operand and not np.shares_memory(r.data, od)
                    # the laws, evaluated with the class's own operators
                    if isinstance(r, binary_sequence):
                        if op == "add":
                            rec["law_prefix"] = bool(r[:len(cur)] == cur)
                        if op == "radd":
                            rec["law_suffix"] = bool(r[len(r) - len(cur):] == cur) if len(cur) else True
                        if op == "inv":
                            rr = ~r
                            rec["law_invinv"] = bool(rr == cur) and "".join(str(int(x)) for x in rr.data) == prev
                            rec["law_ones_inv"] = float(r.ones()) == float(cur.zeros())
                        rec["law_count"] = float(r.ones()) + float(r.zeros()) == len(r)
        except Timeout:
            raise
        except Exception as e:  # noqa
            rec.update(_err(e))
            r = None
        if op == "add":
            # the augmented form: `c = a; c += b` must behave as `c = a + b` (a new object; `a` as it was)
            try:
                with time_limit(20):
                    with warnings.catch_warnings():
                        warnings.simplefilter("ignore")
                        c = cur
                        c += _obj(st["operand"])
                rec["iadd"] = {"status": "ok", "same_object": c is cur,
                               "shares": bool(isinstance(c, binary_sequence) and np.shares_memory(c.data, cur.data)),
                               "bits": "".join(str(int(x)) for x in np.asarray(c.data).ravel()) if isinstance(c, binary_sequence) else repr(c)[:60],
                               "dtype": str(c.data.dtype) if isinstance(c, binary_sequence) else type(c).__name__}
            except Timeout:
                raise
            except Exception as e:  # noqa
                rec["iadd"] = _err(e)
            rec["iadd"]["a_after"] = "".join(str(int(x)) for x in cur.data)
        rec["self_unchanged"] = cur.data.tobytes() == snap
        if osnap is not None:
            now = (operand.data.tobytes() if isinstance(operand, binary_sequence) else
                   operand.tobytes() if isinstance(operand, np.ndarray) else repr(operand))
            rec["operand_unchanged"] = now == osnap
        out.append(rec)
        if r is not None and st.get("keep") and isinstance(r, binary_sequence) and rec["ndim"] == 1:
            cur = r
    return {"status": "ok", "steps": out}


def _f(z, scale, force_c=False):
    re, im = z
    if scale == 1:
        return complex(re, im) if (im or force_c) else int(re)
    return complex(re / scale, im / scale) if (im or force_c) else re / scale


def _vals(zs, scale):
    c = any(z[1] for z in zs)
    return [_f(z, scale, c) for z in zs]


def _thr_obj(thr, scale):
    import numpy as np
    from opticomlib.typing import electrical_signal
    form = thr["form"]
    if form == "none":
        return None
    if form == "dict":
        return {"a": 1}
    if form == "text":
        return thr["text"]
    if thr.get("dtype"):
        # integer-typed threshold: numpy scalar, 0-d array, 1-element array, full array, electrical_signal of that dtype
        dt = getattr(np, thr["dtype"])
        iv = [int(z[0]) for z in thr["vals"]]
        if form == "npscalar":
            return dt(iv[0])
        if form == "zerod":
            return np.array(iv[0], dtype=dt)
        if form in ("list1", "ndarray", "wrong_len"):
            return np.array(iv, dtype=dt)
        if form == "esig":
            return electrical_signal(np.array(iv, dtype=dt))
        if form == "esig_noise":
            return electrical_signal(np.array(iv, dtype=dt), np.array([int(z[0]) for z in thr["noise"]], dtype=dt))
        raise ValueError(form)
    v = _vals(thr["vals"], scale)
    if form == "scalar":
        return v[0]
    if form == "npscalar":
        return np.float64(v[0]) if scale != 1 else np.int64(v[0])
    if form == "npscalar32":
        return np.float32(v[0])
    if form in ("list", "list1", "wrong_len", "empty"):
        return list(v)
    if form == "tuple":
        return tuple(v)
    if form == "ndarray":
        return np.array(v)
    if form == "nd2":
        return np.array([v])
    if form == "esig":
        return electrical_signal(v)
    if form == "esig_noise":
        return electrical_signal(v, _vals(thr["noise"], scale))
    if form == "str":
        def one(x):
            if isinstance(x, complex):
                return str(x).strip("()")
            return repr(float(x)) if scale != 1 else str(x)
        return " ".join(one(x) for x in v)
    raise ValueError(form)


def _run_cmp(case):
    import numpy as np
    from opticomlib.typing import electrical_signal
    scale = case["scale"]
    sscale = case.get("sscale", scale)
    dt = case.get("sig_dtype")
    if dt is None:
        sig = _vals(case["sig"], sscale)
        noi = None if case["noise"] is None else _vals(case["noise"], sscale)
    else:
        # integer-typed signal (and noise): numpy integer / bool arrays, or plain Python int lists
        mk = (lambda zs: [int(z[0]) for z in zs]) if dt == "pylist" else \
             (lambda zs: np.arange(len(zs))) if dt == "arange" else \
             (lambda zs: np.array([z[0] for z in zs], dtype=getattr(np, dt)))
        sig = mk(case["sig"])
        noi = None if case["noise"] is None else (
            [int(z[0]) for z in case["noise"]] if dt == "pylist" else
            np.array([z[0] for z in case["noise"]], dtype=np.int64 if dt == "arange" else getattr(np, dt)))
    x = electrical_signal(sig) if noi is None else electrical_signal(sig, noi)
    t = _thr_obj(case["thr"], scale)
    s0 = x.signal.tobytes()
    n0 = None if x.noise is None else x.noise.tobytes()
    try:
        with time_limit(20):
            with warnings.catch_warnings():
                warnings.simplefilter("ignore")
                r = (x > t) if case["op"] == "gt" else (x < t)
        res = _seq_out(r)
    except Timeout:
        raise
    except Exception as e:  # noqa
        res = _err(e)
    res["self_unchanged"] = x.signal.tobytes() == s0 and (n0 is None or x.noise.tobytes() == n0)
    res["dtype_sig"] = str(x.signal.dtype)
    return res


def _run_cmpf(case):
    """threshold comparison on raw float (or int64) values; also the keyword twin of electrical_signal(signal, noise)"""
    import numpy as np
    from opticomlib.typing import electrical_signal
    i64 = case.get("int64", False)
    mk = (lambda v: np.array(v, dtype=np.int64)) if i64 else (lambda v: np.array(v, dtype=float))
    if case.get("fdtype"):
        mks = lambda v: np.array(v, dtype=getattr(np, case["fdtype"]))      # noqa: E731  (values are representable: no rounding)
        assert [float(x) for x in mks(case["sig"])] == [float(x) for x in case["sig"]], "generator: sample not representable"
    else:
        mks = mk
    sig = mks(case["sig"])
    noi = None if case["noise"] is None else mks(case["noise"])
    x = electrical_signal(sig) if noi is None else electrical_signal(sig, noi)
    names = SIGNATURES["electrical_signal"]
    xk = electrical_signal(**({names[0]: sig} if noi is None else {names[0]: sig, names[1]: noi}))
    same = x.signal.tobytes() == xk.signal.tobytes() and str(x.signal.dtype) == str(xk.signal.dtype) and \
        ((x.noise is None) == (xk.noise is None)) and (x.noise is None or x.noise.tobytes() == xk.noise.tobytes())
    tv, form = case["thr"]["vals"], case["thr"]["form"]
    t = {"scalar": lambda: tv[0], "npscalar": lambda: (np.int64 if i64 else np.float64)(tv[0]), "list1": lambda: [tv[0]],
         "list": lambda: list(tv), "tuple": lambda: tuple(tv), "ndarray": lambda: mk(tv), "esig": lambda: electrical_signal(mk(tv)),
         "ndarray1": lambda: mk([tv[0]]), "esig1": lambda: electrical_signal(mk([tv[0]]))}[form]()
    s0 = x.signal.tobytes()
    try:
        with time_limit(20):
            with warnings.catch_warnings():
                warnings.simplefilter("ignore")
                r = (x > t) if case["op"] == "gt" else (x < t)
        res = _seq_out(r)
    except Timeout:
        raise
    except Exception as e:  # noqa
        res = _err(e)
    res["self_unchanged"] = x.signal.tobytes() == s0
    res["dtype_sig"] = str(x.signal.dtype)
    res["kw_same"] = bool(same)
    return res


def _exact(case):
    """exact values of a cmpf case: Fractions of signal+noise and of the (broadcast) threshold, and the common denominator"""
    sig = [Fraction(v) for v in case["sig"]]
    noi = [Fraction(v) for v in case["noise"]] if case["noise"] is not None else None
    thr = [Fraction(v) for v in case["thr"]["vals"]]
    den = 1
    for q in sig + (noi or []) + thr:
        den = max(den, q.denominator)          # all denominators are powers of two
    return sig, noi, thr, den


def run_impl(case):
    try:
        if case["kind"] == "cmpf":
            return _run_cmpf(case)
        if case["kind"] == "mk":
            return _run_mk(case)
        if case["kind"] == "prog":
            return _run_prog(case)
        if case["kind"] == "cmp":
            return _run_cmp(case)
        return {"status": "err", "err": "Other", "detail": "unknown kind"}
    except Timeout as e:
        return {"status": "timeout", "detail": str(e)}
    except Exception as e:  # noqa   (failure while building the inputs: harness problem, not a finding)
        return {"status": "err", "err": exc_enum(e), "detail": "setup: " + repr(e)[:200], "setup": True}


# ------------------------------------------------------------------------------------------------ model

def _modelled_index(ix):
    return ix["t"] in ("int", "npint", "slice", "newaxis", "ellipsis")


def _wire_samples(zs, mul=1):
    return " ".join([str(len(zs))] + [f"{z[0] * mul} {z[1] * mul}" for z in zs])


def _muls(case):
    """multipliers bringing signal-side and threshold-side integers to one common unit (the model is exact)"""
    scale = case["scale"]
    sscale = case.get("sscale", scale)
    top = max(scale, sscale)
    return top // sscale, top // scale


def model_requests(case, res):
    if res.get("setup") or res["status"] == "timeout":
        return []
    kind = case["kind"]
    if kind == "mk":
        return ["binseq.mk " + _wire_data(case["data"])]
    if kind == "prog":
        reqs = []
        for st, rec in zip(case["steps"], res["steps"]):
            a = _wire_bits(rec["prev"])
            if st["op"] in ("add", "radd"):
                reqs.append(f"binseq.{st['op']} {a} {_wire_operand(st['operand'])}")
            elif st["op"] == "inv":
                reqs.append(f"binseq.inv {a}")
            elif _modelled_index(st["index"]):
                ix = dict(st["index"], t="int") if st["index"]["t"] == "npint" else st["index"]
                reqs.append(f"binseq.get {a} {_wire_index(ix)}")
        return reqs
    if kind == "cmpf":
        sig, noi, thr, den = _exact(case)
        w = lambda qs: " ".join([str(len(qs))] + [f"{int(q * den)} 0" for q in qs])     # noqa: E731
        n = "none" if noi is None else "some " + w(noi)
        return [f"binseq.cmp {case['op']} {w(sig)} {n} thr {w(thr)} none"]
    if kind == "cmp":
        thr = case["thr"]
        if thr["form"] in ("none", "dict", "text"):
            return []
        ms, mt = _muls(case)
        n = "none" if case["noise"] is None else "some " + _wire_samples(case["noise"], ms)
        if thr["form"] == "nd2":
            t = "bad"
        else:
            tn = "none" if thr.get("noise") is None else "some " + _wire_samples(thr["noise"], mt)
            t = f"thr {_wire_samples(thr['vals'], mt)} {tn}"
        return [f"binseq.cmp {case['op']} {_wire_samples(case['sig'], ms)} {n} {t}"]
    return []


def _cnt(x):
    """a counter as the model prints it; NaN / inf / fractional values can never equal the model's integer"""
    return str(int(x)) if x == x and abs(x) != float("inf") and x == int(x) else repr(x)


def _want(r):
    if r["status"] == "ok":
        if r["ndim"] != 1:
            return f"ok-but-ndim-{r['ndim']}"
        return f"ok {r['len']} {_cnt(r['ones'])} {_cnt(r['zeros'])} {r['bits']}".rstrip()
    if r["status"] == "err":
        return "err " + r["err"]
    return r["status"]


def _complex_class_text(t):
    return t is not None and any(ch in t for ch in "ji")


def compare(case, res, reqs, replies):
    if not reqs:
        return []
    kind = case["kind"]
    out = []
    if kind == "prog":
        recs = [rec for st, rec in zip(case["steps"], res["steps"])
                if st["op"] != "get" or _modelled_index(st["index"])]
        texts = [st.get("operand", {}).get("text") for st in case["steps"] if st["op"] != "get" or _modelled_index(st["index"])]
    else:
        recs = [res]
        texts = [case.get("data", {}).get("text")]
    for req, rep, rec, text in zip(reqs, replies, recs, texts):
        rep = rep.strip()
        if rep == "unmodelled":
            if not _complex_class_text(text):
                out.append(f"model declines {req[:80]!r}")
            continue
        want = _want(rec)
        if rep != want:
            out.append(f"{req[:70]}…: model {rep[:100]!r}, implementation {want[:100]!r}")
    return out


# ------------------------------------------------------------------------------------------------ oracle

def _closure(r, where, v):
    """an accepted result is a valid sequence: class, 1-D uint8, elements in {0,1}, counters consistent"""
    if r["cls"] != "binary_sequence" or r["dtype"] != "uint8" or r["ndim"] != 1:
        v.append((f"C15:closure:{where}", f"{where}: result is {r['cls']} with data {r['dtype']} ndim {r['ndim']}"))
        return False
    if set(r["bits"]) - {"0", "1"}:
        v.append((f"C15:closure:{where}", f"{where}: data contains values outside {{0,1}}: {r['bits'][:40]}"))
        return False
    if r["len"] != len(r["bits"]) or r["len2"] != r["len"]:
        v.append((f"C15:len:{where}", f"{where}: len() = {r['len']}/{r['len2']} for {len(r['bits'])} elements"))
    if not (r["ones"] == r["bits"].count("1") and r["ones"] + r["zeros"] == r["len"]):      # `not (==)`: NaN counters fail
        v.append((f"C15:count:{where}", f"{where}: ones()={r['ones']} zeros()={r['zeros']} len()={r['len']} for data {r['bits'][:40]}"))
    return True


def _err_kind_ok(r):
    return r["status"] == "err" and r["err"] in ("ValueError", "TypeError")


def oracle(case, res):
    v = []
    kind = case["kind"]
    if res.get("setup"):
        return v
    if res["status"] == "timeout":
        return [("C15:timeout:" + kind, f"{kind} did not return within the time limit: {str(case)[:200]}")]
    if kind == "cmpf":
        sig, noi, thr, _den = _exact(case)
        n = len(sig)
        what = f"electrical_signal({case['sig'][:6]}{'' if noi is None else ', noise=' + str(case['noise'][:6])}" \
               f"{' int64' if case.get('int64') else ''}{' ' + case['fdtype'] if case.get('fdtype') else ''}) {'>' if case['op'] == 'gt' else '<'} {case['thr']['form']} {case['thr']['vals'][:6]}"
        if not res.get("self_unchanged", True):
            v.append(("C15:cmp-mutates", f"{what}: the signal object changed"))
        if res.get("kw_same") is False:
            v.append(("C15:positional:electrical_signal", f"{what}: electrical_signal(signal, noise) and electrical_signal(signal=, noise=) differ"))
        if res["status"] != "ok":
            return v + [("C15:cmp-fails", f"{what}: {res.get('exc')}: {res.get('detail')}")]
        if _closure(res, "cmp", v) and res["len"] != n:
            v.append(("C15:cmp-length", f"{what}: result has {res['len']} elements, the signal {n}"))
        tot = [a + (noi[i] if noi else 0) for i, a in enumerate(sig)]
        tv = thr * n if len(thr) == 1 else thr
        if all(q >= 0 for q in sig + (noi or []) + tot + tv):
            want = "".join("1" if ((a > b) if case["op"] == "gt" else (a < b)) else "0" for a, b in zip(tot, tv))
            if res["bits"] != want:
                v.append(("C15:cmp-value", f"{what}: result {res['bits']!r}, element-wise comparison of signal+noise with the threshold gives {want!r}"))
        return v
    if kind == "mk":
        d = case["data"]
        what = f"binary_sequence({d.get('form')} {str(d.get('text', d.get('vals')))[:60]!r})"
        if res["status"] == "ok":
            _closure(res, "constructor", v)
            if case["expect"] == "err":
                v.append(("C15:mk-accepts-invalid", f"{what} was accepted (data {res['bits'][:40]!r}); only 1-D data of 0/1 may be"))
            if case["expect"] == "ok" and res["bits"] != d["bits"]:
                v.append(("C15:mk-bits", f"{what} stored {res['bits'][:60]!r}, required {d['bits'][:60]!r}"))
            dg = _bool_class_digits(d.get("text")) if "text" in d else None
            if dg is not None and res["bits"] != dg:
                v.append(("C15:mk-bits:whitespace", f"{what} stored {res['bits'][:60]!r}: the only 0/1 elements of that string are {dg[:60]!r} "
                                                    f"(white space is not a bit)"))
            if res.get("shares"):
                v.append(("C15:mk-aliases-input", f"{what}: .data shares memory with the input array"))
        else:
            if not _err_kind_ok(res):
                v.append(("C15:mk-error-kind:" + str(res.get("exc")), f"{what} raised {res.get('exc')}; ValueError/TypeError required"))
            if case["expect"] == "ok":
                v.append(("C15:mk-rejects-valid", f"{what} was refused: {res.get('detail')}"))
        if not res.get("input_unchanged", True):
            v.append(("C15:mk-mutates-input", f"{what} changed its argument"))
        kw = res.get("kw")
        if kw is not None and any(kw.get(k) != res.get(k) for k in ("status", "bits", "err", "dtype", "ndim")):
            v.append(("C15:positional:binary_sequence", f"{what}: positional call gave {res.get('bits', res.get('exc'))!r}, "
                                                        f"binary_sequence(data=...) gave {kw.get('bits', kw.get('exc'))!r}"))
        for pos, key in res.get("s2a", []):
            if pos != key:
                v.append(("C15:positional:str2array", f"str2array({d.get('text')!r}, dtype): positional {pos} but by keyword (string=, dtype=) {key}"))
                break
        return v
    if kind == "prog":
        for k, (st, rec) in enumerate(zip(case["steps"], res["steps"])):
            op, prev = st["op"], rec["prev"]
            where = {"add": "a+b", "radd": "b+a", "inv": "~a", "get": "a[i]"}[op]
            tag = f"step {k} {where} on a={prev[:40]!r}"
            if rec.get("prev_dtype", "uint8") != "uint8":
                v.append(("C15:closure:stored-dtype", f"{tag}: the sequence operated on stores its data as {rec['prev_dtype']}, uint8 required "
                                                      f"(built from {case.get('init_dtype', 'a list')} data)"))
            if rec.get("operand_dtype", "uint8") != "uint8":
                v.append(("C15:closure:stored-dtype", f"{tag}: the binary_sequence operand stores its data as {rec['operand_dtype']}, uint8 required"))
            if not rec.get("self_unchanged", True):
                v.append((f"C15:mutates-self:{op}", f"{tag}: the left operand's data changed"))
            if rec.get("operand_unchanged") is False:
                v.append((f"C15:mutates-operand:{op}", f"{tag}: the other operand changed"))
            if rec["status"] == "ok":
                if not _closure(rec, where, v):
                    continue
                if rec.get("is_new") is False:
                    v.append((f"C15:not-new:{op}", f"{tag}: the result is not a new object / shares memory with an operand"))
                if rec.get("law_count") is False:
                    v.append(("C15:law-count", f"{tag}: ones()+zeros() != len()"))
            ia = rec.get("iadd")
            if ia is not None:
                if ia["a_after"] != prev:
                    v.append(("C15:iadd-mutates", f"{tag}: after `c = a; c += b` the sequence a holds {ia['a_after'][:60]!r}: "
                                                  f"concatenation must leave its operands unchanged (len {len(prev)} -> {len(ia['a_after'])})"))
                if ia["status"] == "ok" and (ia.get("same_object") or ia.get("shares")):
                    v.append(("C15:iadd-not-new", f"{tag}: after `c = a; c += b`, c is a / shares its data: concatenation must return a new sequence"))
                if ia["status"] != rec["status"] or (ia["status"] == "ok" and (ia["bits"] != rec["bits"] or ia["dtype"] != "uint8")):
                    v.append(("C15:iadd-value", f"{tag}: `c = a; c += b` gave {ia.get('bits', ia.get('exc'))!r:.60} ({ia.get('dtype')}) but a + b "
                                                f"{rec.get('bits', rec.get('exc'))!r:.60}"))
            if op in ("add", "radd"):
                exp, b = st["expect"], st.get("obits")
                desc = f"{tag}, b={st['operand'].get('form')} {str(st['operand'].get('text', st['operand'].get('vals')))[:40]!r}"
                if exp == "ok":
                    want = prev + b if op == "add" else b + prev
                    if rec["status"] != "ok":
                        v.append((f"C15:{op}-rejects-valid", f"{desc}: refused with {rec.get('exc')}: {rec.get('detail')}"))
                    else:
                        if rec["len"] != len(prev) + len(b):
                            v.append(("C15:law-len-add", f"{desc}: len(result)={rec['len']} != {len(prev)}+{len(b)}"))
                        if rec["bits"] != want:
                            v.append((f"C15:{op}-value", f"{desc}: result {rec['bits'][:60]!r}, required {want[:60]!r}"))
                        if rec.get("law_prefix") is False or (op == "add" and rec["bits"][:len(prev)] != prev):
                            v.append(("C15:law-prefix", f"{desc}: (a+b)[:len(a)] != a"))
                        if rec.get("law_suffix") is False:
                            v.append(("C15:law-suffix", f"{desc}: (b+a)[len(b):] != a"))
                elif exp == "err":
                    if rec["status"] == "ok":
                        v.append((f"C15:{op}-accepts-invalid", f"{desc}: accepted, result {rec['bits'][:40]!r}"))
                    elif not _err_kind_ok(rec):
                        v.append((f"C15:{op}-error-kind:{rec.get('exc')}", f"{desc}: raised {rec.get('exc')}; ValueError/TypeError required"))
                else:
                    dg = _bool_class_digits(st["operand"].get("text")) if "text" in st["operand"] else None
                    if dg is not None and rec["status"] == "ok" and rec["bits"] != (prev + dg if op == "add" else dg + prev):
                        v.append((f"C15:{op}-value:whitespace", f"{desc}: result {rec['bits'][:60]!r}; the only 0/1 elements of the operand are "
                                                                f"{dg[:40]!r} (white space is not a bit)"))
                    if rec["status"] == "err" and not _err_kind_ok(rec):
                        v.append((f"C15:{op}-error-kind:{rec.get('exc')}", f"{desc}: raised {rec.get('exc')}; ValueError/TypeError required"))
            elif op == "inv":
                want = "".join("1" if c == "0" else "0" for c in prev)
                if rec["status"] != "ok":
                    v.append(("C15:inv-fails", f"{tag}: {rec.get('exc')}: {rec.get('detail')}"))
                else:
                    if rec["bits"] != want:
                        v.append(("C15:inv-value", f"{tag}: result {rec['bits'][:60]!r}, required {want[:60]!r}"))
                    if rec.get("law_invinv") is False:
                        v.append(("C15:law-invinv", f"{tag}: ~~a != a"))
                    if rec.get("law_ones_inv") is False:
                        v.append(("C15:law-ones-inv", f"{tag}: ones(~a) != zeros(a)"))
            else:
                ix = st["index"]
                if ix["t"] in ("int", "npint", "slice"):
                    lst = list(prev)
                    try:
                        w = lst[ix["i"]] if ix["t"] != "slice" else "".join(lst[slice(ix["a"], ix["b"], ix["c"])])
                    except (IndexError, ValueError):
                        w = None
                    if w is None:
                        if rec["status"] == "ok":
                            v.append(("C15:get-accepts-invalid", f"{tag}, index {ix}: accepted, result {rec['bits'][:40]!r}"))
                    elif rec["status"] != "ok":
                        v.append(("C15:get-fails", f"{tag}, index {ix}: {rec.get('exc')}: {rec.get('detail')}"))
                    elif rec["bits"] != w:
                        v.append(("C15:get-value", f"{tag}, index {ix}: result {rec['bits'][:60]!r}, Python indexing gives {w[:60]!r}"))
            if len(v) > 4:
                break
        return v
    if kind == "cmp":
        thr = case["thr"]
        n = len(case["sig"])
        what = f"electrical_signal({[z[0] if not z[1] else z for z in case['sig'][:8]]}" \
               f"{'' if case['noise'] is None else ', noise=' + str([z[0] for z in case['noise'][:8]])})/{case.get('sscale', case['scale'])}" \
               f"{' dtype ' + case['sig_dtype'] if case.get('sig_dtype') else ''} " \
               f"{'>' if case['op'] == 'gt' else '<'} {thr['form']} {str([z[0] if not z[1] else z for z in thr['vals'][:8]] if 'vals' in thr else thr.get('text'))[:60]}/{case['scale']}"
        if not res.get("self_unchanged", True):
            v.append(("C15:cmp-mutates", f"{what}: the signal object changed"))
        if res["status"] == "ok":
            if _closure(res, "cmp", v) and res["len"] != n:
                v.append(("C15:cmp-length", f"{what}: result has {res['len']} elements, the signal {n}"))
        if thr["form"] in ("none", "dict", "text", "nd2", "empty", "wrong_len"):
            return v     # not a scalar / matching array threshold: nothing demanded beyond closure
        m = len(thr["vals"])
        if m not in (1, n):
            return v
        if res["status"] != "ok":
            v.append(("C15:cmp-fails", f"{what}: {res.get('exc')}: {res.get('detail')}"))
            return v
        # exact values (Fractions): signal side in units of 1/sscale, threshold side in units of 1/scale
        ss, ts = Fraction(1, case.get("sscale", case["scale"])), Fraction(1, case["scale"])
        tot = [[(s[0] + (case["noise"][i][0] if case["noise"] else 0)) * ss, (s[1] + (case["noise"][i][1] if case["noise"] else 0)) * ss]
               for i, s in enumerate(case["sig"])]
        tv = [[(t[0] + (thr["noise"][i][0] if thr.get("noise") else 0)) * ts, t[1] * ts] for i, t in enumerate(thr["vals"])]
        tv = tv * n if m == 1 else tv
        if case.get("sig_dtype") == "bool_" and case["noise"]:
            return v     # bool + bool is a logical OR in numpy, not a sum: outside the statement's arithmetic reading
        real = all(z[1] == 0 for z in tot + tv + case["sig"])
        nonneg = real and all(z[0] >= 0 for z in tot + tv + case["sig"]) and (not case["noise"] or all(z[0] >= 0 for z in case["noise"]))
        if nonneg:
            want = "".join("1" if ((a[0] > b[0]) if case["op"] == "gt" else (a[0] < b[0])) else "0" for a, b in zip(tot, tv))
            if res["bits"] != want:
                v.append(("C15:cmp-value", f"{what}: result {res['bits']!r}, element-wise comparison of signal+noise with the threshold gives {want!r}"))
        return v
    return v


# ------------------------------------------------------------------------------------------------ statistics

def features(case, res):
    kind = case["kind"]
    f = ["kind=" + kind, "status=" + res["status"]]
    if res.get("setup"):
        return f + ["setup-failed"]
    if kind == "mk":
        f.append("mk:form=" + case["data"]["form"])
        f.append("mk:expect=" + case["expect"])
        if res["status"] == "err":
            f.append("mk:err=" + res["err"])
        n = len(case["data"].get("bits") or case["data"].get("text") or "")
        f.append("mk:len=" + ("0" if n == 0 else "1-8" if n <= 8 else "9-12" if n <= 12 else ">12"))
    elif kind == "prog" and res["status"] == "ok":
        f.append("prog:steps=" + str(len(case["steps"])))
        for st, rec in zip(case["steps"], res["steps"]):
            key = "op=" + st["op"]
            if st["op"] in ("add", "radd"):
                key += ":" + st["operand"]["form"]
            elif st["op"] == "get":
                key += ":" + st["index"]["t"]
                if st["index"]["t"] == "slice":
                    c = st["index"]["c"]
                    f.append("slice-step=" + ("none" if c is None else "0" if c == 0 else "+" if c > 0 else "-"))
            f.append(key)
            f.append("step-status=" + rec["status"] + (":" + rec["err"] if rec["status"] == "err" else ""))
    elif kind == "cmpf":
        import math
        f.append("cmpf:thr=" + case["thr"]["form"])
        mags = [abs(v) for v in case["sig"] if v]
        if case.get("fdtype"):
            f.append("cmpf:signal-dtype=" + case["fdtype"])
        if case.get("int64"):
            f.append("cmpf:int64>=2^53")
        elif mags:
            e = math.log10(max(mags))
            f.append("cmpf:decade=" + ("<-154" if e < -154 else "-154..-30" if e < -30 else "-30..30" if e <= 30 else "30..154" if e <= 154 else ">154"))
    elif kind == "cmp":
        f.append("cmp:thr=" + case["thr"]["form"])
        f.append("cmp:op=" + case["op"])
        f.append("cmp:noise=" + ("yes" if case["noise"] else "no"))
        f.append("cmp:dtype=" + str(res.get("dtype_sig")))
        if case.get("sig_dtype") and case["thr"].get("dtype"):
            f.append(f"cmp:int-signal-vs-int-thr:{case['sig_dtype']}/{case['thr']['dtype']}")
        elif case.get("sig_dtype"):
            f.append("cmp:int-signal-vs-" + ("fractional" if case["scale"] != 1 else "python-int") + "-thr:" + case["sig_dtype"])
        if res["status"] == "err":
            f.append("cmp:err=" + res["err"])
    return f


def nontrivial_key(case, res):
    if res["status"] != "ok" or res.get("setup"):
        return None
    kind = case["kind"]
    if kind == "mk":
        return ("mk", case["data"]["form"], str(case["data"].get("text", case["data"].get("vals"))))
    if kind == "prog":
        if not any(rec["status"] == "ok" for rec in res["steps"]):
            return None
        return ("prog", case["init"], str(case["steps"]))
    if kind == "cmpf":
        return ("cmpf", case["op"], str(case["sig"]), str(case["noise"]), str(case["thr"]))
    if kind == "cmp":
        return ("cmp", case["op"], str(case["sig"]), str(case["noise"]), str(case["thr"]))
    return None
