"""C16 — FBG is a passive reflector matching coupled-mode closed forms."""
import math
import warnings

import numpy as np

from harness.common.wire import enc_clist, enc_f, enc_flist, Toks, exc_enum
from harness.common.watchdog import time_limit, Timeout

ID = "C16"
MANIFEST = {
    "text": "Lean 4 theorems (Props/C16.lean): for EVERY differentiable solution of the coupled-mode system R'=j(sigma R+kappa S), "
            "S'=-j(sigma S+kappa R) with real sigma(z), kappa(z) — in particular for the right-hand side the model of FBG computes, "
            "any apodisation profile, any chirp — |R|^2-|S|^2 is constant, so with R(1/2)=1, S(1/2)=0 the reflection rho=S/R "
            "satisfies |rho|<1 (passivity of every exact solution); at the Bragg frequency (sigma=0) R=cosh u, S=j sinh u, "
            "u=kappa0*int_z^{1/2} p solves the system and, by ODE uniqueness (Gronwall, proved), every solution has "
            "|rho(-1/2)|^2 = tanh^2(kappa0*int p), with the integrals of the uniform/parabolic/rcos profiles evaluated (1, 2/3, 1/2); "
            "for the uniform profile without chirp the model's sigma(z), kappa(z) are the constants d=delta+s and k, the closed forms "
            "R=cosh(g(b-z))-j(d/g)sinh(g(b-z)), S=j(k/g)sinh(g(b-z)) (and their cos/sin and band-edge counterparts) solve the system, "
            "so EVERY exact solution has |rho|^2 = sinh^2 g/(cosh^2 g - d^2/k^2), g=sqrt(k^2-d^2), inside the stop band, "
            "sin^2 q/(d^2/k^2 - cos^2 q) = k^2 sin^2 q/(q^2+k^2 sin^2 q), q=sqrt(d^2-k^2), outside it, k^2/(1+k^2) at the band edge, "
            "reducing to tanh^2 k at d=0; "
            "the six (fc|landa_D) x (kL|L|N) routes for a given vdneff resolve to the same design, the dneff routes likewise, "
            "resolved kL and centre frequency equal the requested ones; resolve raises ValueError exactly on the incomplete "
            "specifications; the output spectrum is the input spectrum times ifftshift(H) bin by bin and, if |H_k|<=1, the output "
            "energy of every polarisation is <= the input energy (Parseval, proved); the group-delay correction is unimodular.  "
            "Tie: scipy.integrate.solve_ivp is spied as seen from opticomlib.devices — the captured right-hand-side callable is "
            "evaluated at random (z, y) and compared with the model's RHS (which derives delta, s, k from the resolved design), the "
            "args/t_span/y0 are compared, the apodisation profiles are sampled, and the final field is recomputed by the model from "
            "the solver's final state (rho=S/R, centre index, group-delay factor, DFT filter) and compared with FBG's output and retH.",
    "note": "RK45's accuracy is not a theorem: |H|<=1+5e-3, Bragg reflectivity = tanh^2(kL*int p) and the uniform spectrum "
            "sinh^2 g/(cosh^2 g - d^2/k^2) (within 1e-2), route equivalence of the computed H and ValueError on incomplete specs are "
            "checked by the oracle on the real code. numpy FFT trusted to be the DFT; proofs over R/C. "
            "Axioms: propext, Classical.choice, Quot.sound.",
    "technique": "Lean 4 proof over R/C (HasDerivAt algebra + constancy on an interval, Gronwall uniqueness, Parseval) of a generic "
                 "model executed at Float in a differential run against FBG() with solve_ivp spied from outside",
    "design": "§5 C16",
}
GEN = ["Fbg"]
MODELS = ["OptiVerif.Model.Fbg", "OptiVerif.Model.NumList", "OptiVerif.Model.FiberNL", "OptiVerif.Model.Fiber", "OptiVerif.Model.Fourier",
          "OptiVerif.Gen.Fbg"]
RULE = ("cases = designs (14 resolution branches: fc|landa_D x dneff|vdneff|kL-only x kL|L|N; kL in [0.1,8], vdneff in [1e-5,1e-3], "
        "F in [-20,20] or 0, 4 built-in profiles + 3 families of positive smooth callables, 1/2 polarisations, fs in 20..400 GS/s, "
        "centre on/off the frequency grid, filtfilt on/off, field dtype complex128 / float64 / int64 / bool, the grid configured through gv(sps,R) / gv(sps,fs) / gv(R,fs) with non-integer fs/R / gv(fs) / gv(R,fs,N) with N*sps != input length, n=2^8 (quick) .. 2^12), each with 4 probes of the captured RHS at "
        "random (z,y) incl. z=+-1/2 and 0; route sextuples (same grating through the six routes); incomplete/ill-typed "
        "specifications; out-of-band centre; short gratings (kL 0.1-0.3 at vdneff 1e-3: 90-280 periods) through the kL/L/N routes; a positional twin (all "
        "arguments passed positionally in the documented order) for a third of the small designs; histories: the same grating and input length under 3-4 sampling rates in sequence "
        "inside one process (and two gratings recurring across cases at different rates), each step checked against the uniform "
        "closed form for the rate in force. non-trivial = a design that ran; distinct by all parameters")
PARTIAL = ["accuracy of RK45 (solve_ivp, rtol=1e-3) ONLY: that the numbers FBG returns are within the solver's accuracy of the exact "
           "solution, for which passivity, the tanh^2 Bragg value and the whole uniform spectrum (stop band, pass band, band edge) "
           "ARE theorems; checked by the oracle on the real code: |H|<=1+5e-3 at every bin; Bragg reflectivity and uniform spectrum "
           "within 1e-2 absolute for reflectivities >= 0.5 and RELATIVE to the value for weak gratings (Bragg: 1e-3 of the value for "
           "the uniform profile, 1e-2 for apodised/callable profiles; spectrum: 1e-3 of the peak at every bin) — the unchanged tree "
           "meets 2.4e-4 (uniform, Bragg and spectrum/peak) and 2.6e-3 (apodised Bragg) below 0.5, and 3.3e-3 absolute above",
           "the integral of the gaussian profile has no elementary closed form: the tanh^2 theorem is stated with an antiderivative; "
           "the oracle integrates numerically",
           "tau_g (np.unwrap/np.angle/np.diff) and dispersion are parameters: the returned tau array is spied and fed to the model",
           "numpy FFT = DFT is trusted; rounding is not covered by the theorems"]
ASSUMPTIONS = ["numpy.fft = DFT", "scipy.integrate.solve_ivp integrates the callable it is given (its result is a model input)",
               "Python-falsy arguments (None or 0) are 'absent'", "IEEE doubles on both sides (tolerance 1e-9*scale)"]
BUDGET = {"quick": 120, "thorough": 900}

C0 = 299792458.0
NEFF = 1.45
GVS = [(2, 10e9), (4, 25e9), (16, 10e9), (8, 50e9), (16, 25e9)]
APOS = ["uniform", "rcos", "gaussian", "parabolic"]


# ------------------------------------------------------------------------------------------------ custom profiles
def make_callable(spec):
    k = spec["fam"]
    a, b = spec["a"], spec["b"]
    if k == "cos":      # a + b*cos(2*pi*m*z), a > |b|
        m = spec["m"]
        return lambda z: a + b * np.cos(2 * np.pi * m * z)
    if k == "bump":     # exp(-a z^2) + b
        return lambda z: np.exp(-a * z * z) + b
    if k == "tilt":     # a + b*z, a > |b|/2
        return lambda z: a + b * z
    raise ValueError(k)


def integral_of(apo):
    from scipy.integrate import quad
    if isinstance(apo, dict):
        f = make_callable(apo)
    else:
        f = {"uniform": lambda z: 1.0, "rcos": lambda z: 0.5 * (1 + np.cos(2 * np.pi * z)),
             "gaussian": lambda z: np.exp(-4 * np.log(2) * (3 * z) ** 2), "parabolic": lambda z: 1 - (2 * z) ** 2}[apo]
    return quad(f, -0.5, 0.5, epsabs=1e-12, epsrel=1e-12)[0]


def gen_callable(rng):
    fam = rng.choice(["cos", "bump", "tilt"])
    if fam == "cos":
        a = rng.uniform(0.6, 1.2)
        return {"fam": fam, "a": a, "b": rng.uniform(-0.9, 0.9) * a, "m": rng.choice([1, 2, 3])}
    if fam == "bump":
        return {"fam": fam, "a": rng.uniform(0.5, 20.0), "b": rng.uniform(0.0, 0.5)}
    a = rng.uniform(0.5, 1.5)
    return {"fam": fam, "a": a, "b": rng.uniform(-1.8, 1.8) * a}


# ------------------------------------------------------------------------------------------------ generation
def _f0():
    return C0 / 1550e-9


def _design(rng, tier, route=None, length=None):
    sps, R = rng.choice(GVS)
    fs = sps * R
    if tier == "quick":
        n = rng.choice([256, 256, 256, 512])
    else:
        n = rng.choice([256, 512, 1024, 2048, 4096])
    route = route or rng.choice(["fc-dneff", "fc-vdneff", "ld-dneff", "ld-vdneff", "ld-kL"])
    length = length or rng.choice(["kL", "L", "N"])
    if route == "ld-kL" and length == "kL":
        length = rng.choice(["L", "N"])
    kL = rng.uniform(0.1, 8.0)
    vd = 10 ** rng.uniform(-5, -3)
    v = rng.choice([1.0, 1.0, 0.5, 0.8])
    ongrid = rng.random() < 0.6
    m = rng.randint(-n // 4, n // 4)
    fc = _f0() + (m * fs / n if ongrid else rng.uniform(-0.3, 0.3) * fs)
    F = rng.choice([0.0, 0.0, rng.uniform(-20, 20)])
    apo = rng.choice(APOS + [gen_callable(rng)])
    case = {"kind": "design", "n": n, "npol": rng.choice([1, 2]), "sps": sps, "R": R, "route": route, "length": length,
            "v": v, "F": F, "apo": apo, "filtfilt": rng.random() < 0.5, "ongrid": ongrid, "m": m if ongrid else None,
            "seed": rng.getrandbits(32), "zs": [0.5, -0.5, 0.0, rng.uniform(-0.5, 0.5), rng.uniform(-0.5, 0.5)][rng.randint(0, 1):][:4]}
    case["kw"] = _kwargs(route, length, fc, kL, vd, v)
    return case


def _kwargs(route, length, fc, kL, vd, v, neff=NEFF):
    """the keyword arguments that describe the grating (centre fc, strength kL, index modulation vd) through one route"""
    kw = {}
    dn = vd / v
    if route in ("fc-dneff", "ld-dneff"):
        lam_d = 1 / (1 + dn / neff) * C0 / fc
    else:
        lam_d = C0 / fc
    L = kL * lam_d / (math.pi * vd)
    if length == "N":
        N = max(1, int(round(L / (lam_d / (2 * neff)))))
        L = N * lam_d / (2 * neff)
        kL = math.pi * vd * L / lam_d
    if route.startswith("fc"):
        kw["fc"] = fc
    else:
        kw["landa_D"] = lam_d
    if route.endswith("-dneff"):
        kw["dneff"] = dn
    elif route.endswith("-vdneff"):
        kw["vdneff"] = vd
    if route == "ld-kL":
        kw["kL"] = kL
        if length == "N":
            kw["N"] = N
        else:
            kw["L"] = L
    else:
        if length == "kL":
            kw["kL"] = kL
        elif length == "L":
            kw["L"] = L
        else:
            kw["N"] = N
    if v != 1.0 or route.endswith("dneff") or route == "ld-kL":
        kw["v"] = v
    return kw


def gen_cases(rng, tier):
    cases = []
    # every resolution branch at least once (or more), then random designs
    branches = [(r, l) for r in ["fc-dneff", "fc-vdneff", "ld-dneff", "ld-vdneff"] for l in ["kL", "L", "N"]] + [("ld-kL", "L"), ("ld-kL", "N")]
    for r, l in branches:
        cases.append(_design(rng, tier, r, l))
    for _ in range(30 if tier == "quick" else 300):
        cases.append(_design(rng, tier))
    # clean designs for the closed-form clauses: vdneff route, unchirped, centre on the grid
    for _ in range(20 if tier == "quick" else 150):
        c = _design(rng, tier, rng.choice(["fc-vdneff", "ld-vdneff"]))
        sps, R = c["sps"], c["R"]
        fs = sps * R
        kL = rng.uniform(0.1, 8.0)
        vd = 10 ** rng.uniform(-5, -3)
        c["m"] = rng.randint(-c["n"] // 4, c["n"] // 4)
        c["ongrid"] = True
        c["F"] = 0.0
        c["v"] = 1.0
        if rng.random() < 0.4:
            c["apo"] = "uniform"
        c["kw"] = _kwargs(c["route"], c["length"], _f0() + c["m"] * fs / c["n"], kL, vd, 1.0)
        cases.append(c)
    # the same grating through the six vdneff routes (and the dneff / kL-only routes: same design, same response)
    for _ in range(16 if tier == "quick" else 100):
        sps, R = rng.choice(GVS)
        fs = sps * R
        n = rng.choice([256, 512] if tier == "quick" else [256, 512, 1024, 2048, 4096])
        vd = 10 ** rng.uniform(-5, -3)
        fc = _f0() + rng.uniform(-0.3, 0.3) * fs
        lam_d = C0 / fc
        kL0 = rng.uniform(0.1, 8.0)
        N = max(1, int(round(kL0 * lam_d / (math.pi * vd) / (lam_d / (2 * NEFF)))))
        L = N * lam_d / (2 * NEFF)
        kL = math.pi * vd * L / lam_d
        cases.append({"kind": "routes", "n": n, "npol": 1, "sps": sps, "R": R, "F": rng.choice([0.0, rng.uniform(-20, 20)]),
                      "apo": rng.choice(APOS + [gen_callable(rng)]), "seed": rng.getrandbits(32),
                      "kws": [{"fc": fc, "vdneff": vd, "kL": kL}, {"fc": fc, "vdneff": vd, "L": L}, {"fc": fc, "vdneff": vd, "N": N},
                              {"landa_D": lam_d, "vdneff": vd, "kL": kL}, {"landa_D": lam_d, "vdneff": vd, "L": L},
                              {"landa_D": lam_d, "vdneff": vd, "N": N}]})
    # the longest inputs of the statement (2^12 samples) with LONG gratings (fine spectral fringes: every bin matters),
    # uniform and unchirped so that ALL bins are judged by the closed form
    longs = [(8, 25e9, 1e-5, 8.0), (8, 25e9, 3e-5, 2.5), (16, 10e9, 1e-4, 8.0)]
    if tier != "quick":
        longs += [(rng.choice([(8, 25e9), (16, 10e9), (8, 50e9)])) + (10 ** rng.uniform(-5, -4.5), rng.uniform(2.0, 8.0)) for _ in range(12)]
    for sps, R, vd, kL in longs:
        c = _design(rng, tier, rng.choice(["ld-vdneff", "fc-vdneff"]), "kL")
        fs = sps * R
        mm = rng.choice([0, 0, rng.randint(-200, 200)])
        c.update(n=4096, sps=sps, R=R, ongrid=True, m=mm, F=0.0, v=1.0, apo="uniform", filtfilt=False, npol=1,
                 kw=_kwargs(c["route"], "kL", _f0() + mm * fs / 4096, kL, vd, 1.0))
        cases.append(c)
    # SHORT gratings (a few hundred periods and fewer: kL 0.1..0.3 at vdneff = 1e-3), through the kL=, L= and N= routes, uniform and
    # apodised, unchirped and centred on the grid: weak reflectivity (|H|^2 ~ kL^2), judged relative to the value
    for j in range(6 if tier == "quick" else 36):
        c = _design(rng, tier, rng.choice(["fc-vdneff", "ld-vdneff"]), ["kL", "L", "N"][j % 3])
        fs = c["sps"] * c["R"]
        c["m"] = rng.randint(-c["n"] // 8, c["n"] // 8)
        c.update(ongrid=True, F=0.0, v=1.0, apo="uniform" if j < 4 or rng.random() < 0.6 else rng.choice(APOS), filtfilt=False)
        c["kw"] = _kwargs(c["route"], c["length"], _f0() + c["m"] * fs / c["n"], rng.uniform(0.1, 0.3), rng.choice([1e-3, 1e-3, 7e-4]), 1.0)
        cases.append(c)
    # the same grating and input length under a sequence of sampling rates inside ONE process (the response is a function
    # of the grating and of the frequency grid in force, not of what was computed before); uniform profile, unchirped,
    # vdneff route, so every step is checked against the closed form for the rate in force
    for _ in range(6 if tier == "quick" else 40):
        seq = rng.choice([[(4, 25e9), (4, 10e9), (8, 25e9), (4, 25e9)], [(16, 25e9), (2, 10e9), (16, 10e9)],
                          [(2, 10e9), (8, 50e9), (4, 25e9), (2, 10e9)], [(8, 25e9), (4, 25e9), (16, 25e9)]])
        vd = 10 ** rng.uniform(-4.6, -3.3)
        kL = rng.uniform(0.5, 6.0)
        lam_d = 1550e-9
        L = kL * lam_d / (math.pi * vd)
        route = rng.choice(["L", "kL", "fcL"])
        kw = ({"landa_D": lam_d, "vdneff": vd, "L": L} if route == "L" else {"landa_D": lam_d, "vdneff": vd, "kL": kL}
              if route == "kL" else {"fc": C0 / lam_d, "vdneff": vd, "L": L})
        cases.append({"kind": "history", "n": rng.choice([256, 512] if tier == "quick" else [256, 512, 1024]), "npol": 1, "seq": seq,
                      "kw": kw, "apo": "uniform", "F": 0.0, "filtfilt": rng.random() < 0.5, "seed": rng.getrandbits(32),
                      "sps": seq[0][0], "R": seq[0][1]})
    # two gratings that recur across separate cases at different sampling rates (same input length)
    for g in range(2):
        vd = 10 ** rng.uniform(-4.3, -3.5)
        kL = rng.uniform(1.0, 5.0)
        for sps, R in rng.sample(GVS, 3):
            c = _design(rng, tier, "ld-vdneff", "L")
            c.update(n=256, sps=sps, R=R, ongrid=True, m=0, F=0.0, v=1.0, apo="uniform",
                     kw={"landa_D": 1550e-9, "vdneff": vd, "L": kL * 1550e-9 / (math.pi * vd)})
            cases.append(c)
    # incomplete / ill-typed specifications
    full = {"fc": _f0(), "landa_D": 1550e-9, "kL": 2.0, "L": 5e-3, "N": 9000, "dneff": 1e-4, "vdneff": 1e-4}
    names = sorted(full)
    for _ in range(60 if tier == "quick" else 400):
        present = [k for k in names if rng.random() < 0.45]
        kw = {k: full[k] for k in present}
        for k in list(kw):
            if rng.random() < 0.1:
                kw[k] = rng.choice([None, 0])      # an explicitly falsy argument counts as absent
        cases.append({"kind": "spec", "n": 256, "npol": 1, "sps": 16, "R": 10e9, "kw": kw, "seed": 1})
    for kw in [{}, {"fc": full["fc"]}, {"landa_D": 1550e-9}, {"fc": full["fc"], "dneff": 1e-4}, {"fc": full["fc"], "vdneff": 1e-4},
               {"landa_D": 1550e-9, "dneff": 1e-4}, {"landa_D": 1550e-9, "vdneff": 1e-4}, {"landa_D": 1550e-9, "kL": 2.0},
               {"kL": 2.0, "L": 5e-3, "vdneff": 1e-4}, {"fc": full["fc"], "kL": 2.0, "L": 5e-3},
               {"fc": full["fc"], "landa_D": 1550e-9, "kL": 2.0, "L": 5e-3}]:
        cases.append({"kind": "spec", "n": 256, "npol": 1, "sps": 16, "R": 10e9, "kw": kw, "seed": 1})
    cases.append({"kind": "badtype", "n": 256, "npol": 1, "sps": 16, "R": 10e9, "seed": 1})
    # centre outside the simulated band: IndexError in the code, err Other in the model (outside the statement's quantifier)
    c = _design(rng, tier, "fc-vdneff", "kL")
    c["kw"] = {"fc": _f0() + 0.75 * c["sps"] * c["R"], "vdneff": 1e-4, "kL": 2.0}
    c.update(kind="design", ongrid=False, m=None, outofband=True, F=0.0, apo="uniform")
    cases.append(c)
    rng.shuffle(cases)
    return cases


# ------------------------------------------------------------------------------------------------ how the grid is configured
GVKINDS = ["sps,R", "sps,R", "sps,fs", "R,fs", "fs", "R,fs,N"]


def _gv_kind(case, step=None):
    """which arguments of gv(...) set the sampling rate: (sps,R), (sps,fs), (R,fs) with a NON-integer fs/R, fs alone, or (R,fs)
    with a slot count N in force whose N*sps differs from the input length — from the case's own seed (recorded with the case)"""
    if case.get("gvkind"):
        return case["gvkind"]
    if case["kind"] == "design":
        return GVKINDS[(case["seed"] // 7) % 6]
    if case["kind"] == "history":
        return GVKINDS[(case["seed"] // 7 + 2 * (step or 0) + 1) % 6]
    return "sps,R"


def _gv_config(sps, R, kind, seed):
    """(keyword arguments for gv, the sampling rate they ask for)"""
    fs = sps * R
    frac = [0.3, -0.2, 0.4][seed % 3]
    if kind == "sps,fs":
        return {"sps": sps, "fs": fs}, fs
    if kind == "R,fs":
        return {"R": fs / (sps + frac), "fs": fs}, fs
    if kind == "fs":
        return {"fs": fs}, fs
    if kind == "R,fs,N":
        return {"R": fs / (sps + frac), "fs": fs, "N": 96}, fs
    return {"sps": sps, "R": R}, fs


def _fs_of(case):
    return case["sps"] * case["R"]


# ------------------------------------------------------------------------------------------------ running the real code
def _dtype_of(case):
    """sample dtype of the input field: complex fields mostly, but also REAL-dtype fields (float64 / int64 / bool: a real pulse, a
    0/1 pattern, np.ones(n)) — chosen from the case's own seed so that it is part of the recorded case"""
    if case.get("dtype"):
        return case["dtype"]
    return {0: "float64", 1: "int64", 2: "bool"}.get(case["seed"] % 6, "complex128")


def _field(case):
    r = np.random.default_rng(case["seed"])
    shape = (case["n"],) if case["npol"] == 1 else (2, case["n"])
    dt = _dtype_of(case)
    if dt == "float64":
        return r.normal(size=shape)
    if dt == "int64":
        return r.integers(-5, 6, size=shape).astype(np.int64)
    if dt == "bool":
        return r.integers(0, 2, size=shape).astype(bool)
    return r.normal(size=shape) + 1j * r.normal(size=shape)


def _rows(a):
    a = np.asarray(a)
    a = a[None, :] if a.ndim == 1 else a
    return [[[float(z.real), float(z.imag)] for z in row] for row in a]


def _cl(a):
    return [[float(z.real), float(z.imag)] for z in np.asarray(a).ravel()]


def _apo_arg(apo):
    return make_callable(apo) if isinstance(apo, dict) else apo


class _Spy:
    def __init__(self, dev):
        self.dev = dev
        self.calls = []
        self.tau = []
        self.orig_ivp = dev.solve_ivp
        self.orig_tau = dev.tau_g

    def __enter__(self):
        spy = self

        def solve_ivp(fun, *a, **k):
            sol = spy.orig_ivp(fun, *a, **k)
            spy.calls.append({"fun": fun, "a": a, "k": k, "y_end": np.array(sol.y[:, -1]), "nfev": int(sol.nfev), "ok": bool(sol.success)})
            return sol

        def tau_g(H, fs):
            out = spy.orig_tau(H, fs)
            spy.tau.append(np.array(out))
            return out
        self.dev.solve_ivp = solve_ivp
        self.dev.tau_g = tau_g
        return self

    def __exit__(self, *exc):
        self.dev.solve_ivp = self.orig_ivp
        self.dev.tau_g = self.orig_tau
        return False


def _call_fbg(dev, x, kw, apo, F, filtfilt):
    try:
        from threadpoolctl import threadpool_limits
    except Exception:  # noqa
        from contextlib import nullcontext as threadpool_limits
    # single-threaded BLAS/OpenMP: same numbers, no oversubscription when several checks run side by side
    with threadpool_limits(limits=1), time_limit(60):
        return dev.FBG(x, apodization=_apo_arg(apo), F=F, filtfilt=filtfilt, retH=True, print_params=False, **kw)


# documented positional order of FBG (signature at /repo HEAD 8caea4c), recorded here — NOT read from the code under test
FBG_ORDER = ["input", "neff", "v", "landa_D", "fc", "kL", "L", "N", "dneff", "vdneff", "apodization", "F", "print_params", "filtfilt", "retH"]
FBG_DEFAULTS = {"neff": 1.45, "v": 1.0, "landa_D": None, "fc": None, "kL": None, "L": None, "N": None, "dneff": None, "vdneff": None}


def _call_fbg_positional(dev, x, kw, apo, F, filtfilt):
    try:
        from threadpoolctl import threadpool_limits
    except Exception:  # noqa
        from contextlib import nullcontext as threadpool_limits
    full = dict(FBG_DEFAULTS)
    full.update(kw)
    full.update(input=x, apodization=_apo_arg(apo), F=F, print_params=False, filtfilt=filtfilt, retH=True)
    with threadpool_limits(limits=1), time_limit(60):
        return dev.FBG(*[full[k] for k in FBG_ORDER])


def _has_twin(case):
    return case["kind"] == "design" and case["n"] <= 512 and case["seed"] % 3 == 0 and not case.get("outofband")


def run_impl(case):
    from opticomlib.typing import gv, optical_signal, electrical_signal
    import opticomlib.devices as dev
    res = {}
    try:
        with warnings.catch_warnings():
            warnings.simplefilter("ignore")
            gv.clean()
            gkw, _ = _gv_config(case["sps"], case["R"], _gv_kind(case), case["seed"])
            gv(**gkw)
            res.update(fs=float(gv.fs), f0=float(gv.f0), c0=float(dev.c), gv_sps=int(gv.sps), gv_R=float(gv.R))
            a = _field(case)
            kind = case["kind"]
            if kind == "badtype":
                out = {}
                for name, obj in (("ndarray", a), ("electrical", electrical_signal(a.real))):
                    try:
                        with time_limit(60):
                            dev.FBG(obj, fc=gv.f0, vdneff=1e-4, kL=1.0, print_params=False)
                        out[name] = "ok"
                    except Timeout:
                        raise
                    except Exception as e:  # noqa
                        out[name] = exc_enum(e)
                res.update(status="ok", types=out)
                return res
            x = optical_signal(a, n_pol=case["npol"])
            if kind == "spec":
                try:
                    _call_fbg(dev, x, case["kw"], "uniform", 0.0, False)
                    res.update(status="ok", spec="ok")
                except Timeout:
                    raise
                except Exception as e:  # noqa
                    res.update(status="ok", spec=exc_enum(e), detail=repr(e)[:160])
                return res
            if kind == "history":
                steps = []
                for j, (sps, R) in enumerate(case["seq"]):
                    gv.clean()
                    gkw, want_fs = _gv_config(sps, R, _gv_kind(case, j), case["seed"])
                    gv(**gkw)
                    xi = optical_signal(a, n_pol=case["npol"])
                    yi, H = _call_fbg(dev, xi, case["kw"], case["apo"], case["F"], case["filtfilt"])
                    steps.append({"fs": float(gv.fs), "want_fs": float(want_fs), "gv": _gv_kind(case, j), "f0": float(gv.f0), "H": _cl(H),
                                  "finite": bool(np.all(np.isfinite(H)) and np.all(np.isfinite(yi.signal)))})
                res.update(status="ok", steps=steps)
                return res
            if kind == "routes":
                Hs = []
                for kw in case["kws"]:
                    _, H = _call_fbg(dev, x, kw, case["apo"], case["F"], False)
                    Hs.append(np.asarray(H))
                res.update(status="ok", finite=bool(all(np.all(np.isfinite(H)) for H in Hs)),
                           maxdiff=[float(np.max(np.abs(H - Hs[0]))) for H in Hs], maxabs=float(max(np.max(np.abs(H)) for H in Hs)))
                return res
            # kind == design
            with _Spy(dev) as spy:
                y, H = _call_fbg(dev, x, case["kw"], case["apo"], case["F"], case["filtfilt"])
            res["ncalls"] = len(spy.calls)
            if _has_twin(case):
                # positional twin: the same call with every argument passed positionally in the documented order
                try:
                    yp, Hp = _call_fbg_positional(dev, optical_signal(a, n_pol=case["npol"]), case["kw"], case["apo"], case["F"], case["filtfilt"])
                    res["positional"] = {"status": "ok", "same": bool(np.array_equal(np.asarray(Hp), np.asarray(H)) and
                                                                       np.array_equal(np.asarray(yp.signal), np.asarray(y.signal)))}
                except Timeout:
                    res["positional"] = {"status": "timeout"}
                except Exception as e:  # noqa
                    res["positional"] = {"status": "err", "err": exc_enum(e), "detail": repr(e)[:160]}
            if len(spy.calls) != 1:
                # the solver was not (or not only once) reached through opticomlib.devices.solve_ivp: nothing to tie the model to,
                # but the returned response and field are still judged by the oracle
                res.update(status="ok", cls=type(y).__name__, npol=int(y.n_pol), shape=list(y.signal.shape),
                           inp=_rows(x.signal), out=_rows(y.signal), H=_cl(H), in_unchanged=bool(np.array_equal(x.signal, a)),
                           finite=bool(np.all(np.isfinite(H)) and np.all(np.isfinite(y.signal))), nfev=0)
                return res
            call = spy.calls[0]
            k = call["k"]
            args = k.get("args")
            n = case["n"]
            res.update(status="ok", cls=type(y).__name__, npol=int(y.n_pol), shape=list(y.signal.shape),
                       inp=_rows(x.signal), out=_rows(y.signal), H=_cl(H), in_unchanged=bool(np.array_equal(x.signal, a)),
                       finite=bool(np.all(np.isfinite(H)) and np.all(np.isfinite(y.signal))),
                       t_span=[float(v) for v in k.get("t_span", call["a"][0] if call["a"] else [])],
                       y0_ok=bool(np.asarray(k.get("y0")).shape == (2 * n,) and
                                  np.array_equal(np.asarray(k.get("y0")), np.concatenate([np.ones(n), np.zeros(n)]).astype(complex))),
                       method=str(k.get("method")), vectorized=bool(k.get("vectorized")), nfev=call["nfev"], solver_ok=call["ok"],
                       delta=[float(v) for v in np.asarray(args[0]).ravel()], s=[float(v) for v in np.asarray(args[1]).ravel()],
                       k=[float(v) for v in np.asarray(args[2]).ravel()], F_arg=float(args[3]), apo_none=args[4] is None,
                       R_end=_cl(call["y_end"][:len(call["y_end"]) // 2]), S_end=_cl(call["y_end"][len(call["y_end"]) // 2:]),
                       tau=[float(v) for v in spy.tau[-1]] if spy.tau else None, tau_calls=len(spy.tau))
            # the captured right-hand side, evaluated from outside at random points
            r = np.random.default_rng(case["seed"] ^ 0x5A5A)
            probes = []
            nn = int(np.asarray(args[0]).size)      # number of frequencies the solver integrates (the model says: n)
            res["n_solver"] = nn
            for z in case["zs"]:
                yv = (r.normal(size=(2 * nn, 1)) + 1j * r.normal(size=(2 * nn, 1))) * 10 ** r.uniform(-1, 1)
                with time_limit(20):
                    d = call["fun"](float(z), yv, *args)
                dR, dS = np.asarray(d[0]).ravel(), np.asarray(d[1]).ravel()
                p = None
                if args[4] is not None:
                    p = float(args[4](float(z)))
                probes.append({"z": float(z), "R": _cl(yv[:nn]), "S": _cl(yv[nn:]), "dR": _cl(dR), "dS": _cl(dS), "p": p})
            res["probes"] = probes
    except Timeout as e:
        res.update(status="timeout", detail=str(e))
    except Exception as e:  # noqa
        res.update(status="err", err=exc_enum(e), detail=repr(e)[:200])
    finally:
        try:
            gv.clean()
        except Exception:
            pass
    return res


# ------------------------------------------------------------------------------------------------ model side
def _opt(x):
    return "none" if (x is None or x == 0) else enc_f(float(x))


def _spec(kw):
    return " ".join([enc_f(kw.get("neff", NEFF)), enc_f(kw.get("v", 1.0))] +
                    [_opt(kw.get(k)) for k in ("landa_D", "fc", "kL", "L", "N", "dneff", "vdneff")])


def _apo_name(apo):
    return "custom" if isinstance(apo, dict) else apo


def _cx(lst):
    return enc_clist([complex(a, b) for a, b in lst])


def _enc_rows(rows):
    return " ".join([str(len(rows))] + [_cx(row) for row in rows])


MODEL_MAX_N = 1024      # the Lean DFT is O(n^2): larger designs are tied through the RHS / coefficients only


def model_requests(case, res):
    kind = case["kind"]
    if kind == "spec" and res.get("status") == "ok":
        return [f"fbg.resolve {enc_f(res['c0'])} {_spec(case['kw'])}"]
    if kind != "design" or res.get("status") not in ("ok", "err"):
        return []
    c0, f0 = (enc_f(res[k]) for k in ("c0", "f0"))
    fs = enc_f(_fs_of(case))          # the rate that was asked for, not what the library says it is
    spec = _spec(case["kw"])
    if res["status"] == "err":
        if not case.get("outofband"):
            return []
        # the run failed before anything could be spied: re-create the solver's final state from outside is impossible;
        # ask the model only where the centre falls
        n = case["n"]
        dummy = enc_clist([1.0] * n)
        return [f"fbg.finish {c0} {f0} {fs} {spec} 0 {dummy} {dummy} {enc_flist([0.0] * (n - 1))} 0"]
    n = case["n"]
    if res.get("ncalls") != 1:
        return [f"fbg.resolve {c0} {spec}"]
    reqs = [f"fbg.resolve {c0} {spec}", f"fbg.coef {c0} {f0} {fs} {n} {spec}"]
    apo = _apo_name(case["apo"])
    for pr in res["probes"]:
        reqs.append(f"fbg.rhs {c0} {f0} {fs} {spec} {apo} {enc_f(pr['p'] if pr['p'] is not None else 0.0)} {enc_f(case['F'])} "
                    f"{enc_f(pr['z'])} {_cx(pr['R'])} {_cx(pr['S'])}")
        if apo not in ("custom",):
            reqs.append(f"fbg.profile {apo} {enc_f(pr['z'])}")
    if n <= MODEL_MAX_N:
        tau = res["tau"] if res["tau"] is not None else [0.0] * (n - 1)
        reqs.append(f"fbg.finish {c0} {f0} {fs} {spec} {1 if case['filtfilt'] else 0} {_cx(res['R_end'])} {_cx(res['S_end'])} "
                    f"{enc_flist(tau)} {_enc_rows(res['inp'])}")
    return reqs


def _close_list(name, m, iv, tol):
    if len(m) != len(iv):
        return f"{name}: length {len(m)} vs {len(iv)}"
    for i, (a, b) in enumerate(zip(m, iv)):
        if not abs(a - b) <= tol:
            return f"{name}[{i}]: model {a!r} impl {b!r} (tol {tol:.2e})"
    return None


def compare(case, res, reqs, replies):
    if not reqs:
        return []
    kind = case["kind"]
    if kind == "spec":
        want = "ok" if res["spec"] == "ok" else "err " + res["spec"]
        got = replies[0].split()[0] if replies[0].startswith("ok") else replies[0]
        return [] if got == want else [f"specification {case['kw']}: model {replies[0][:40]!r}, implementation {res['spec']}"]
    if res["status"] == "err":
        want = "err " + res["err"]
        return [] if replies[0] == want else [f"out-of-band centre: model {replies[0][:40]!r}, implementation {res['err']} ({res.get('detail')})"]
    out = []
    n = case["n"]
    if res.get("ncalls") != 1:
        return [f"scipy.integrate.solve_ivp was called {res.get('ncalls')} times through opticomlib.devices (model: exactly once per FBG call)"]
    if res.get("n_solver") != n:
        out.append(f"the solver integrates {res.get('n_solver')} frequencies, the model one per sample ({n})")
    it = iter(replies)
    rep = next(it)
    if not rep.startswith("ok "):
        return [f"fbg.resolve: {rep[:60]}"]
    lam_d, L, vd, dn, period, fc_out, kL_out = _floats(rep, 7)
    # the solver's arguments
    rep = next(it)
    if not rep.startswith("ok "):
        return [f"fbg.coef: {rep[:60]}"]
    t = Toks(rep[3:])
    md, ms, mk = t.flist(), t.flist(), t.flist()
    big = 2 * math.pi * NEFF * abs(L) / abs(lam_d)
    for name, m, iv, tol in (("delta", md, res["delta"], 1e-9 * big), ("s", ms, res["s"], 1e-9 * max(1e-300, max(map(abs, res["s"])))),
                             ("k", mk, res["k"], 1e-9 * max(1e-300, max(map(abs, res["k"]))))):
        why = _close_list("solve_ivp args " + name, m, iv, tol)
        if why:
            out.append(why)
    if res["F_arg"] != case["F"]:
        out.append(f"chirp handed to the solver {res['F_arg']!r} != F {case['F']!r}")
    if res["apo_none"] != (_apo_name(case["apo"]) == "uniform"):
        out.append("apo_func is None iff uniform: violated")
    if res["t_span"] != [0.5, -0.5] or not res["y0_ok"] or res["method"] != "RK45" or not res["vectorized"]:
        out.append(f"solver set-up differs from the model's (t_span {res['t_span']}, y0_ok {res['y0_ok']}, {res['method']}, vectorized {res['vectorized']})")
    # right-hand side probes
    apo = _apo_name(case["apo"])
    cmax = max(max(map(abs, res["delta"])), max(map(abs, res["s"])), max(map(abs, res["k"])), abs(case["F"]), 1.0)
    for pr in res["probes"]:
        rep = next(it)
        if not rep.startswith("ok "):
            out.append(f"fbg.rhs: {rep[:60]}")
        else:
            t = Toks(rep[3:])
            mdR, mdS = t.clist(), t.clist()
            ymax = max(abs(complex(a, b)) for a, b in pr["R"] + pr["S"])
            tol = 1e-9 * cmax * max(1.0, abs(pr["p"] or 1.0)) * ymax
            for name, m, iv in (("dR", mdR, pr["dR"]), ("dS", mdS, pr["dS"])):
                why = _close_list(f"RHS {name} at z={pr['z']}", m, [complex(a, b) for a, b in iv], tol)
                if why:
                    out.append(why)
        if apo != "custom":
            rep = next(it)
            if apo == "uniform":
                if rep != "ok none":
                    out.append(f"uniform profile: model {rep[:40]}")
            elif not rep.startswith("ok ") or not (abs(Toks(rep[3:]).f() - pr["p"]) <= 1e-12):
                out.append(f"profile {apo} at z={pr['z']}: model {rep[:60]} impl {pr['p']!r}")
    # from the solver's final state to the field
    if n <= MODEL_MAX_N:
        rep = next(it)
        if not rep.startswith("ok "):
            out.append(f"fbg.finish: {rep[:60]}")
        else:
            t = Toks(rep[3:])
            t.nat()
            mH = t.clist()
            hscale = max(1.0, max(abs(complex(a, b)) for a, b in res["H"]))
            why = _close_list("retH", mH, [complex(a, b) for a, b in res["H"]], 1e-9 * hscale)
            if why:
                out.append(why)
            rows = [t.clist() for _ in range(t.nat())]
            if len(rows) != len(res["out"]):
                out.append(f"rows {len(rows)} vs {len(res['out'])}")
            for r, (mr, ir) in enumerate(zip(rows, res["out"])):
                iv = [complex(a, b) for a, b in ir]
                scale = max(1.0, max(abs(z) for z in iv), max(abs(complex(a, b)) for a, b in res["inp"][r]))
                why = _close_list(f"output row {r}", mr, iv, 1e-9 * scale * n)
                if why:
                    out.append(why)
    return out


def _floats(rep, k):
    t = Toks(rep[3:])
    return [t.f() for _ in range(k)]


# ------------------------------------------------------------------------------------------------ the property, stated directly
def _expected_spec(kw):
    """the statement's table: fc or landa_D for the centre; dneff/vdneff (or kL with landa_D) ; kL, L or N for the length"""
    g = lambda k: bool(kw.get(k))
    length = g("L") or g("kL") or g("N")
    if g("fc"):
        return (g("dneff") or g("vdneff")) and length
    if g("landa_D"):
        if g("dneff") or g("vdneff"):
            return length
        return g("kL") and (g("L") or g("N"))
    return False


def _bragg_tol(want, uniform):
    """tolerance on |H(f_Bragg)|^2: the statement's 'accuracy of the ODE solver' is RELATIVE to the value for a weak grating
    (|H|^2 ~ kL^2 ~ 1e-2: an absolute 1e-2 would accept anything).  Measured on the unchanged tree over 400 designs: relative error
    <= 2.4e-4 for the uniform profile and <= 2.6e-3 for apodised / callable profiles (RK45, rtol 1e-3, few steps on a weak
    grating); demanded: 1e-3 (uniform) / 1e-2 (apodised) of the value below a reflectivity of 0.5, the absolute 1e-2 above."""
    if want < 0.5:
        return (1e-3 if uniform else 1e-2) * want + 1e-12
    return 1e-2


def _spec_tol(peak):
    """tolerance on the uniform spectrum, every bin: 1e-3 of the peak reflectivity for weak gratings (peak < 0.5; measured on the
    unchanged tree: <= 2.4e-4 of the peak), the absolute 1e-2 for strong ones (measured <= 3.3e-3)"""
    return 1e-3 * peak + 1e-12 if peak < 0.5 else 1e-2


def _uniform_reflectivity(n, fs, f0, lam_d, L, vd):
    f = np.fft.fftshift(np.fft.fftfreq(n)) * fs + f0
    lam = C0 / f
    d = 2 * np.pi * NEFF * (1 / lam - 1 / lam_d) * L
    k = np.pi * vd / lam * L
    g = np.sqrt((k ** 2 - d ** 2).astype(complex))
    return (np.sinh(g) ** 2 / (np.cosh(g) ** 2 - d ** 2 / k ** 2)).real


def _grating_of(kw):
    fc = kw["fc"] if "fc" in kw else C0 / kw["landa_D"]
    lam_d = C0 / fc
    vd = kw["vdneff"]
    L = kw["L"] if "L" in kw else (kw["kL"] * lam_d / (math.pi * vd) if "kL" in kw else kw["N"] * lam_d / (2 * NEFF))
    return lam_d, L, vd


def oracle(case, res):
    v = []
    kind = case["kind"]
    if res.get("status") == "timeout":
        return [("C16:timeout", f"FBG did not return ({kind})")]
    if kind == "badtype":
        if res.get("status") != "ok":
            return [("C16:raises", f"{res}")]
        for name, got in res["types"].items():
            if got != "TypeError":
                v.append(("C16:type", f"FBG({name}) -> {got}, TypeError required"))
        return v
    if kind == "spec":
        if res.get("status") != "ok":
            return [("C16:raises", f"{res}")]
        complete = _expected_spec(case["kw"])
        if complete and res["spec"] != "ok":
            v.append(("C16:complete-spec-rejected", f"complete specification {case['kw']} raised {res['spec']} {res.get('detail')}"))
        if not complete and res["spec"] != "ValueError":
            v.append(("C16:incomplete-spec", f"incomplete specification {case['kw']} gave {res['spec']}, ValueError required"))
        return v
    if case.get("outofband"):
        return []      # outside the statement's quantifier (centre outside the simulated band); only the model tie applies
    tag = f"(n={case['n']}, fs={case['sps'] * case['R']:.3g} via gv({_gv_kind(case)}), apo={case['apo']}, F={case['F']:.3g}, {case.get('kw') or case.get('kws')})"
    if res.get("status") != "ok":
        return [("C16:raises", f"valid design raised {res.get('err')} {res.get('detail')} {tag}")]
    if kind != "history" and not res["finite"]:
        return [("C16:non-finite", f"NaN/inf in H or in the output {tag}")]
    if kind == "history":
        lam_d, L, vd = _grating_of(case["kw"])
        for i, st in enumerate(res["steps"]):
            where = f"step {i} of {[a * b for a, b in case['seq']]} (fs={st['want_fs']:.3g} via gv({st['gv']})) {tag}"
            if not (abs(st["fs"] - st["want_fs"]) <= 1e-9 * st["want_fs"]):
                v.append(("C16:gv-fs", f"gv.fs = {st['fs']!r} but {st['want_fs']!r} was requested at {where}"))
            if not st["finite"]:
                v.append(("C16:non-finite", f"NaN/inf at {where}"))
                continue
            H = np.array([complex(p, q) for p, q in st["H"]])
            if not np.all(np.abs(H) <= 1 + 5e-3):
                v.append(("C16:passivity", f"max|H| = {np.max(np.abs(H)):.6f} > 1 at {where}"))
            refl = _uniform_reflectivity(case["n"], st["want_fs"], st["f0"], lam_d, L, vd)
            err = np.abs(np.abs(H) ** 2 - refl)
            if not np.all(err <= _spec_tol(float(np.max(refl)))):
                kk = int(np.argmax(np.where(np.isnan(err), np.inf, err)))
                v.append(("C16:uniform-spectrum", f"|H[{kk}]|^2 = {abs(H[kk]) ** 2:.8f} vs sinh^2 g/(cosh^2 g - d^2/k^2) = {refl[kk]:.8f} "
                                                  f"for the frequency grid in force at {where}"))
        return v
    if kind == "routes":
        if not (res["maxabs"] <= 1 + 5e-3):
            v.append(("C16:passivity", f"max|H| = {res['maxabs']:.6f} > 1 {tag}"))
        for i, d in enumerate(res["maxdiff"]):
            if not (d <= 2e-3):
                v.append(("C16:routes", f"route {i} ({sorted(case['kws'][i])}) gives a response differing by {d:.3e} from route 0 {tag}"))
        return v
    n = case["n"]
    pt = res.get("positional")
    if pt is not None and not (pt.get("status") == "ok" and pt.get("same")):
        v.append(("C16:positional:FBG", f"FBG called with its arguments passed positionally in the documented order {FBG_ORDER[1:]} "
                                        f"does not return the same H/output as the keyword call: {pt} {tag}"))
    if not (abs(res["fs"] - _fs_of(case)) <= 1e-9 * _fs_of(case)):
        v.append(("C16:gv-fs", f"gv.fs = {res['fs']!r} but {_fs_of(case)!r} was requested {tag}"))
    H = np.array([complex(a, b) for a, b in res["H"]])
    a = np.array([[complex(p, q) for p, q in row] for row in res["inp"]])
    o = np.array([[complex(p, q) for p, q in row] for row in res["out"]])
    if not np.all(np.abs(H) <= 1 + 5e-3):
        k = int(np.argmax(np.where(np.isnan(np.abs(H)), np.inf, np.abs(H))))
        v.append(("C16:passivity", f"|H[{k}]| = {abs(H[k]):.6f} > 1 {tag}"))
    want_shape = [n] if case["npol"] == 1 else [2, n]
    if res["cls"] != "optical_signal" or res["npol"] != case["npol"] or res["shape"] != want_shape:
        v.append(("C16:shape", f"layout not preserved: {res['cls']} n_pol={res['npol']} shape={res['shape']} {tag}"))
    if not res["in_unchanged"]:
        v.append(("C16:input-modified", "the input field was modified"))
    ref = np.fft.ifft(np.fft.fft(a, axis=-1) * np.fft.ifftshift(H), axis=-1)
    scale = max(1.0, float(np.max(np.abs(a))))
    if o.shape != ref.shape or not np.all(np.abs(o - ref) <= 64 * 2.2e-16 * n * scale):
        v.append(("C16:filter", f"output differs from ifft(fft(in)*ifftshift(H)) by {np.max(np.abs(o - ref)):.3e} {tag}"))
    e_in = np.sum(np.abs(a) ** 2, axis=-1)
    e_out = np.sum(np.abs(o) ** 2, axis=-1)
    if not np.all(e_out <= e_in * (1 + 5e-3) ** 2):
        v.append(("C16:energy", f"output energy {e_out} exceeds input energy {e_in} {tag}"))
    kw = case["kw"]
    clean = case["F"] == 0 and "vdneff" in kw and case["ongrid"]
    if clean:
        fs = case["sps"] * case["R"]
        f0 = res["f0"]
        fc = kw["fc"] if "fc" in kw else C0 / kw["landa_D"]
        lam_d = C0 / fc
        vd = kw["vdneff"]
        L = kw["L"] if "L" in kw else (kw["kL"] * lam_d / (math.pi * vd) if "kL" in kw else kw["N"] * lam_d / (2 * NEFF))
        kL = math.pi * vd * L / lam_d
        ib = n // 2 + case["m"]
        want = math.tanh(kL * integral_of(case["apo"])) ** 2
        got = abs(H[ib]) ** 2
        btol = _bragg_tol(want, case["apo"] == "uniform")
        if not (abs(got - want) <= btol):
            v.append(("C16:bragg", f"reflectivity at the Bragg frequency {got:.8f} != tanh^2(kL*int p) = {want:.8f} (kL={kL:.4f}, "
                                   f"relative error {abs(got - want) / want:.2e}, tolerance {btol:.2e}) {tag}"))
        if case["apo"] == "uniform":
            f = np.fft.fftshift(np.fft.fftfreq(n)) * fs + f0
            lam = C0 / f
            d = 2 * np.pi * NEFF * (1 / lam - 1 / lam_d) * L
            k = np.pi * vd / lam * L
            g = np.sqrt((k ** 2 - d ** 2).astype(complex))
            refl = (np.sinh(g) ** 2 / (np.cosh(g) ** 2 - d ** 2 / k ** 2)).real
            err = np.abs(np.abs(H) ** 2 - refl)
            stol = _spec_tol(float(np.max(refl)))
            if not np.all(err <= stol):
                kk = int(np.argmax(np.where(np.isnan(err), np.inf, err)))
                v.append(("C16:uniform-spectrum", f"|H[{kk}]|^2 = {abs(H[kk]) ** 2:.8f} vs sinh^2 g/(cosh^2 g - d^2/k^2) = {refl[kk]:.8f} "
                                                  f"(peak {np.max(refl):.4g}, tolerance {stol:.2e}) {tag}"))
    return v


def features(case, res):
    f = ["kind=" + case["kind"], "status=" + str(res.get("status"))]
    if case["kind"] == "design":
        f += ["dtype=" + _dtype_of(case), f"route={case['route']}/{case['length']}", "apo=" + _apo_name(case["apo"]), f"npol={case['npol']}", f"n={case['n']}",
              "chirp" if case["F"] else "no-chirp", "filtfilt" if case["filtfilt"] else "no-filtfilt",
              "ongrid" if case["ongrid"] else "offgrid", f"fs={case['sps'] * case['R']:.0e}", "gv(" + _gv_kind(case) + ")"]
        if res.get("positional"):
            f.append("positional-twin")
        if res.get("status") == "ok":
            f.append("nfev<100" if res["nfev"] < 100 else "nfev<400" if res["nfev"] < 400 else "nfev>=400")
    if case["kind"] == "spec":
        f.append("spec->" + str(res.get("spec")))
    if case["kind"] == "routes":
        f.append("apo=" + _apo_name(case["apo"]))
    if case["kind"] == "history":
        f.append(f"history-steps={len(case['seq'])}")
    return f


def nontrivial_key(case, res):
    if res.get("status") != "ok" or case["kind"] not in ("design", "routes", "history"):
        return None
    return (case["kind"], case["n"], case["sps"], case["R"], str(case.get("kw") or case.get("kws")), str(case["apo"]), case["F"], case["seed"])
