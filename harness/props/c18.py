"""C18 — ADC is a true n-bit quantiser; shortest_int returns a shortest covering interval."""
import json
import math
import random
import warnings
from fractions import Fraction
from decimal import Decimal

import numpy as np

from harness.common.wire import exc_enum
from harness.common.watchdog import time_limit, Timeout

ID = "C18"
MANIFEST = {
    "text": "Lean 4 theorems (Props/C18.lean) over exact rational models of utils.shortest_int and of the quantiser of devices.ADC "
            "(literals 100, relative tie tolerance 1e-10, //2, 99.99 translated from the source into Gen/Quant.lean): the returned pair are order "
            "statistics sorted[i], sorted[i+lag] with lag = floor(p*n/100), lo <= hi, the closed interval holds >= lag+1 samples, "
            "its width is at most (1+1e-10) times every other lag-pair's width (relative tie tolerance; exactly 0 when some pair has width 0), "
            "success for every 0<=p, lag<n, shortest_int depends on the multiset of samples only (shortest_order_free) and commutes with every change of units a*x+b, a>0 (shortest_unit_free; whole ADC: "
            "adc_unit_free_record); ADC: length preserved, every code in [0,2^n-1], at most 2^n distinct outputs, outputs "
            "within [V_min,V_max], in-range samples move by at most half a step, out-of-range samples saturate at the end codes "
            "(round-half-even, clipping), the code map is monotone (a larger sample never gets a smaller code or level), every level is "
            "a fixed point and every one of the 2^n codes is attained (re-quantising the output changes nothing), codes are invariant and "
            "levels equivariant under a change of units a*x+b (a>0), for every signal with V_min < V_max. Tie: translator + exact differential run of the "
            "compiled model against shortest_int()/ADC() on data shipped as exact rationals, plus a numpy-free oracle of each clause (order preservation and power-of-two rescaling judged exactly).",
    "note": "Trusted: Lean kernel, translator tools/extractors/quant.py, harness; np.sort/np.round(half-even)/np.clip semantics are "
            "modelled; the float evaluation of int(n*p/100) equals the exact floor on the generated (n,p) (generator keeps n*p/100 "
            "away from integers unless p is dyadic or 99.99); V_max = V_min (constant record, 0/0) is an excluded point. "
            "Axioms: propext, Classical.choice, Quot.sound.",
    "technique": "Lean 4 proof over exact Rat models with constants translated from source; differential correspondence run",
    "design": "§5 C18",
}
GEN = ["Quant"]
RULE = ("shortest_int: quantised codes in uint8/uint16/uint32/int8/int16/int32/int64 arrays (unsorted, sorted, descending), Python "
        "lists and tuples, multisets over small alphabets (heavy ties), dyadic grids whose width differences straddle the relative tie tolerance 1e-10*min, Gaussian/uniform "
        "floats, every lag 0..n-1 via p=(k+1/2)*100/n and boundary percents (dyadic p with n*p/100 integral, 99.99); ADC: exact dyadic "
        "records with power-of-two range (codes compared exactly), Gaussian/uniform/sinusoidal/quantised records of length 2..2^17 "
        "(>= 10^4 so that 99.99% excludes outliers), n in 1..12, both otype values, ndarray and electrical_signal input, containers "
        "with a separate noise array (0.3x..3x the signal swing; clauses evaluated on signal+noise), quantised records stored as "
        "int8/int16/int32/uint8/uint16, both within and beyond the span the dtype's own arithmetic can hold (full-range records, "
        "unsigned records with samples below V_min), amplitude regimes 1e-15..1e12 of every record kind (all float tolerances are "
        "relative to the full-scale span). "
        "non-trivial = accepted call; distinct by (kind, data digest, p | n, otype)")
PARTIAL = [
    "the float evaluation of lag = int(len*percent/100) is tied to floor(n*p/100) by the differential run only (p is read as the "
    "decimal value of its repr, as the translator reads 99.99)",
    "float rounding of (s-V_min)/(V_max-V_min)*(2^n-1) and of the 'v' levels: codes are compared exactly on dyadic records and up "
    "to a half-step tie (|frac-1/2| < 1e-9) on general records; 'v' levels at 1e-9*span + 8 ulp of the magnitude (no absolute floor)",
    "fs != None: scipy.signal.resample is a library call (not modelled); the harness resamples the record with the same call and "
    "every ADC clause, and the model, are applied to the resampled record; V_max = V_min (0/0 -> nan) is an excluded point "
    "(feature degenerate-range)",
    "positional twins (ADC(input, fs, n, otype), shortest_int(data, percent)), result-aliasing, call sequences on one edited "
    "object and the argument-object monitor (array contents and attribute set unchanged by a call) are run-time clauses",
]
ASSUMPTIONS = [
    "Python floats are shipped to the model as exact rationals; np.sort is a sort; np.round rounds half to even; np.clip saturates",
    "the driver evaluates the same Lean definitions the theorems are about",
]
BUDGET = {"quick": 120, "thorough": 900}
EXHAUSTIVE = {"quick": False, "thorough": True}
TIE_TOL = Fraction(1, 10 ** 10)          # RELATIVE tie tolerance of shortest_int: widths within TIE_TOL*min of the minimum are tied


def tie_slack(best, mag):
    """how far above the minimal width `best` a returned width may lie: the code's relative tie tolerance plus the rounding of
    the float differences (4 ulp of the data's magnitude); a zero minimal width must be met exactly (x - x = 0 in floats too)"""
    if best == 0:
        return Fraction(0)
    return TIE_TOL * best * (1 + Fraction(1, 10 ** 6)) + Fraction(mag) * Fraction(4, 2 ** 52)


def dec_frac(x):
    if isinstance(x, int):
        return Fraction(x)
    return Fraction(Decimal(repr(float(x))))


def enc_rat(q):
    q = Fraction(q)
    return str(q.numerator) if q.denominator == 1 else f"{q.numerator}/{q.denominator}"


def exact_lag_known(p):
    """percentages for which the unchanged float evaluation int(n*p/100) is provably floor(n*dec(p)/100):
    p exactly representable (integers, dyadic fractions: n*p is exact and /100 is correctly rounded) and the ADC's 99.99"""
    return Fraction(p) == dec_frac(p) or p == 99.99


def lag_candidates(n, p):
    b = Fraction(n) * dec_frac(p) / 100
    if exact_lag_known(p) and n < 10 ** 7:
        return {math.floor(b)} if b >= 0 else set()          # the statement's lag, nothing else
    a = Fraction(n) * Fraction(p) / 100
    c = {math.floor(a), math.floor(b)}
    for q in (a, b):
        r = round(q)
        if abs(q - r) < Fraction(1, 10 ** 9):
            c |= {r, r - 1}
    return {k for k in c if k >= 0}


def safe_p(n, p):
    """the float evaluation of int(n*p/100) provably equals floor(n*dec(p)/100)"""
    q = Fraction(n) * dec_frac(p) / 100
    if Fraction(p) == dec_frac(p):
        m = Fraction(n) * Fraction(p)            # n*p exact in binary64 if it has <= 53 significant bits
        if m.denominator & (m.denominator - 1) == 0 and m.numerator.bit_length() - m.denominator.bit_length() < 50:
            return True
    if p == 99.99 and n < 10 ** 7:
        return True
    return abs(q - round(q)) > Fraction(1, 10 ** 6)


# ---------------------------------------------------------------------------------------------------------------
# materialising records
# ---------------------------------------------------------------------------------------------------------------

def make_record(spec):
    """deterministic record from a JSON spec (so that long records need not be stored in the case)"""
    if "data" in spec:
        return [float(v) * spec.get("scale", 1.0) for v in spec["data"]]
    r = random.Random(spec["seed"])
    N, dist = spec["N"], spec["dist"]
    if dist == "gauss":
        xs = [r.gauss(spec.get("mu", 0.0), spec.get("sigma", 1.0)) for _ in range(N)]
    elif dist == "uniform":
        xs = [r.uniform(spec.get("a", -1.0), spec.get("b", 1.0)) for _ in range(N)]
    elif dist == "sine":
        ph, cyc, amp = r.uniform(0, 6.28), spec.get("cycles", 7.3), spec.get("amp", 1.0)
        xs = [amp * math.sin(ph + 2 * math.pi * cyc * i / N) + spec.get("off", 0.0) for i in range(N)]
    elif dist == "quantised":
        L, step = spec.get("levels", 8), spec.get("step", 0.25)
        xs = [step * r.randrange(L) for _ in range(N)]
    elif dist == "intq":
        lo, hi, g = spec["lo"], spec["hi"], spec.get("grid", 1)
        xs = [lo + g * r.randrange((hi - lo) // g + 1) for _ in range(N)]
        xs[r.randrange(N)] = lo
        xs[r.randrange(N)] = hi
        if lo not in xs:
            xs[0] = lo
        if hi not in xs:
            xs[-1] = hi
    elif dist == "dyadic":
        # exact record: bulk on a 2^-m grid inside [a, a+2^k] with both ends present, plus `out` far outliers on one side
        m, k, a = spec["m"], spec["k"], spec["a"]
        W = 2 ** (k + m)
        xs = [a + r.randrange(W + 1) / 2 ** m for _ in range(N)]
        ends = max(2, spec.get("out", 0) + 1)
        for j in range(ends):
            xs[r.randrange(N)] = float(a)
        for j in range(ends):
            xs[r.randrange(N)] = float(a + 2 ** k)
        if a not in xs:
            xs[0] = float(a)
        if a + 2 ** k not in xs:
            xs[-1] = float(a + 2 ** k)
        idx = [i for i, v in enumerate(xs) if v not in (a, a + 2 ** k)]
        for j in range(min(spec.get("out", 0), len(idx))):
            xs[idx[j]] = a + 2 ** k + 2 ** (k + 2) + j if spec.get("side", "hi") == "hi" else a - 2 ** (k + 2) - j
    else:
        raise ValueError(dist)
    for i, v in spec.get("outliers", []):
        xs[i % N] = v
    k = spec.get("scale", 1.0)          # amplitude regime: the whole record (outliers included) times a factor
    return [float(v) * k for v in xs]


INT_DTYPES = {"int8": (-128, 127), "int16": (-32768, 32767), "int32": (-2 ** 31, 2 ** 31 - 1), "uint8": (0, 255),
              "uint16": (0, 65535)}


def effective_record(case):
    """the samples the ADC has to quantise: the stored signal (in its dtype) plus the container's separate noise"""
    if "_xs" in case:                  # one call of a call sequence: the record as it stood at that call
        return case["_xs"]
    xs = make_record(case["spec"])
    if case.get("noise") is not None:
        ns = make_record(case["noise"])
        xs = [a + b for a, b in zip(xs, ns)]
    if case.get("fs_ratio") is not None:
        # ADC(x, fs=ratio*gv.fs): the record that is quantised is the input resampled to int(len*fs/gv.fs) samples
        # (scipy.signal.resample, exactly as the documented option does); every clause is judged on that record
        import scipy.signal as sg
        key = json.dumps(case, sort_keys=True, default=str)
        if key not in _RESAMPLED:
            if len(_RESAMPLED) > 64:
                _RESAMPLED.clear()
            fs0 = _gv_fs()
            m = int(len(xs) * (case["fs_ratio"] * fs0) / fs0)
            _RESAMPLED[key] = [float(v) for v in sg.resample(np.array(xs, dtype=float), m)]
        xs = _RESAMPLED[key]
    return xs


_RESAMPLED = {}


def _gv_fs():
    from opticomlib import gv
    return float(gv.fs)


# documented positional order of the anchored functions (literal copy of the signatures at /repo 8caea4c)
SIGNATURES = {"ADC": ["input", "fs", "n", "otype"], "shortest_int": ["data", "percent"]}


def _same_arrays(a, b):
    a, b = np.asarray(a), np.asarray(b)
    return a.dtype == b.dtype and a.shape == b.shape and bool(np.array_equal(a, b, equal_nan=True))


# ---------------------------------------------------------------------------------------------------------------
# generators
# ---------------------------------------------------------------------------------------------------------------

def _multisets(alphabet, n):
    if n == 0:
        yield []
        return
    def rec(start, left):
        if left == 0:
            yield []
            return
        for i in range(start, len(alphabet)):
            for rest in rec(i, left - 1):
                yield [alphabet[i]] + rest
    yield from rec(0, n)


def _sint_case(rng, data, p, form=None, model=True):
    return {"kind": "sint", "data": data, "p": p, "form": form or rng.choice(["float", "float", "int", "list"]), "model": model}


def gen_cases(rng, tier):
    thorough = tier == "thorough"
    cases = []
    # ---- shortest_int -------------------------------------------------------------------------------------
    if thorough:
        for n in range(1, 10):
            for ms in _multisets([0, 1, 2, 3], n):
                data = ms[:]
                rng.shuffle(data)
                for k in range(n):
                    p = (k + 0.5) * 100 / n
                    cases.append(_sint_case(rng, data, p))
    n_rand = 400 if not thorough else 4000
    for _ in range(n_rand):
        t = rng.random()
        n = rng.choice([1, 2, 3, 4, 5, 7, 8, 9, 12, 16, 17, 31, 32, 50, 100]) if rng.random() < 0.8 else rng.randint(1, 300)
        if t < 0.35:      # small integer alphabet: heavy ties
            A = rng.randint(1, 5)
            data = [rng.randint(0, A) for _ in range(n)]
        elif t < 0.5:     # blocks of repeated values (the tie pattern of the old defect)
            vals = sorted(rng.sample(range(0, 40), min(40, rng.randint(1, 8))))
            data = [rng.choice(vals) for _ in range(n)]
            data += [vals[0]] * rng.randint(0, 4) + [vals[-1]] * rng.randint(0, 4)
        elif t < 0.65:    # dyadic grid (2^-40): width differences on both sides of the relative tie tolerance 1e-10*min
            base = [rng.randint(0, 6) for _ in range(n)]
            data = [b + rng.randint(0, 300) * 2.0 ** -40 for b in base]
        elif t < 0.8:     # coarse dyadic
            data = [rng.randint(-64, 64) / 8 for _ in range(n)]
        else:             # continuous
            data = [rng.gauss(0, 1) if rng.random() < 0.5 else rng.uniform(-3, 3) for _ in range(n)]
        n = len(data)
        rng.shuffle(data)
        u = rng.random()
        if u < 0.6:
            k = rng.randrange(n)
            p = (k + 0.5) * 100 / n
        elif u < 0.8:
            p = rng.choice([50, 50.0, 25, 75.0, 12.5, 37.5, 6.25, 99.99, 10, 90, 1, 99, 0.5, 33.3, 66.6])
        else:
            p = round(rng.uniform(0.01, 99.99), rng.randint(0, 3))
        if not (0 < p < 100):
            p = 50.0
        form = "float" if any(isinstance(v, float) and not float(v).is_integer() for v in data) else None
        cases.append(_sint_case(rng, data, p, form=form, model=safe_p(n, p)))
    # directed: n*p/100 is an exact integer (integer p, n*p = 0 mod 100): lag must be exactly floor(p*n/100)
    NS = [20, 25, 50, 90, 100, 150, 200, 500, 1000, 2000]
    pairs = [(n, p) for n in NS for p in range(1, 100) if (n * p) % 100 == 0]
    directed = [(100, 29), (100, 57), (100, 58), (50, 58), (90, 70), (200, 29), (100, 7), (100, 14), (200, 57), (500, 58)]
    directed += [pairs[rng.randrange(len(pairs))] for _ in range(60 if not thorough else 600)]
    if thorough:
        directed += [(n, p) for (n, p) in pairs if n <= 200]
    for n, p in directed:
        for ties in (False, True):
            if ties:
                data = [float(rng.randint(0, max(2, n // 4))) for _ in range(n)]
            else:
                data = rng.sample(range(-4 * n, 4 * n), n)
                data = [float(v) / 4 for v in data]
            cases.append({"kind": "sint", "data": data, "p": rng.choice([p, float(p)]), "form": "float", "model": True,
                          "directed": "integral-lag"})
    # directed: quantised codes stored in unsigned / narrow signed integer dtypes, handed to shortest_int directly,
    # unsorted, already sorted, descending, and as Python lists (signed dtypes stay inside the span their own arithmetic holds)
    ranges = {"uint8": [(0, 255), (0, 15), (100, 140)], "uint16": [(0, 65535), (0, 1023), (30000, 30100)],
              "uint32": [(0, 2 ** 32 - 1), (0, 4095)], "int8": [(-60, 60), (0, 100)], "int16": [(-16000, 16000), (-100, 100)],
              "int32": [(-10 ** 9, 10 ** 9), (-500, 500)], "int64": [(-10 ** 12, 10 ** 12)]}
    kk = 0
    for dt, rl in ranges.items():
        for (lo, hi) in rl:
            for order in ["random", "random", "sorted", "descending"]:
                for rep in range(1 if not thorough else 6):
                    kk += 1
                    n = rng.choice([2, 3, 5, 8, 16, 50, 200])
                    levels = rng.choice([2, 4, 8, 64]) if kk % 3 else None          # few levels: heavy ties
                    if levels:
                        grid = [lo + (hi - lo) * j // (levels - 1) for j in range(levels)]
                        data = [rng.choice(grid) for _ in range(n)]
                    else:
                        data = [rng.randint(lo, hi) for _ in range(n)]
                    if rng.random() < 0.5:
                        data[rng.randrange(n)] = lo
                        data[rng.randrange(n)] = hi
                    if order == "sorted":
                        data.sort()
                    elif order == "descending":
                        data.sort(reverse=True)
                    lagk = rng.randrange(n)
                    pp = (lagk + 0.5) * 100 / n if kk % 4 else rng.choice([50, 25, 75.0, 10, 90])
                    cases.append({"kind": "sint", "data": data, "p": pp, "form": "dtype", "dtype": dt, "model": safe_p(n, pp),
                                  "directed": "int-dtype-" + order})
    # wide signed records: the span exceeds the dtype's own range (differences wrapped before /repo 8caea4c)
    for dt, data, pp in [("int8", [-128, 0, 27, 100], 50), ("int16", [-30000, 0, 10000, 20000], 50),
                         ("int8", [27, -128, 100, 0], 50)]:
        cases.append({"kind": "sint", "data": data, "p": pp, "form": "dtype", "dtype": dt, "model": True,
                      "directed": "int-dtype-wide"})
    for dt, lo, hi in [("int8", -128, 127), ("int16", -32768, 32767), ("int16", -30000, 30000), ("int32", -2 ** 31, 2 ** 31 - 1)]:
        for rep in range(4 if not thorough else 30):
            n = rng.choice([4, 6, 10, 40, 150])
            data = [rng.randint(lo, hi) for _ in range(n)] if rep % 2 else [rng.choice([lo, lo // 2, 0, hi // 3, hi]) for _ in range(n)]
            lagk = rng.randrange(n)
            cases.append({"kind": "sint", "data": data, "p": (lagk + 0.5) * 100 / n, "form": "dtype", "dtype": dt, "model": True,
                          "directed": "int-dtype-wide"})
    for order in ["sorted", "descending", "random"]:      # Python lists and tuples of ints / floats
        for rep in range(3 if not thorough else 20):
            n = rng.choice([3, 6, 20, 100])
            data = [rng.randint(0, 9) for _ in range(n)] if rep % 2 else [rng.randint(-40, 40) / 4 for _ in range(n)]
            if order == "sorted":
                data.sort()
            elif order == "descending":
                data.sort(reverse=True)
            lagk = rng.randrange(n)
            cases.append({"kind": "sint", "data": data, "p": (lagk + 0.5) * 100 / n, "form": ["pylist", "pytuple"][rep % 2],
                          "model": True, "directed": "container-" + order})
    for data, p in [([0, 0, 0, 5, 6, 7, 9, 9, 9], 25), ([3, 1, 2], 50), ([1.0, 2.0], 10), ([1, 2, 3], 50), ([5], 50), ([5], 99.99),
                    ([1, 1, 1, 1], 50), ([0, 0, 0, 5, 6, 7, 9, 9, 9], 50), ([0, 1, 1, 2, 5, 5, 6, 9], 25),
                    ([0, 2, 2, 4, 4, 6, 6, 8], 12.5), ([0, 0, 1, 1, 2, 2], 37.5)]:
        cases.append(_sint_case(rng, data, p, form="float"))
    for data, p in [([1.0, 2.0], 100), ([], 50), ([1, 2, 3, 7], 150)]:      # rejected by numpy
        cases.append(_sint_case(rng, data, p, form="float"))
    # ---- ADC -------------------------------------------------------------------------------------------------
    n_adc = 60 if not thorough else 500
    longs = [10000, 10001, 12345, 20000, 2 ** 14, 2 ** 15] + ([2 ** 16, 2 ** 17, 30000, 99999] if thorough else [])
    for j in range(n_adc):
        nb = rng.choice([1, 2, 3, 4, 8, 12]) if rng.random() < 0.6 else rng.randint(1, 12)
        ot = rng.choice(["n", "v"])
        t = rng.random()
        if t < 0.35:       # exact dyadic records (codes must agree bit for bit), incl. half-step ties
            N = rng.choice([2, 3, 5, 9, 33, 100, 1000]) if rng.random() < 0.8 else rng.choice(longs[:4])
            spec = {"dist": "dyadic", "N": N, "seed": rng.getrandbits(32), "m": rng.randint(0, 8), "k": rng.randint(0, 4),
                    "a": rng.randint(-8, 8), "out": (1 if N >= 10000 and rng.random() < 0.7 else 0),
                    "side": rng.choice(["hi", "lo"])}
            exact = True
        elif t < 0.5:      # tiny explicit records
            N = rng.randint(2, 12)
            spec = {"data": [rng.randint(-20, 20) / rng.choice([1, 2, 4]) for _ in range(N)]}
            exact = False
        else:
            N = rng.choice(longs) if rng.random() < (0.45 if not thorough else 0.6) else rng.choice([2, 3, 10, 64, 500, 4096, 9999])
            dist = rng.choice(["gauss", "uniform", "sine", "quantised"])
            spec = {"dist": dist, "N": N, "seed": rng.getrandbits(32), "sigma": 10 ** rng.uniform(-3, 2), "mu": rng.uniform(-2, 2),
                    "a": -rng.uniform(0.1, 5), "b": rng.uniform(0.1, 5), "amp": 10 ** rng.uniform(-2, 1), "off": rng.uniform(-1, 1),
                    "levels": rng.randint(2, 40), "step": rng.choice([0.25, 0.1, 1.0])}
            if N >= 10000 and rng.random() < 0.6:
                spec["outliers"] = [[rng.randrange(N), rng.choice([-1, 1]) * 10 ** rng.uniform(1, 3)]]
            exact = False
        cases.append({"kind": "adc", "spec": spec, "n": nb, "otype": ot, "exact": exact,
                      "input": rng.choice(["ndarray", "electrical_signal"])})
    # directed: amplitude regimes - the existing record kinds times 1e-15 ... 1e12 (an ADC is scale-free)
    SCALES = [1e-15, 1e-12, 1e-11, 2e-10, 1e-9, 1e-8, 1e-6, 1e-3, 1e3, 1e6, 1e9, 1e12]
    kinds = ["gauss", "uniform", "sine", "quantised"]
    j = 0
    for sc in SCALES:
        for kind in (kinds if thorough else [kinds[(j + i) % 4] for i in range(2)]):
            for ot in ["n", "v"]:
                j += 1
                N = rng.choice([50, 300, 1000, 3000]) if j % 8 else 10000
                spec = {"dist": kind, "N": N, "seed": rng.getrandbits(32), "sigma": 1.0, "mu": rng.choice([0.0, 0.3]),
                        "a": -1.0, "b": 1.0, "amp": 1.0, "off": rng.choice([0.0, 0.5]), "cycles": rng.uniform(3, 60),
                        "levels": rng.randint(2, 16), "step": 0.25, "scale": sc}
                case = {"kind": "adc", "spec": spec, "n": rng.choice([1, 3, 8, 12]), "otype": ot, "exact": False,
                        "input": ["ndarray", "electrical_signal"][j % 2], "directed": "amplitude-regime"}
                if j % 6 == 0:
                    case["noise"] = {"dist": "gauss", "N": N, "seed": rng.getrandbits(32), "mu": 0.0, "sigma": 0.5, "scale": sc}
                    case["input"] = "electrical_signal"
                cases.append(case)
    # directed: high resolution combined with big glitches (10x ... 1e5x the full-scale range, both sides): the glitches must
    # saturate at the end codes whatever their size (40000 samples: the 99.99 % range leaves out exactly the three glitches)
    for nb in [8, 10, 11, 12]:
        for ot in ["n", "v"]:
            N = 40000
            m = rng.sample([10, 37, 150, 600, 5000, 1e5], 3)
            spec = {"dist": "gauss", "N": N, "seed": rng.getrandbits(32), "sigma": 1.0, "mu": 0.0,
                    "outliers": [[rng.randrange(0, N // 3), -8.0 * m[0]], [rng.randrange(N // 3, 2 * N // 3), 8.0 * m[1]],
                                 [rng.randrange(2 * N // 3, N), 8.0 * m[2]]]}
            cases.append({"kind": "adc", "spec": spec, "n": nb, "otype": ot, "exact": False,
                          "input": rng.choice(["ndarray", "electrical_signal"]), "directed": "big-glitch"})
    # directed: call sequences on ONE electrical_signal object with in-place edits between the calls
    EDITS = ["none", "gain", "offset", "attach_noise", "replace_noise", "replace_signal", "set_samples", "drop_noise"]
    for rep in range(10 if not thorough else 80):
        N = rng.choice([16, 200, 1000, 3000]) if rep % 5 else 10000
        dist = ["sine", "gauss", "uniform", "quantised"][rep % 4]
        spec = {"dist": dist, "N": N, "seed": rng.getrandbits(32), "sigma": 1.0, "mu": 0.1, "a": -1.0, "b": 1.5,
                "amp": 10 ** rng.uniform(-1, 1), "off": rng.uniform(-1, 1), "cycles": rng.uniform(2, 9),
                "levels": rng.randint(3, 9), "step": 0.5}
        steps = [{"edit": "none", "n": rng.choice([2, 4, 8, 12]), "otype": rng.choice(["n", "v"])}]
        for j in range(rng.randint(2, 4)):
            e = EDITS[(rep + j) % len(EDITS)] if j == 0 else rng.choice(EDITS)
            st = {"edit": e, "n": rng.choice([2, 4, 8, 12]), "otype": rng.choice(["n", "v"]), "seed": rng.getrandbits(32)}
            if e == "gain":
                st["g"] = rng.choice([3.0, 0.25, -2.0, 10 ** rng.uniform(-2, 2)])
            elif e == "offset":
                st["c"] = rng.choice([1.0, -5.0, 10 ** rng.uniform(-1, 2)])
            elif e in ("attach_noise", "replace_noise"):
                st["sigma"] = 10 ** rng.uniform(-1, 1)
            elif e == "replace_signal":
                st["amp"] = 10 ** rng.uniform(-1, 1.5)
            steps.append(st)
        cases.append({"kind": "adcseq", "spec": spec, "steps": steps, "noise0": (rep % 3 == 0)})
    # directed: the fs option (resampling before quantising): fs equal to, half and a quarter of gv.fs, container input
    jf = 0
    for ratio in [1.0, 0.5, 0.25]:
        for ot in ["n", "v"]:
            for rep in range(2 if not thorough else 12):
                jf += 1
                N = rng.choice([64, 256, 1000, 4096]) if jf % 6 else 20000
                dist = ["sine", "gauss", "uniform", "quantised"][jf % 4]
                spec = {"dist": dist, "N": N, "seed": rng.getrandbits(32), "sigma": 1.0, "mu": 0.2, "a": -1.0, "b": 2.0,
                        "amp": 10 ** rng.uniform(-1, 1), "off": rng.uniform(-1, 1), "cycles": rng.uniform(2, 9),
                        "levels": rng.randint(2, 9), "step": 0.5}
                case = {"kind": "adc", "spec": spec, "n": rng.choice([1, 2, 4, 8, 12]), "otype": ot, "exact": False,
                        "input": "electrical_signal", "fs_ratio": ratio, "directed": "fs-option"}
                if jf % 5 == 0:
                    case["noise"] = {"dist": "gauss", "N": N, "seed": rng.getrandbits(32), "mu": 0.0, "sigma": 0.3}
                cases.append(case)
    # directed: containers carrying a separate noise array comparable to / larger than the signal swing
    for j in range(16 if not thorough else 120):
        N = rng.choice([64, 500, 4096, 9999, 10000, 20000]) if j % 4 else rng.choice([10000, 12345, 20000])
        amp = 10 ** rng.uniform(-1, 1)
        sig = rng.choice([{"dist": "sine", "N": N, "seed": rng.getrandbits(32), "amp": amp, "off": rng.uniform(-1, 1),
                           "cycles": rng.uniform(1, 40)},
                          {"dist": "quantised", "N": N, "seed": rng.getrandbits(32), "levels": rng.randint(2, 8), "step": amp},
                          {"dist": "uniform", "N": N, "seed": rng.getrandbits(32), "a": -amp, "b": amp}])
        noise = {"dist": "gauss", "N": N, "seed": rng.getrandbits(32), "mu": 0.0, "sigma": amp * rng.choice([0.3, 1.0, 3.0])}
        cases.append({"kind": "adc", "spec": sig, "noise": noise, "n": rng.choice([1, 3, 8, 8, 12]), "otype": ["n", "v"][j % 2],
                      "exact": False, "input": "electrical_signal", "directed": "noisy-container"})
    # directed: quantised records stored in narrow integer dtypes (inside the span where the dtype's own arithmetic is exact)
    spans = {"int8": [(-50, 50), (-20, 40), (0, 100)], "int16": [(-1000, 1000), (-16000, 16000), (0, 30000)],
             "int32": [(-10 ** 6, 10 ** 6), (-1000, 1000)], "uint8": [(0, 255), (10, 200)], "uint16": [(0, 65535), (100, 40000)]}
    k = 0
    for dt in ["int8", "int16", "int32", "uint8", "uint16"]:
        for (lo, hi) in spans[dt]:
            for nb in ([2, 5, 8, 12] if not thorough else [1, 2, 3, 5, 8, 10, 12]):
                k += 1
                N = rng.choice([5, 50, 500, 4000])
                spec = {"dist": "intq", "N": N, "seed": rng.getrandbits(32), "lo": lo, "hi": hi,
                        "grid": rng.choice([1, 1, max(1, (hi - lo) // rng.choice([4, 10, 50]))])}
                cases.append({"kind": "adc", "spec": spec, "dtype": dt, "n": nb, "otype": ["n", "v"][k % 2], "exact": False,
                              "input": ["ndarray", "electrical_signal"][(k // 2) % 2], "directed": "int-dtype"})
    # wide-span integer records: the span exceeds what the dtype's own arithmetic can hold (repaired in /repo 127902b)
    wide = [("int8", -128, 127), ("int8", -100, 120), ("int16", -30000, 30000), ("int16", -32768, 32767),
            ("int32", -2 ** 31, 2 ** 31 - 1), ("int32", -2 * 10 ** 9, 2 * 10 ** 9), ("uint8", 0, 255), ("uint16", 0, 65535)]
    for dt, lo, hi in wide:
        for nb in ([2, 3, 8] if not thorough else [1, 2, 3, 5, 8, 12]):
            k += 1
            N = rng.choice([3, 5, 50, 500])
            spec = {"dist": "intq", "N": N, "seed": rng.getrandbits(32), "lo": lo, "hi": hi}
            cases.append({"kind": "adc", "spec": spec, "dtype": dt, "n": nb, "otype": ["n", "v"][k % 2], "exact": False,
                          "input": ["ndarray", "electrical_signal"][(k // 2) % 2], "directed": "int-dtype-wide"})
    for dt, blo, bhi, outs in [("uint8", 50, 199, [0, 255, 254]), ("uint16", 1000, 60000, [0, 3, 65535]),
                               ("int16", -100, 100, [-30000, 30000]), ("int8", -10, 10, [-128, 127]),
                               ("int32", -1000, 1000, [-2 ** 31, 2 ** 31 - 1])]:     # long records, outliers beyond the dtype-safe span
        for ot in ["n", "v"]:
            N = rng.choice([10000, 20000])
            spec = {"dist": "intq", "N": N, "seed": rng.getrandbits(32), "lo": blo, "hi": bhi,
                    "outliers": [[5 + 2 * j, v] for j, v in enumerate(outs)]}
            cases.append({"kind": "adc", "spec": spec, "dtype": dt, "n": rng.choice([2, 4, 8]), "otype": ot, "exact": False,
                          "input": rng.choice(["ndarray", "electrical_signal"]), "directed": "int-dtype-wide"})
    for dt, data in [("int8", [-128, -50, 0, 50, 127]), ("int16", [-30000, 0, 30000])]:
        for ot in ["n", "v"]:
            cases.append({"kind": "adc", "spec": {"data": data}, "dtype": dt, "n": 3 if dt == "int8" else 2, "otype": ot,
                          "exact": False, "input": "ndarray", "directed": "int-dtype-wide"})
    for dt, bulk, out in [("int16", 100, 5000), ("int8", 5, 40), ("int32", 1000, 10 ** 5)]:     # long signed records with outliers
        for ot in ["n", "v"]:
            N = rng.choice([10000, 20000])
            spec = {"dist": "intq", "N": N, "seed": rng.getrandbits(32), "lo": -bulk, "hi": bulk,
                    "outliers": [[rng.randrange(N), -out], [rng.randrange(N), out]]}
            cases.append({"kind": "adc", "spec": spec, "dtype": dt, "n": rng.choice([2, 5, 8]), "otype": ot, "exact": False,
                          "input": rng.choice(["ndarray", "electrical_signal"]), "directed": "int-dtype"})
    # directed: record lengths where 99.99 % of n is (or is next to) an exact integer, one clear extreme sample on each side
    for N in [10000, 20000, 10001, 9999] + ([30000, 50000] if thorough else []):
        for ot in ["n", "v"]:
            spec = {"dist": "gauss", "N": N, "seed": rng.getrandbits(32), "sigma": 1.0, "mu": 0.0,
                    "outliers": [[rng.randrange(N // 2), -50.0 - rng.random()], [N // 2 + rng.randrange(N // 2), 60.0 + rng.random()]]}
            cases.append({"kind": "adc", "spec": spec, "n": rng.choice([3, 8, 12]), "otype": ot, "exact": False,
                          "input": rng.choice(["ndarray", "electrical_signal"]), "directed": "integral-lag"})
    for spec in [{"data": [0.0, 1, 2, 3, 4, 5, 6, 7, 8]}, {"data": [0.5, 1.5, 2.5, 3.5, 0, 7]}, {"data": [0.0, 1.0, 2.0]},
                 {"data": [0.0, 1.0]}, {"data": [3.0, -1.0]}]:
        for nb in [1, 2, 3]:
            for ot in ["n", "v"]:
                cases.append({"kind": "adc", "spec": spec, "n": nb, "otype": ot, "exact": True, "input": "ndarray"})
    cases.append({"kind": "adc", "spec": {"data": [0.0, 1.0, 2.0, 3.0]}, "n": 3, "otype": "q", "exact": True, "input": "ndarray"})
    for spec in [{"data": [1.0, 1.0, 1.0, 1.0, 1.0]}, {"data": [2.5]}, {"dist": "quantised", "N": 20000, "seed": 5, "levels": 1}]:
        cases.append({"kind": "adc", "spec": spec, "n": 3, "otype": rng.choice(["n", "v"]), "exact": False, "input": "ndarray"})
    rng.shuffle(cases)
    return cases


# ---------------------------------------------------------------------------------------------------------------
# running the real code
# ---------------------------------------------------------------------------------------------------------------

def _obj_state(obj):
    """attribute set and array contents of an argument object (None for plain arrays: covered by input_unchanged)"""
    if isinstance(obj, np.ndarray) or not hasattr(obj, "__dict__"):
        return None
    st = {}
    for k_, v_ in vars(obj).items():
        st[k_] = v_.tobytes() + str(v_.dtype).encode() if isinstance(v_, np.ndarray) else repr(v_)
    return st


def _obj_diff(a, b, notes, func="ADC"):
    if a is None or b is None:
        return
    added = sorted(set(b) - set(a))
    removed = sorted(set(a) - set(b))
    changed = sorted(k_ for k_ in set(a) & set(b) if a[k_] != b[k_] and k_ != "execution_time")
    if added or removed:
        notes.append(["argument-attributes", func, f"the call changed the argument object's attribute set: added {added}, removed {removed}"])
    if changed:
        notes.append(["argument-modified", func, f"the call modified attribute(s) {changed} of the argument object"])


def _run_sequence(case):
    """several ADC calls on ONE electrical_signal object, edited in place between the calls; every call is recorded
    with the record (signal + noise) as it stood at that call"""
    import opticomlib.devices as D
    from opticomlib import electrical_signal
    res = {"status": "ok", "steps": []}
    try:
        with warnings.catch_warnings():
            warnings.simplefilter("ignore")
            sig0 = np.array(make_record(case["spec"]), dtype=float)
            N = len(sig0)
            if case.get("noise0"):
                x = electrical_signal(sig0, np.array(make_record({"dist": "gauss", "N": N, "seed": 11, "sigma": 0.2, "mu": 0.0})))
            else:
                x = electrical_signal(sig0)
            real = D.shortest_int
            for st in case["steps"]:
                r = random.Random(st.get("seed", 0))
                e = st["edit"]
                if e == "gain":
                    x.signal *= st["g"]
                elif e == "offset":
                    x.signal += st["c"]
                elif e in ("attach_noise", "replace_noise"):
                    x.noise = np.array([r.gauss(0.0, st["sigma"]) for _ in range(N)])
                elif e == "drop_noise":
                    x.noise = None
                elif e == "replace_signal":
                    x.signal = np.array([st["amp"] * r.uniform(-1, 1) for _ in range(N)])
                elif e == "set_samples":
                    x.signal[: max(1, N // 3)] = np.array([r.uniform(-4, 4) for _ in range(max(1, N // 3))])
                record = np.asarray(x.signal, dtype=float) + (0.0 if x.noise is None else np.asarray(x.noise, dtype=float))
                spied, notes = [], []

                def spy(signal, percent=50, spied=spied):
                    q = real(signal, percent)
                    spied.append((float(percent), float(q[0]), float(q[1])))
                    return q
                D.shortest_int = spy
                before = _obj_state(x)
                try:
                    with time_limit(60):
                        out = D.ADC(x, n=st["n"], otype=st["otype"])
                finally:
                    D.shortest_int = real
                _obj_diff(before, _obj_state(x), notes)
                sig = np.asarray(out.signal)
                res["steps"].append({"status": "ok", "edit": e, "record": [float(v) for v in record],
                                     "cls": type(out).__name__, "dtype": str(sig.dtype), "out": [float(v) for v in sig.ravel()],
                                     "shape": list(sig.shape), "vmin": spied[0][1] if spied else None,
                                     "vmax": spied[0][2] if spied else None, "percent": spied[0][0] if spied else None,
                                     "n_range_calls": len(spied), "input_unchanged": True, "notes": notes})
    except Timeout as e_:
        res.update(status="timeout", detail=str(e_))
    except Exception as e_:  # noqa
        res.update(status="err", err=exc_enum(e_), detail=repr(e_)[:200])
    return res


def _sub(case, res, i):
    """step i of a call sequence as an ordinary ADC case / result"""
    st, rs = case["steps"][i], res["steps"][i]
    return ({"kind": "adc", "spec": {"data": []}, "n": st["n"], "otype": st["otype"], "exact": False, "input": "electrical_signal",
             "_xs": rs["record"]}, rs)


def run_impl(case):
    res = {}
    try:
        with warnings.catch_warnings():
            warnings.simplefilter("ignore")
            if case["kind"] == "sint":
                from opticomlib.utils import shortest_int
                data = case["data"]
                if case["form"] == "dtype":
                    arg = np.array([int(v) for v in data], dtype=case["dtype"])
                elif case["form"] == "pylist":
                    arg = [int(v) if float(v).is_integer() else float(v) for v in data]
                elif case["form"] == "pytuple":
                    arg = tuple(int(v) if float(v).is_integer() else float(v) for v in data)
                elif case["form"] == "int" and all(float(v).is_integer() for v in data):
                    arg = np.array([int(v) for v in data], dtype=np.int64)
                elif case["form"] == "list" and len(data) > 0:
                    arg = [float(v) for v in data]
                else:
                    arg = np.array([float(v) for v in data], dtype=float)
                before = None if isinstance(arg, (list, tuple)) else arg.copy()
                notes = []
                with time_limit(30):
                    out = shortest_int(arg, case["p"])                     # positional, documented order (data, percent)
                    snap = np.array(out, copy=True)
                    try:
                        outk = shortest_int(**dict(zip(SIGNATURES["shortest_int"], (arg, case["p"]))))
                        if not _same_arrays(snap, outk):
                            notes.append(["positional", "shortest_int", f"positional {snap.tolist()} != keyword {np.asarray(outk).tolist()}"])
                    except Exception as e:  # noqa
                        notes.append(["positional", "shortest_int", f"keyword call (data=, percent=) failed: {type(e).__name__}: {e}"[:160]])
                    if isinstance(out, np.ndarray) and out.size and out.flags.writeable:
                        out[...] = -12345                                   # scribble on the result, ask again
                        out2 = shortest_int(arg, case["p"])
                        if np.shares_memory(out, out2) or not _same_arrays(snap, out2):
                            notes.append(["result-aliasing", "shortest_int", f"second call gave {np.asarray(out2).tolist()} after the first result was modified, first was {snap.tolist()}"])
                    # change of units (theorem shortest_unit_free): a power-of-two rescaling of float data is exact at every
                    # step (sort order, differences, relative tie test), so the interval must be exactly the rescaled one
                    if isinstance(arg, np.ndarray) and arg.dtype == np.float64 and arg.size and snap.size == 2:
                        mags = np.abs(arg)
                        nzm = mags[mags > 0]
                        if np.all(np.isfinite(mags)) and nzm.size and nzm.min() > 1e-200 and mags.max() < 1e200:
                            a = 2.0 ** (11 if len(data) % 2 else -5)
                            try:
                                outs = np.asarray(shortest_int(arg * a, case["p"]), dtype=float)
                                if not _same_arrays(outs, snap.astype(float) * a):
                                    notes.append(["unit-free", "shortest_int", f"data x {a!r} gives {outs.tolist()}, not the rescaled interval "
                                                  f"{(snap.astype(float) * a).tolist()}"])
                            except Exception as e:  # noqa
                                notes.append(["unit-free", "shortest_int", f"call on data x {a!r} failed: {type(e).__name__}: {e}"[:160]])
                    # order of the samples (theorem shortest_order_free): the reversed record has the same interval
                    if isinstance(arg, np.ndarray) and arg.size and snap.size == 2:
                        try:
                            outr = shortest_int(arg[::-1].copy(), case["p"])
                            if not _same_arrays(np.asarray(outr), snap):
                                notes.append(["order-free", "shortest_int", f"the reversed record gives {np.asarray(outr).tolist()}, the record "
                                              f"itself {snap.tolist()}"])
                        except Exception as e:  # noqa
                            notes.append(["order-free", "shortest_int", f"call on the reversed record failed: {type(e).__name__}: {e}"[:160]])
                    out = snap
                res.update(status="ok", lo=float(out[0]), hi=float(out[1]), n_out=int(np.size(out)), notes=notes)
                if before is not None and not np.array_equal(before, arg):
                    res["mutated"] = True
            elif case["kind"] == "adcseq":
                return _run_sequence(case)
            else:
                import opticomlib.devices as D
                from opticomlib import electrical_signal
                xs = make_record(case["spec"])
                dt = case.get("dtype", "float64")
                arr = np.array([int(v) for v in xs], dtype=dt) if dt in INT_DTYPES else np.array(xs, dtype=float)
                arr0 = arr.copy()
                if case.get("noise") is not None:
                    nz = np.array(make_record(case["noise"]), dtype=float)
                    arg = electrical_signal(arr, nz)
                else:
                    arg = electrical_signal(arr) if case["input"] == "electrical_signal" else arr
                spied = []
                real = D.shortest_int

                def spy(signal, percent=50):
                    r = real(signal, percent)
                    spied.append((float(percent), float(r[0]), float(r[1])))
                    return r
                D.shortest_int = spy
                fs = None if case.get("fs_ratio") is None else case["fs_ratio"] * _gv_fs()
                notes = []
                attrs0 = _obj_state(arg)
                try:
                    with time_limit(60):
                        out = D.ADC(arg, fs=fs, n=case["n"], otype=case["otype"])          # by keyword
                        try:
                            outp = D.ADC(arg, fs, case["n"], case["otype"])                  # positional, documented order
                            if not _same_arrays(out.signal, outp.signal):
                                notes.append(["positional", "ADC", "ADC(input, fs, n, otype) passed positionally differs from the keyword call"])
                        except Exception as e:  # noqa
                            notes.append(["positional", "ADC", f"positional call failed: {type(e).__name__}: {e}"[:160]])
                        # change of units (theorem adc_unit_free): scaling every sample by a power of two is exact in
                        # binary floating point at every step of shortest_int and of the quantiser, so the codes of the
                        # scaled record must be IDENTICAL (magnitudes kept far from under/overflow; fs=None only)
                        if case["otype"] == "n" and fs is None and dt not in INT_DTYPES and arr.size:
                            tot = arr if case.get("noise") is None else arr + nz
                            mags = np.abs(np.concatenate([arr, tot] + ([nz] if case.get("noise") is not None else [])))
                            nzm = mags[mags > 0]
                            if np.all(np.isfinite(mags)) and nzm.size and nzm.min() > 1e-200 and mags.max() < 1e200:
                                a = 2.0 ** (-7 if case["n"] % 2 else 9)
                                arg2 = arr * a if case["input"] != "electrical_signal" and case.get("noise") is None else \
                                    (electrical_signal(arr * a, nz * a) if case.get("noise") is not None else electrical_signal(arr * a))
                                try:
                                    out2 = D.ADC(arg2, fs=None, n=case["n"], otype="n")
                                    if not _same_arrays(out.signal, out2.signal):
                                        bad = np.flatnonzero(np.asarray(out.signal).ravel() != np.asarray(out2.signal).ravel()) \
                                            if np.shape(out.signal) == np.shape(out2.signal) else [0]
                                        k0 = int(bad[0]) if len(bad) else 0
                                        notes.append(["unit-free", "ADC", f"codes change when every sample is multiplied by {a!r} "
                                                      f"(first at sample {k0}, {len(bad)} samples differ)"])
                                except Exception as e:  # noqa
                                    notes.append(["unit-free", "ADC", f"ADC of the record scaled by {a!r} failed: {type(e).__name__}: {e}"[:160]])
                finally:
                    D.shortest_int = real
                _obj_diff(attrs0, _obj_state(arg), notes)
                sig = np.asarray(out.signal)
                res.update(status="ok", cls=type(out).__name__, dtype=str(sig.dtype), out=[float(v) for v in sig.ravel()],
                           shape=list(sig.shape), noise=None if out.noise is None else "present",
                           vmin=spied[0][1] if spied else None, vmax=spied[0][2] if spied else None,
                           percent=spied[0][0] if spied else None, n_range_calls=len(spied),
                           input_unchanged=bool(np.array_equal(arr, arr0)), in_dtype=str(arr.dtype), notes=notes)
    except Timeout as e:
        res.update(status="timeout", detail=str(e))
    except Exception as e:  # noqa
        res.update(status="err", err=exc_enum(e), detail=repr(e)[:200])
    return res


# ---------------------------------------------------------------------------------------------------------------
# model side
# ---------------------------------------------------------------------------------------------------------------

def model_requests(case, res):
    if res["status"] == "timeout":
        return []
    if case["kind"] == "adcseq":
        out = []
        for i in range(len(res.get("steps", []))):
            sc, sr = _sub(case, res, i)
            out += model_requests(sc, sr)
        return out
    if case["kind"] == "sint":
        if not case.get("model", True) or not (0 <= case["p"]):
            return []
        d = [Fraction(float(v)) for v in case["data"]]
        return [f"quant.shortest {enc_rat(dec_frac(case['p']))} {len(d)} " + " ".join(enc_rat(v) for v in d)]
    xs = effective_record(case)
    ot = case["otype"] if case["otype"] in ("v", "n") else "other"
    return [f"quant.adc {case['n']} {ot} {len(xs)} " + " ".join(enc_rat(Fraction(v)) for v in xs)]


EPS64 = 2.0 ** -52


def _tol(span, mag):
    """tolerance of a float clause: 1e-9 of the full-scale span plus the rounding of values of magnitude `mag`
    (8 ulp); nothing absolute"""
    return 1e-9 * span + 8 * EPS64 * mag


def _finite(*xs):
    return all(isinstance(x, (int, float)) and math.isfinite(x) for x in xs)


def _boundary_tie(case):
    """some lag-pair width differs from the minimum by the tie threshold TIE_TOL*min up to 1e-6 of it (the float product
    1e-10*dmin and the exact one may then decide differently)"""
    s_ = sorted(Fraction(float(x)) for x in case["data"])
    n = len(s_)
    lag = math.floor(Fraction(n) * dec_frac(case["p"]) / 100)
    if not 0 <= lag < n:
        return False
    w = [s_[j + lag] - s_[j] for j in range(n - lag)]
    best = min(w)
    thr = TIE_TOL * best
    return thr > 0 and any(abs((x - best) - thr) <= thr * Fraction(1, 10 ** 6) for x in w)


def compare(case, res, reqs, replies):
    if not reqs:
        return []
    if case["kind"] == "adcseq":
        bad = []
        for i in range(len(res["steps"])):
            sc, sr = _sub(case, res, i)
            bad += [f"call {i + 1} (after {sr['edit']}): {d}" for d in compare(sc, sr, reqs[i:i + 1], replies[i:i + 1])]
        return bad
    rep = replies[0]
    if case["kind"] == "sint":
        if res["status"] == "err":
            want = f"err {res['err']}"
            return [] if rep == want else [f"model says {rep[:100]!r}, implementation {want!r}"]
        if res["status"] != "ok":
            return [f"implementation: {res}"]
        t = rep.split()
        if t[0] != "ok":
            return [f"model says {rep[:100]!r}, implementation ({res['lo']!r},{res['hi']!r})"]
        lo, hi = Fraction(t[1]), Fraction(t[2])
        if not _finite(res["lo"], res["hi"]) or lo != Fraction(res["lo"]) or hi != Fraction(res["hi"]):
            if _finite(res["lo"], res["hi"]) and _boundary_tie(case):
                return []          # a width sits on the tie threshold 1e-10*dmin itself: float rounding of the product decides
            return [f"model ({float(lo)!r},{float(hi)!r}), implementation ({res['lo']!r},{res['hi']!r})"]
        return []
    # ADC
    if res["status"] == "err":
        want = f"err {res['err']}"
        return [] if rep == want else [f"model says {rep[:100]!r}, implementation {want!r}"]
    if res["status"] != "ok":
        return [f"implementation: {res}"]
    if res["vmin"] is not None and not _finite(res["vmin"], res["vmax"]):
        return [f"range estimate not finite: ({res['vmin']!r},{res['vmax']!r}); model says {rep[:60]!r}"]
    if res["vmin"] is not None and res["vmin"] == res["vmax"]:
        return [] if rep == "err Other" else [f"degenerate range: model says {rep[:80]!r}"]     # excluded point
    t = rep.split()
    if t[0] != "ok":
        return [f"model says {rep[:100]!r}, implementation returned {len(res['out'])} samples"]
    vmin, vmax, n = Fraction(t[1]), Fraction(t[2]), int(t[3])
    vals = t[4:]
    bad = []
    if vmin != Fraction(res["vmin"]) or vmax != Fraction(res["vmax"]):
        return [f"range: model ({float(vmin)!r},{float(vmax)!r}), implementation ({res['vmin']!r},{res['vmax']!r})"]
    if n != len(res["out"]):
        return [f"length: model {n}, implementation {len(res['out'])}"]
    top = 2 ** case["n"] - 1
    step = (vmax - vmin) / top
    xs = None
    tolv = _tol(float(vmax - vmin), max(abs(float(vmin)), abs(float(vmax))))
    for i in range(n):
        o = res["out"][i]
        tk = vals[i]
        if not _finite(o):
            bad.append(f"sample {i}: model {tk}, implementation {o!r} (not finite)")
            break
        if case["otype"] == "n":
            if "/" not in tk and int(tk) == o:           # fast path: integer code, equal
                continue
            m = Fraction(tk)
            ok = (m == Fraction(o))
        else:
            a, _, b = tk.partition("/")
            mf = int(a) / int(b) if b else float(int(a))  # int/int is correctly rounded = float(Fraction)
            if abs(mf - o) <= tolv:
                continue
            m = Fraction(tk)
            ok = False
        if not ok and not case["exact"]:
            # a half-step tie decided differently by float rounding of (s-Vmin)/(Vmax-Vmin)*(2^n-1)?
            if xs is None:
                xs = effective_record(case)
            r = (Fraction(xs[i]) - vmin) / (vmax - vmin) * top
            near_tie = abs((r - math.floor(r)) - Fraction(1, 2)) < Fraction(1, 10 ** 9)
            dm = abs(m - Fraction(o)) if case["otype"] == "n" else abs(m - Fraction(o)) / step
            ok = near_tie and abs(dm - 1) < Fraction(1, 10 ** 6)
        if not ok:
            bad.append(f"sample {i}: model {float(m)!r}, implementation {o!r}")
            if len(bad) >= 3:
                break
    return bad


# ---------------------------------------------------------------------------------------------------------------
# oracle
# ---------------------------------------------------------------------------------------------------------------

def _sint_oracle(data, p, lo, hi, tag):
    """the statement of shortest_int, exactly; returns list of (sig, msg).
    Floats are exact values: ordering and equality are decided on the floats themselves, only the widths
    (differences) are formed as exact rationals."""
    v = []
    if not _finite(lo, hi):
        return [(f"C18:{tag}:non-finite", f"returned ({lo!r},{hi!r})")]
    s = sorted(float(x) for x in data)
    n = len(s)
    lo, hi = float(lo), float(hi)
    if not lo <= hi:
        v.append((f"C18:{tag}:order", f"lo={lo!r} > hi={hi!r}"))
    lags = {k for k in lag_candidates(n, p) if k < n}
    if not lags:
        return v
    mag = max(abs(s[0]), abs(s[-1]), 0.0)
    width = Fraction(hi) - Fraction(lo)
    reports = []
    primary = math.floor(Fraction(n) * dec_frac(p) / 100)
    for lag in sorted(lags, key=lambda k: (k != primary, k)):   # more than one candidate only when n*p/100 is (nearly) an integer
        w = []
        if not any(s[i] == lo and s[i + lag] == hi for i in range(n - lag)):
            w.append((f"C18:{tag}:order-statistics",
                      f"({lo!r},{hi!r}) are not two order statistics {lag} apart (n={n}, p={p!r})"))
        else:
            inside = sum(1 for x in s if lo <= x <= hi)
            if not inside >= lag + 1:
                w.append((f"C18:{tag}:covers", f"[{lo!r},{hi!r}] holds {inside} samples, lag+1 = {lag + 1}"))
            widths = [Fraction(s[j + lag]) - Fraction(s[j]) for j in range(n - lag)]
            best = min(widths)
            if not width - best <= tie_slack(best, mag):
                j = widths.index(best)
                w.append((f"C18:{tag}:minimal", f"width {float(width)!r} but order statistics {j},{j + lag} "
                                                 f"({s[j]!r},{s[j + lag]!r}) are {float(best)!r} apart (n={n}, lag={lag})"))
        if not w:
            return v
        reports.append(w)
    return v + reports[0]


def _reference_range(xs):
    """the 99.99 % range the statement determines for a record, or None when several windows are tied"""
    s_ = sorted(float(x) for x in xs)
    n = len(s_)
    if n < 2 or not _finite(*s_):
        return None
    lag = (n * 9999) // 10000
    if lag >= n:
        return None
    widths = [Fraction(s_[j + lag]) - Fraction(s_[j]) for j in range(n - lag)]
    best = min(widths)
    slack = tie_slack(best, max(abs(s_[0]), abs(s_[-1])))
    cand = [j for j, w in enumerate(widths) if w - best <= slack]
    if len(cand) != 1:
        return None
    return s_[cand[0]], s_[cand[0] + lag]


def oracle(case, res):
    v = []
    if res["status"] == "timeout":
        return [(f"C18:{case['kind']}:timeout", f"no return on {str(case)[:150]}")]
    if case["kind"] == "adcseq":
        if res["status"] != "ok":
            return [("C18:ADC:sequence", f"call sequence failed after {len(res.get('steps', []))} calls: {res.get('err')} {res.get('detail', '')[:120]}")]
        for i in range(len(res["steps"])):
            sc, sr = _sub(case, res, i)
            edits = [st["edit"] for st in case["steps"][: i + 1]]
            v += [(sig, f"call {i + 1} of a sequence on one object (edits so far {edits}): {msg}") for sig, msg in oracle(sc, sr)]
        return v
    for kind_, func, msg in res.get("notes", []):
        v.append((f"C18:{kind_}:{func}", msg))
    if case["kind"] == "sint":
        data, p = case["data"], case["p"]
        n = len(data)
        if not (0 < p < 100) or n == 0:
            return v
        if res["status"] != "ok":
            return [("C18:shortest_int:accept", f"shortest_int({data[:12]!r}, {p!r}) failed: {res.get('err')} {res.get('detail', '')[:100]}")]
        if res["n_out"] != 2:
            return [("C18:shortest_int:shape", f"returned {res['n_out']} values")]
        if res.get("mutated"):
            v.append(("C18:shortest_int:mutates", "input array modified"))
        return v + _sint_oracle(data, p, res["lo"], res["hi"], "shortest_int")
    # ADC: every clause is evaluated on the samples to be quantised (signal + the container's noise)
    xs = effective_record(case)
    N, nb, ot = len(xs), case["n"], case["otype"]
    if ot not in ("v", "n") or N < 2:
        return v
    if res["status"] != "ok":
        return [("C18:ADC:accept", f"ADC(record of {N}, n={nb}, otype={ot!r}) failed: {res.get('err')} {res.get('detail', '')[:100]}")]
    if res["vmin"] is None:
        # the call did not estimate the range of this record: judge it against the range the statement determines
        # (unique when no other window is within the tie tolerance of the narrowest)
        v.append(("C18:ADC:range-estimate", "ADC did not call shortest_int on the record it was given"))
        ref = _reference_range(xs)
        if ref is None:
            return v
        vmin, vmax = ref
    else:
        vmin, vmax = res["vmin"], res["vmax"]
        if res["percent"] != 99.99:
            v.append(("C18:ADC:percent", f"full-scale range estimated with {res['percent']!r} %"))
        v += _sint_oracle(xs, res["percent"], vmin, vmax, "ADC-range")
        if not _finite(vmin, vmax):
            return v                # already reported as C18:ADC-range:non-finite
    out = res["out"]
    if len(out) != N or res["shape"] != [N]:
        v.append(("C18:ADC:length", f"{len(out)} output samples (shape {res['shape']}) for {N} input samples"))
        return v
    if not res["input_unchanged"]:
        v.append(("C18:ADC:mutates", "input array modified"))
    if vmax == vmin:
        return v                # excluded point: constant record, no full-scale range
    top = 2 ** nb - 1
    if not _finite(*out):
        k0 = next(i for i, o in enumerate(out) if not _finite(o))
        v.append(("C18:ADC:non-finite", f"sample {k0} ({xs[k0]!r}) -> {out[k0]!r} although V_min={vmin!r} < V_max={vmax!r}"))
        return v
    if not len(set(out)) <= 2 ** nb:
        v.append(("C18:ADC:levels", f"{len(set(out))} distinct output values for n={nb}"))
    Vmin, Vmax = Fraction(vmin), Fraction(vmax)
    step = (Vmax - Vmin) / top
    # float clauses: relative to the full-scale span (plus 8 ulp of the values' magnitude) - no absolute floor
    eps = Fraction(_tol(vmax - vmin, max(abs(vmin), abs(vmax))))
    # float pre-filter: a sample is cleared without exact arithmetic when its float-evaluated clause holds with a margin
    # larger than any rounding of the pre-filter itself (32 ulp of the magnitudes involved); all others are checked exactly
    xa, oa = np.array(xs, dtype=float), np.array(out, dtype=float)
    # order preservation (theorem adc_monotone): exact, no tolerance - every float operation of the quantiser
    # (subtract, divide/multiply by a positive number, round, clip) is monotone
    order = np.argsort(xa, kind="stable")
    drop = np.flatnonzero(np.diff(oa[order]) < 0)
    if len(drop):
        j, k = int(order[drop[0]]), int(order[drop[0] + 1])
        v.append(("C18:ADC:monotone", f"sample {j} ({xs[j]!r}) <= sample {k} ({xs[k]!r}) but outputs {out[j]!r} > {out[k]!r}"))
    fstep = (vmax - vmin) / top
    mag = max(abs(vmin), abs(vmax), float(np.max(np.abs(xa))), float(np.max(np.abs(oa)))) if ot == "v" else \
        max(abs(vmin), abs(vmax), float(np.max(np.abs(xa))))
    margin = 32 * EPS64 * mag + 32 * EPS64 * abs(fstep) * top
    feps = float(eps)
    with np.errstate(all="ignore"):
        if ot == "n":
            okc = (oa == np.round(oa)) & (oa >= 0) & (oa <= top)
            val_f = vmin + oa * fstep
        else:
            okc = (oa >= vmin) & (oa <= vmax)
            val_f = oa
        inr = (xa >= vmin) & (xa <= vmax)
        lowr = xa < vmin
        cleared = okc & np.where(inr, np.abs(val_f - xa) + margin <= fstep / 2,
                                 np.where(lowr, np.abs(val_f - vmin) + margin <= feps, np.abs(val_f - vmax) + margin <= feps))
    for i in np.flatnonzero(~cleared):
        i = int(i)
        s, o = xs[i], out[i]
        S, O = Fraction(s), Fraction(o)
        if ot == "n":
            if O.denominator != 1 or not (0 <= O <= top):
                v.append(("C18:ADC:code-range", f"sample {i} ({s!r}) -> code {o!r} outside the integers 0..{top}"))
                break
            val = Vmin + O * step
        else:
            if not (Vmin - eps <= O <= Vmax + eps):
                v.append(("C18:ADC:full-scale", f"sample {i} ({s!r}) -> {o!r} outside [{vmin!r},{vmax!r}]"))
                break
            val = O
        if Vmin <= S <= Vmax:
            if not abs(val - S) <= step / 2 * (1 + Fraction(1, 10 ** 9)) + eps:
                v.append(("C18:ADC:half-step", f"in-range sample {i} ({s!r}) moved to {float(val)!r}: more than half a step {float(step / 2)!r}"))
                break
        elif S < Vmin:
            if not abs(val - Vmin) <= eps:
                v.append(("C18:ADC:saturate-low", f"sample {i} ({s!r}) below V_min={vmin!r} -> {o!r}, not the lowest code"))
                break
        else:
            if not abs(val - Vmax) <= eps:
                v.append(("C18:ADC:saturate-high", f"sample {i} ({s!r}) above V_max={vmax!r} -> {o!r}, not the highest code"))
                break
    for end, want_code, name in ((vmin, 0, "lowest"), (vmax, top, "highest")):
        for i, s_ in enumerate(xs):
            if s_ == end:
                got = Fraction(out[i])
                ref = Fraction(want_code) if ot == "n" else Fraction(end)
                if not abs(got - ref) <= (0 if ot == "n" else eps):
                    v.append(("C18:ADC:end-code", f"sample {i} equal to {'V_min' if want_code == 0 else 'V_max'}={end!r} -> {out[i]!r}, "
                                                  f"not the {name} code/level"))
                break
    if ot == "n" and not res["dtype"].startswith("int"):
        v.append(("C18:ADC:code-dtype", f"codes have dtype {res['dtype']}"))
    return v


def features(case, res):
    k = case["kind"]
    f = ["kind=" + k, "status=" + res["status"]]
    if k == "adcseq":
        f.append(f"adcseq:calls={len(case['steps'])}")
        f += ["adcseq:edit=" + st["edit"] for st in case["steps"]]
        return f
    if res["status"] == "err":
        f.append(f"{k}:err=" + res["err"])
    if k == "sint":
        n = len(case["data"])
        f.append("sint:n=" + ("0" if n == 0 else "1" if n == 1 else "2-9" if n < 10 else "10-99" if n < 100 else "100+"))
        f.append("sint:form=" + case["form"] + (":" + case["dtype"] if case.get("dtype") else ""))
        if case.get("directed") and case["directed"] != "integral-lag":
            f.append("sint:directed-" + case["directed"])
        f.append("sint:ties" if len(set(case["data"])) < n else "sint:distinct")
        if not case.get("model", True):
            f.append("sint:oracle-only")
        if case.get("directed") == "integral-lag":
            f.append("sint:directed-integral-lag")
        if res["status"] == "ok":
            lags = lag_candidates(n, case["p"])
            f.append("sint:lag=0" if 0 in lags else "sint:lag>0")
            s = sorted(Fraction(float(x)) for x in case["data"])
            for lag in lags:
                if lag < n:
                    w = [s[j + lag] - s[j] for j in range(n - lag)]
                    m = min(w)
                    if sum(1 for x in w if x == m) > 1:
                        f.append("sint:tied-minima")
                    if any(0 < x - m <= TIE_TOL * m for x in w):
                        f.append("sint:near-tie-inside-tolerance")
                    break
    else:
        spec = case["spec"]
        N = spec["N"] if "N" in spec else len(spec["data"])
        f.append("adc:N=" + ("<10" if N < 10 else "<10^4" if N < 10000 else ">=10^4"))
        f.append("adc:dist=" + spec.get("dist", "explicit"))
        f.append(f"adc:n={case['n']}")
        f.append("adc:otype=" + case["otype"])
        f.append("adc:input=" + case["input"])
        if case.get("directed"):
            f.append("adc:directed-" + str(case["directed"]))
        f.append("adc:dtype=" + case.get("dtype", "float64"))
        if "scale" in spec:
            f.append("adc:scale=%g" % spec["scale"])
        if case.get("noise") is not None:
            f.append("adc:separate-noise")
        if case.get("fs_ratio") is not None:
            f.append("adc:fs=%g*gv.fs" % case["fs_ratio"])
        if res["status"] == "ok" and res["vmin"] is not None:
            if res["vmin"] == res["vmax"]:
                f.append("adc:degenerate-range")
            else:
                xs = effective_record(case)
                if any(x < res["vmin"] or x > res["vmax"] for x in xs):
                    f.append("adc:has-out-of-range-samples")
    return f


def nontrivial_key(case, res):
    if res["status"] != "ok":
        return None
    if case["kind"] == "adcseq":
        return ("adcseq", case["spec"]["seed"], tuple(st["edit"] for st in case["steps"]))
    if case["kind"] == "sint":
        return ("sint", tuple(case["data"]), case["p"]) if len(case["data"]) >= 2 else None
    if res.get("vmin") == res.get("vmax"):
        return None
    return ("adc", str(sorted(case["spec"].items()))[:200], str(case.get("noise"))[:80], case.get("dtype"), case["n"], case["otype"])
